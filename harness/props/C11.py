"""C11 — ragged Vector keeps its structural invariants under any operation history.

Theorems: coq/props/C11_Properties.v (model coq/model/C11_Model.v, heap/tree library coq/lib/C11_Heap.v).
Tie: random operation histories are executed in lock-step on real `Vector` objects; after EVERY step
  (1) the property text is evaluated directly on the implementation (oracle): nesting of `_data`
      matches `shape`, every populated cell is a 2-D array with one column per field, field names unique
      and as many units, field/whole flatten = row-major concatenation and writing it back is the
      identity, a new vector shares no array / dict / list with the vectors that existed before
      (views share exactly the addressed arrays), slices and fancy get/set address the right cells,
      and (reference semantics, `oracle_effect`) the cell contents after field arithmetic, set_flattened,
      add_fields, remove_fields and copy are the expected ones while no other array changes;
      the public attribute setters (fields / units / shape / data / name), metadata item assignment,
      _FieldView.__getitem__, index tuples longer than the number of fixed dimensions and the save + load
      round trip are operations of the histories too (schema / name / metadata of every OTHER vector must
      not move, a renamed / re-populated vector holds exactly what was given);
  (2) the whole observable state (shape, fields, units, per-cell arrays as exact rationals, `is`-aliasing of
      cells and metadata dicts between all live vectors, the returned value or error class) is compared
      with the Coq model run on the same history (vm_compute).
"""
from __future__ import annotations

import contextlib
import io
import itertools
import json
import os
import shutil
import tempfile
from fractions import Fraction

import numpy as np

from ..common import Ctx

PRE = """From QV.lib Require Import Prelude C11_Heap.
From QV.model Require Import C11_Model.
From Coq Require Import QArith.
Local Close Scope Q_scope.
Definition q (n : Z) (d : positive) : Q := Qmake n d.
Arguments q n%Z d%positive.
Definition c (k : nat) (r : list (list Q)) : cell := mkCell k r.
Arguments c k%nat r.
Open Scope Z_scope.
"""

MOD = 2305843009213693951
ERR = {TypeError: 1, ValueError: 2, IndexError: 3, KeyError: 4}

VECTOR_METHODS = ["Vector.__init__", "Vector.from_shape", "Vector.from_data", "Vector.get_data", "Vector.set_data",
                  "Vector.__getitem__", "Vector.__setitem__", "Vector.add_fields", "Vector.remove_fields",
                  "Vector.copy", "Vector.flatten", "nested_list", "_FieldView.__init__", "_FieldView._apply_op",
                  "_FieldView.__iadd__", "_FieldView.__isub__", "_FieldView.__imul__", "_FieldView.__itruediv__",
                  "_FieldView.__ifloordiv__", "_FieldView.__imod__", "_FieldView.__ipow__", "_FieldView.flatten",
                  "_FieldView.set_flattened", "_FieldView.__array__", "_FieldView.__getitem__"]
# whole classes (the property setters share their name with the getter, which the per-method index keeps)
VECTOR_CLASSES = ["Vector", "_FieldView"]
VALIDATORS = ["validate_shape", "validate_fields", "validate_num_fields", "validate_vector_units",
              "validate_vector_data_for_inference", "validate_vector_data"]


# ------------------------------------------------------------------------------------------
# names <-> integers (the model uses integers for field names and units)
def fname(z):
    return "field_%d" % z if z >= 0 else "g%d" % (-z)


def fnum(s):
    if isinstance(s, str) and s.startswith("field_") and s[6:].isdigit():
        return int(s[6:])
    if isinstance(s, str) and s.startswith("g") and s[1:].isdigit():
        return -int(s[1:])
    return 10 ** 6


def uname(z):
    return "none" if z == 0 else "u%d" % z


def unum(s):
    if s == "none":
        return 0
    if isinstance(s, str) and s.startswith("u") and s[1:].isdigit():
        return int(s[1:])
    return 10 ** 6


def fr(x):
    return Fraction(x)


def frs(x):
    x = Fraction(x)
    return "%d/%d" % (x.numerator, x.denominator)


# ------------------------------------------------------------------------------------------
# implementation side
def leaves_of(data):
    """row-major leaves of the nested lists (whatever their actual nesting is)"""
    if isinstance(data, list):
        out = []
        for sub in data:
            out.extend(leaves_of(sub))
        return out
    return [data]


def nesting_ok(data, shape):
    if len(shape) == 0:
        return not isinstance(data, list)
    if not isinstance(data, list) or len(data) != shape[0]:
        return False
    return all(nesting_ok(sub, shape[1:]) for sub in data)


def inner_lists(data):
    if isinstance(data, list):
        yield data
        for sub in data:
            yield from inner_lists(sub)


def cell_at(data, path):
    ref = data
    for i in path:
        ref = ref[i]
    return ref


class Impl:
    """live Vector objects, driven by abstract ops; canonical observation of the state"""

    def __init__(self):
        from quantem.core.datastructures.vector import Vector
        self.V = Vector
        self.vecs = []

    # ---- arguments
    def aval(self, a, in_from_data=False):
        k = a["k"]
        if k == "new":
            if a.get("dt") == "int":      # an integer-dtype cell (np.array([[1, 2]]) / a list of whole numbers)
                arr = np.array([[int(fr(x)) for x in row] for row in a["rows"]], dtype=np.int64).reshape(
                    len(a["rows"]), a["ncols"])
            else:
                arr = np.array([[float(fr(x)) for x in row] for row in a["rows"]], dtype=float).reshape(
                    len(a["rows"]), a["ncols"])
            if in_from_data and a.get("aslist") and len(a["rows"]) > 0:
                return arr.tolist()
            return arr
        if k == "old":
            ls = leaves_of(self.vecs[a["vi"]]._data)
            return ls[a["pos"]] if a["pos"] < len(ls) else None
        if k == "bad1":
            return np.zeros(3)
        if k == "bad3":
            return np.zeros((2, a["n1"], 2))
        return a.get("py", 5)        # notarr

    def sval(self, v):
        k = v["k"]
        if k == "arr":
            return self.aval(v["a"])
        if k == "list":
            return [self.aval(a) for a in v["l"]]
        if k == "vec":
            return self.vecs[v["vi"]]
        return 7

    def dval(self, skel, items):
        """the nested-list argument of `v.data = ...`: skeleton of Python lists, int leaf = items[i], None = None"""
        if isinstance(skel, list):
            return [self.dval(x, items) for x in skel]
        if skel is None:
            return None
        return self.aval(items[skel], True)

    @staticmethod
    def names_arg(a, to_name):
        if a["k"] == "none":
            return None
        if a["k"] == "bad":
            return a.get("py", 5)
        l = [to_name(z) for z in a["l"]]
        return tuple(l) if a.get("tuple") else l

    @staticmethod
    def index(x):
        if "i" in x:
            return x["i"]
        if "s" in x:
            return slice(*x["s"])
        return np.array(x["l"], dtype=int) if (x.get("np") and x["l"]) else list(x["l"])

    # ---- one step; returns (result serialisation, info for the oracle)
    def step(self, op):
        V = self.V
        kind = op["op"]
        info = {}
        try:
            with contextlib.redirect_stdout(io.StringIO()):
                if kind == "from_shape":
                    w = V.from_shape(tuple(op["shape"]), num_fields=op["nf"],
                                     fields=None if op["fields"] is None else [fname(z) for z in op["fields"]],
                                     units=None if op["units"] is None else [uname(z) for z in op["units"]])
                    self.vecs.append(w)
                    info["created"] = "fresh"
                    return [3], info
                if kind == "from_data":
                    data = 5 if op["data"] is None else [self.aval(a, True) for a in op["data"]]
                    info["given"] = data
                    w = V.from_data(data, num_fields=op["nf"],
                                    fields=None if op["fields"] is None else [fname(z) for z in op["fields"]],
                                    units=None if op["units"] is None else [uname(z) for z in op["units"]])
                    self.vecs.append(w)
                    info["created"] = "fresh"
                    return [3], info
                v = self.vecs[op["vi"]]
                if kind == "get_data":
                    r = v.get_data(*[self.index(x) for x in op["idx"]])
                    info["ret"] = r
                    if isinstance(r, list):
                        return [2, len(r)] + [("L", x) for x in r], info
                    return [1, ("L", r)], info
                if kind == "set_data":
                    val = self.sval(op["value"])
                    info["val"] = val
                    v.set_data(val, *[self.index(x) for x in op["idx"]])
                    return [0], info
                if kind == "getitem":
                    ii = [self.index(x) for x in op["idx"]]
                    r = v[ii[0] if (len(ii) == 1 and op.get("bare")) else tuple(ii)]
                    info["ret"] = r
                    if isinstance(r, V):
                        self.vecs.append(r)
                        info["created"] = "view"
                        return [3], info
                    if isinstance(r, np.ndarray) and r.ndim == 1 and len(ii) > len(v._shape):
                        return [5, len(r)] + [z for x in r.tolist() for z in qpair(x)], info    # a row of the cell
                    return [1, ("L", r)], info
                if kind == "field_get":
                    ii = [self.index(x) for x in op["idx"]]
                    fv = v[fname(op["name"])]
                    r = fv[ii[0] if (len(ii) == 1 and op.get("bare")) else tuple(ii)]
                    info["ret"] = r
                    if r is None:
                        return [0], info
                    if isinstance(r, np.ndarray):
                        return [5, len(r)] + [z for x in r.tolist() for z in qpair(x)], info
                    self.vecs.append(r.vector)          # the view keeps the sliced Vector alive
                    info["created"] = "view"
                    return [3], info
                if kind == "set_fields":
                    arg = self.names_arg(op["arg"], fname)
                    info["arg"] = arg
                    v.fields = arg
                    return [0], info
                if kind == "set_units":
                    arg = self.names_arg(op["arg"], uname)
                    info["arg"] = arg
                    v.units = arg
                    return [0], info
                if kind == "set_shape":
                    v.shape = [2] if op["shape"] is None else tuple(op["shape"])
                    return [0], info
                if kind == "set_data_attr":
                    arg = self.dval(op["skel"], op["items"])
                    info["arg"] = arg
                    v.data = arg
                    return [0], info
                if kind == "set_name":
                    v.name = op["name"]
                    return [0], info
                if kind == "meta_put":
                    v.metadata[op["key"]] = op["val"]
                    return [0], info
                if kind == "reload":
                    from quantem.core.io.serialize import load
                    tmp = tempfile.mkdtemp(prefix="c11_")
                    try:
                        path = os.path.join(tmp, "v.zip" if op["store"] == "zip" else "v")
                        v.save(path, store=op["store"])
                        w = load(path)
                    finally:
                        shutil.rmtree(tmp, ignore_errors=True)
                    self.vecs.append(w)
                    info["created"] = "fresh"
                    return [3], info
                if kind == "setitem":
                    val = self.sval(op["value"])
                    info["val"] = val
                    ii = [self.index(x) for x in op["idx"]]
                    v[ii[0] if (len(ii) == 1 and op.get("bare")) else tuple(ii)] = val
                    return [0], info
                if kind == "field_op":
                    name, (a, x) = fname(op["name"]), op["a"]
                    c = int(x) if a == "pow" else float(fr(x))
                    if a == "add":
                        v[name] += c
                    elif a == "sub":
                        v[name] -= c
                    elif a == "mul":
                        v[name] *= c
                    elif a == "div":
                        v[name] /= c
                    elif a == "floordiv":
                        v[name] //= c
                    elif a == "mod":
                        v[name] %= c
                    elif a == "pow":
                        v[name] **= c
                    return [0], info
                if kind == "field_flatten":
                    r = np.asarray(v[fname(op["name"])]) if op.get("via") == "asarray" else \
                        np.asarray(v[fname(op["name"])].flatten())
                    return [5, len(r)] + [z for x in r.tolist() for z in qpair(x)], info
                if kind == "set_flattened":
                    vals = np.zeros((2, 2)) if op["vals"] is None else np.array([float(fr(x)) for x in op["vals"]],
                                                                                dtype=float)
                    if op.get("via") == "setitem":
                        v[fname(op["name"])] = vals
                    else:
                        v[fname(op["name"])].set_flattened(vals if op.get("via") != "list" else vals.tolist())
                    return [0], info
                if kind == "flatten":
                    r = v.flatten()
                    return [4, int(r.shape[1]), int(r.shape[0])] + [z for x in r.ravel().tolist() for z in qpair(x)], info
                if kind in ("add_fields", "remove_fields"):
                    info["pre_fields"], info["pre_units"] = list(v._fields), list(v._units)
                if kind == "add_fields":
                    names = [fname(z) for z in op["names"]]
                    v.add_fields(names[0] if (op.get("asstr") and len(names) == 1) else names)
                    return [0], info
                if kind == "remove_fields":
                    names = [fname(z) for z in op["names"]]
                    v.remove_fields(names[0] if (op.get("asstr") and len(names) == 1) else names)
                    return [0], info
                if kind == "copy":
                    self.vecs.append(v.copy())
                    info["created"] = "copy"
                    return [3], info
            raise AssertionError("unknown op " + kind)
        except (TypeError, ValueError, IndexError, KeyError) as e:
            info["exc"] = e
            return [-1, ERR[type(e)]], info
        except Exception as e:  # noqa: an exception class outside the enum
            info["exc"] = e
            return [-1, 9], info

    # ---- canonical observation (mirrors C11_Model.obs / ser_res)
    def labels(self):
        lab = {}
        keep = []
        for v in self.vecs:
            for lf in leaves_of(v._data):
                if lf is not None and id(lf) not in lab:
                    lab[id(lf)] = len(lab)
                    keep.append(lf)
        return lab, keep

    def obs(self):
        lab, cells = self.labels()
        metas = {}
        out = [len(self.vecs)]
        for v in self.vecs:
            metas.setdefault(id(v._metadata), len(metas))
            ls = leaves_of(v._data)
            out += [len(v._shape)] + [int(x) for x in v._shape]
            out += [len(v._fields)] + [fnum(x) for x in v._fields]
            out += [len(v._units)] + [unum(x) for x in v._units]
            out += [metas[id(v._metadata)], len(ls)]
            out += [-1 if lf is None else lab[id(lf)] for lf in ls]
        out.append(len(cells))
        for c in cells:
            out += ser_cell(c)
        return out

    def finish_res(self, res):
        lab, _ = self.labels()
        out = []
        for x in res:
            if isinstance(x, tuple):
                o = x[1]
                out.append(-1 if o is None else lab.get(id(o), -5))
            else:
                out.append(x)
        return out


def qpair(x):
    f = Fraction(x)          # exact (raises on nan/inf: caught by the caller as a harness failure)
    return [f.numerator, f.denominator]


def ser_cell(c):
    if not isinstance(c, np.ndarray) or c.ndim != 2:
        return [-8, getattr(c, "ndim", -1)]
    out = [int(c.shape[1]), int(c.shape[0])]
    for x in c.ravel().tolist():
        out += qpair(x)
    return out


def fp(lst):
    a = 0
    for x in lst:
        a = (a * 1000003 + x + 7) % MOD
    return a


# ------------------------------------------------------------------------------------------
# oracle: the property text, evaluated on the implementation
def py_index_lists(shape, idx, pad):
    """per-axis index lists an index expression denotes (Python's own slice/list semantics)"""
    full = list(idx) + ([{"s": [None, None, None]}] * (len(shape) - len(idx)) if pad else [])
    out = []
    for n, x in zip(shape, full):
        if "i" in x:
            out.append([x["i"]])
        elif "s" in x:
            if x["s"][2] == 0:
                return None
            out.append(list(range(*slice(*x["s"]).indices(n))))
        else:
            out.append(list(x["l"]))
    return out


def snapshot_cells(vecs):
    return [[(lf, None if not isinstance(lf, np.ndarray) else lf.copy()) for lf in leaves_of(v._data)] for v in vecs]


def oracle_structure(impl):
    """invariants of every live vector; returns (key, message) or None"""
    for n, v in enumerate(impl.vecs):
        if not nesting_ok(v._data, tuple(v._shape)):
            return ("data-nesting-does-not-match-shape",
                    "vector #%d: nesting of _data does not match shape %s" % (n, tuple(v._shape)))
        nf = len(v._fields)
        for lf in leaves_of(v._data):
            if lf is None:
                continue
            if not isinstance(lf, np.ndarray) or lf.ndim != 2 or lf.shape[1] != nf:
                return ("cell-not-2d-one-column-per-field",
                        "vector #%d (%d fields) holds a cell of type %s shape %s" % (
                            n, nf, type(lf).__name__, getattr(lf, "shape", None)))
        if len(set(v._fields)) != len(v._fields) or len(v._units) != len(v._fields) or v.num_fields != nf:
            return ("fields-units-schema", "vector #%d: fields=%s units=%s" % (n, v._fields, v._units))
    return None


def oracle_flatten(impl):
    """flatten = row-major concatenation over np.ndindex(shape); writing it back changes nothing"""
    for n, v in enumerate(impl.vecs):
        cells = [cell_at(v._data, p) for p in np.ndindex(*v._shape)] if len(v._shape) else []
        cells = [c for c in cells if c is not None]
        nf = len(v._fields)
        want = np.vstack(cells) if cells else np.empty((0, nf))
        with contextlib.redirect_stdout(io.StringIO()):
            got = v.flatten()
        if got.shape != want.shape or not np.array_equal(got, want):
            return ("flatten-not-rowmajor", "vector #%d: flatten() is not the row-major concatenation of its cells" % n)
        if any(np.shares_memory(got, c) for c in cells):
            return ("flatten-aliases-cell", "vector #%d: flatten() returns an array sharing memory with a cell" % n)
        for k, f in enumerate(v._fields):
            got = np.asarray(v[f].flatten())
            w = want[:, k] if cells else np.empty((0,))
            if got.shape != w.shape or not np.array_equal(got, w):
                return ("field-flatten-not-rowmajor", "vector #%d field %s: flatten() is not the concatenated column" % (n, f))
            if any(np.shares_memory(got, c) for c in cells):
                # a saved flatten() result that is a window into a cell changes with the field, so writing it
                # back later does not restore the data it was taken from (and it is shared mutable state)
                return ("field-flatten-aliases-cell", "vector #%d field %s: flatten() returns an array sharing memory with a "
                        "cell (%d populated cell(s)): a later field change alters the saved values, writing them back "
                        "cannot restore the data" % (n, f, len(cells)))
            before = [c.copy() for c in cells]
            v[f].set_flattened(got)
            if any(not np.array_equal(a, b) for a, b in zip(before, cells)):
                return ("set-flattened-not-inverse", "vector #%d field %s: set_flattened(flatten()) changed the data" % (n, f))
    return None


def oracle_step(impl, op, res, info, pre_vecs, pre_leaves):
    """clauses that concern the step just executed; pre_* describe the state before it"""
    kind = op["op"]
    V = impl.V
    # ---- no shared mutable state for newly created vectors
    if info.get("created"):
        w = impl.vecs[-1]
        old = pre_vecs
        for n, v in enumerate(old):
            if w._metadata is v._metadata:
                return ("shared-default-metadata",
                        "new vector (%s) has the SAME metadata dict object as live vector #%d" % (kind, n))
            if w._fields is v._fields or w._units is v._units:
                return ("shared-fields-list", "new vector shares its fields/units list with vector #%d" % n)
            wl = {id(x) for x in inner_lists(w._data)}
            if any(id(x) in wl for x in inner_lists(v._data)):
                return ("shared-nested-list", "new vector (%s) shares a nested list object with vector #%d" % (kind, n))
        if info["created"] in ("fresh", "copy"):
            given = {id(x) for x in info.get("given", [])} if isinstance(info.get("given"), list) else set()
            for lf in leaves_of(w._data):
                if not isinstance(lf, np.ndarray):
                    continue
                for n, v in enumerate(old):
                    for c in leaves_of(v._data):
                        if isinstance(c, np.ndarray) and (c is lf or np.shares_memory(c, lf)) and id(lf) not in given:
                            return ("copy-shares-cells" if info["created"] == "copy" else "fresh-vector-shares-cells",
                                    "new vector (%s) shares array memory with live vector #%d" % (kind, n))
    if "vi" not in op or op["vi"] >= len(pre_vecs):
        return None
    v = pre_vecs[op["vi"]]
    shape = tuple(v._shape)
    d = len(shape)
    src_leaves = pre_leaves[op["vi"]]

    def src_cell(path):
        # address in the PRE-state leaves (row-major offset)
        off = 0
        for i, n in zip(path, shape):
            off = off * n + (i % n)
        return src_leaves[off][0]

    # ---- slicing returns the addressed cells, for every number of fixed dimensions
    via_field = kind == "field_get" and fname(op["name"]) in list(v._fields)
    if (kind == "getitem" or via_field) and len(op["idx"]) <= d and \
            not (len(op["idx"]) == d and all("i" in x for x in op["idx"])):
        lists = py_index_lists(shape, op["idx"], pad=True)
        valid = lists is not None and all(len(l) > 0 and all(-n <= i < n for i in l) for l, n in zip(lists, shape))
        if valid:
            if "exc" in info:
                return ("slicing-%dd-raises" % d,
                        "v[%s] on a vector with %d fixed dimension(s) %s raised %s: %s" % (
                            show_idx(op["idx"]), d, shape, type(info["exc"]).__name__, info["exc"]))
            w = info["ret"]
            if via_field:
                # v[name][idx]: the field view of the slice; its values are that column of the addressed cells
                fv, w = w, getattr(w, "vector", None)
                k = list(v._fields).index(fname(op["name"]))
                cols = [c[:, k] for c in (src_cell(p) for p in itertools.product(*lists)) if isinstance(c, np.ndarray)]
                want = np.concatenate(cols) if cols else np.empty((0,))
                try:
                    got = np.asarray(fv)
                except Exception as e:  # noqa
                    got = e
                if not isinstance(got, np.ndarray) or got.shape != want.shape or not np.array_equal(got, want):
                    return ("field-view-slice-wrong-values",
                            "v[%r][%s] on shape %s is not that column of the addressed cells" % (
                                fname(op["name"]), show_idx(op["idx"]), shape))
            ok = isinstance(w, V) and tuple(w._shape) == tuple(len(l) for l in lists) and nesting_ok(w._data, tuple(w._shape))
            if ok:
                for o in np.ndindex(*w._shape):
                    if cell_at(w._data, o) is not src_cell([l[k] for l, k in zip(lists, o)]):
                        ok = False
                        break
            if not ok:
                return ("slicing-%dd-wrong-cells" % d,
                        "v[%s] on shape %s does not hold exactly the addressed cells" % (show_idx(op["idx"]), shape))
    if via_field and len(op["idx"]) == d and all("i" in x for x in op["idx"]) and "exc" not in info and \
            all(-n <= x["i"] < n for x, n in zip(op["idx"], shape)):
        c = src_cell([x["i"] for x in op["idx"]])
        k = list(v._fields).index(fname(op["name"]))
        got = info["ret"]
        if (c is None) != (got is None) or (c is not None and not (
                isinstance(got, np.ndarray) and got.shape == (c.shape[0],) and np.array_equal(got, c[:, k]))):
            return ("field-view-cell-wrong-values", "v[%r][%s] is not that column of the addressed cell" % (
                fname(op["name"]), show_idx(op["idx"])))
    if kind == "get_data" and len(op["idx"]) == d:
        lists = py_index_lists(shape, op["idx"], pad=False)
        valid = lists is not None and all(all(0 <= i < n for i in l) for l, n in zip(lists, shape))
        if valid and not all(len(l) == 1 for l in lists):
            want = [src_cell(p) for p in itertools.product(*lists)]
            if "exc" in info:
                return ("get-data-%dd-raises" % d, "get_data(%s) on shape %s raised %s: %s" % (
                    show_idx(op["idx"]), shape, type(info["exc"]).__name__, info["exc"]))
            got = info["ret"]
            if not isinstance(got, list) or len(got) != len(want) or any(a is not b for a, b in zip(got, want)):
                return ("get-data-%dd-wrong-cells" % d,
                        "get_data(%s) on shape %s does not return the addressed cells" % (show_idx(op["idx"]), shape))
    # ---- an assignment that succeeded put each given array at the addressed cell
    if kind in ("set_data", "setitem") and "exc" not in info and len(op["idx"]) == d and impl.vecs[op["vi"]] is v \
            and nesting_ok(v._data, shape):
        lists = py_index_lists(shape, op["idx"], pad=False)
        if lists is not None and all(all(-n <= i < n for i in l) for l, n in zip(lists, shape)):
            paths = [tuple(i % n for i, n in zip(p, shape)) for p in itertools.product(*lists)]
            val = info["val"]
            if isinstance(val, V):
                vals = [src for src in leaves_of(val._data)] if val is not v else [c for c, _ in src_leaves]
            elif isinstance(val, list):
                vals = val
            else:
                vals = [val]
            if len(set(paths)) == len(paths) and len(vals) == len(paths):
                for p, a in zip(paths, vals):
                    if cell_at(v._data, p) is not a:
                        return ("%s-value-order" % kind.replace("_", "-"),
                                "%s(%s) on shape %s: cell %s does not hold the value given for it" % (
                                    kind, show_idx(op["idx"]), shape, p))
    return None


ARITH = {"add": lambda x, c: x + c, "sub": lambda x, c: x - c, "mul": lambda x, c: x * c, "div": lambda x, c: x / c,
         "floordiv": lambda x, c: x // c, "mod": lambda x, c: x % c, "pow": lambda x, c: x ** c}


def same_arr(a, b):
    return isinstance(a, np.ndarray) and a.shape == b.shape and np.array_equal(a, b)


def snapshot_schema(vecs):
    return [(tuple(v._shape), list(v._fields), list(v._units), v._name, dict(v._metadata)) for v in vecs]


READ_ONLY_SCHEMA = ("field_op", "set_flattened", "flatten", "field_flatten", "get_data", "getitem", "set_data", "setitem",
                    "copy", "field_get", "reload", "set_shape")


def oracle_schema(impl, op, info, pre_vecs, pre_schema):
    """shape / fields / units / name / metadata contents: an operation on one vector never moves those of
    another vector (no shared mutable state), and only the operations meant to change them do so on its own"""
    kind = op["op"]
    tgt = op.get("vi", -1)
    for n, (v, old) in enumerate(zip(pre_vecs, pre_schema)):
        now = (tuple(v._shape), list(v._fields), list(v._units), v._name, dict(v._metadata))
        if now == old:
            continue
        what = [lab for lab, a, b in zip(("shape", "fields", "units", "name", "metadata"), now, old) if a != b]
        if n != tgt:
            return ("metadata-shared-contents" if what == ["metadata"] else "unrelated-vector-schema-changed",
                    "%s on vector #%d changed the %s of vector #%d" % (kind, tgt, "/".join(what), n))
        allowed = {"add_fields": {"fields", "units"}, "remove_fields": {"fields", "units"}, "set_fields": {"fields"},
                   "set_units": {"units"}, "set_name": {"name"}, "meta_put": {"metadata"}}.get(kind, set())
        if kind in READ_ONLY_SCHEMA or set(what) - allowed:
            if kind == "set_shape":
                continue        # reported by the structure clause with its own key
            return ("schema-changed-by-%s" % kind.replace("_", "-"),
                    "%s changed the %s of its vector" % (kind, "/".join(sorted(set(what) - allowed) or what)))
    if "exc" in info or tgt < 0 or tgt >= len(pre_vecs):
        return None
    v = pre_vecs[tgt]
    if kind == "set_fields":
        if list(v._fields) != [str(x) for x in info["arg"]]:
            return ("fields-setter-effect", "v.fields = %r left fields %r" % (info["arg"], v._fields))
    if kind == "set_units":
        want = ["none"] * len(v._fields) if info["arg"] is None else [str(x) for x in info["arg"]]
        if list(v._units) != want:
            return ("units-setter-effect", "v.units = %r left units %r" % (info["arg"], v._units))
    if kind == "set_name" and v._name != str(op["name"]):
        return ("name-setter-effect", "v.name = %r left name %r" % (op["name"], v._name))
    if kind == "meta_put" and v._metadata.get(op["key"]) != op["val"]:
        return ("metadata-put-effect", "v.metadata[%r] = %r is not read back" % (op["key"], op["val"]))
    if kind == "set_data_attr" and nesting_ok(v._data, tuple(v._shape)):
        for path in np.ndindex(*v._shape):
            try:
                given = cell_at(info["arg"], path)
            except Exception:  # noqa: the argument has another nesting than the shape
                given = None
            got = cell_at(v._data, path)
            same = (got is given) if isinstance(given, np.ndarray) else (
                isinstance(given, list) and isinstance(got, np.ndarray) and got.ndim == 2 and
                got.tolist() == np.array(given).tolist())
            if not same:
                return ("data-setter-wrong-cells", "v.data = ... was accepted but cell %s does not hold the array given "
                        "at that address" % (path,))
    return None


def oracle_effect(impl, op, info, pre_vecs, pre_leaves):
    """reference semantics of the step on the cell contents (list-of-lists model of the property text):
    arrays are only changed by field arithmetic / set_flattened, and only those of the addressed vector;
    the in-place operations, add/remove_fields and copy produce exactly the expected cell contents"""
    kind = op["op"]
    pre = {}                                  # id(array) -> (array, content before the step)
    for lv in pre_leaves:
        for lf, cp in lv:
            if isinstance(lf, np.ndarray):
                pre[id(lf)] = (lf, cp)
    ok = "exc" not in info
    tgt = pre_leaves[op["vi"]] if ("vi" in op and op["vi"] < len(pre_leaves)) else []
    v = pre_vecs[op["vi"]] if ("vi" in op and op["vi"] < len(pre_vecs)) else None
    expected = {k: cp for k, (_, cp) in pre.items()}
    if ok and kind in ("field_op", "set_flattened") and v is not None:
        name = fname(op["name"])
        k = list(v._fields).index(name)
        expected = {i: cp.copy() for i, cp in expected.items()}
        if kind == "field_op":
            a, x = op["a"]
            c = int(x) if a == "pow" else float(fr(x))
            for lf, _ in tgt:                 # once per occurrence, in traversal order
                if isinstance(lf, np.ndarray):
                    expected[id(lf)][:, k] = ARITH[a](expected[id(lf)][:, k], c)
        else:
            vals = np.array([float(fr(x)) for x in op["vals"]], dtype=float)
            cur = 0
            for lf, _ in tgt:                 # row-major cursor
                if isinstance(lf, np.ndarray):
                    n = expected[id(lf)].shape[0]
                    expected[id(lf)][:, k] = vals[cur:cur + n]
                    cur += n
    for i, (arr, _) in pre.items():
        if not same_arr(arr, expected[i]):
            mine = any(lf is arr for lf, _ in tgt)
            if kind in ("field_op", "set_flattened") and mine:
                return ("%s-wrong-values" % kind.replace("_", "-"),
                        "%s on field %s: a cell of the vector does not hold the expected values" % (
                            kind if kind != "field_op" else "field %s=" % op["a"][0], fname(op["name"])))
            return ("unrelated-array-changed", "%s changed the contents of an array that %s" % (
                kind, "belongs to the vector but must not change" if mine else "is not reachable from the addressed vector"))
    if not ok or v is None:
        return None
    if kind in ("field_op", "set_flattened", "flatten", "field_flatten", "get_data", "getitem", "set_fields", "set_units",
                "set_shape", "set_name", "meta_put", "field_get", "reload"):
        now = leaves_of(v._data)
        if len(now) != len(tgt) or any(a is not b for a, (b, _) in zip(now, tgt)):
            return ("cells-rebound", "%s replaced cell objects of the vector (must work in place / only read)" % kind)
    if kind in ("add_fields", "remove_fields"):
        names = [fname(z) for z in op["names"]]
        oldf, oldu = info["pre_fields"], info["pre_units"]
        if kind == "add_fields":
            keep = list(range(len(oldf)))
            wantf, wantu, pad = oldf + names, oldu + ["none"] * len(names), len(names)
        else:
            keep = [i for i, f in enumerate(oldf) if f not in names]
            wantf, wantu, pad = [oldf[i] for i in keep], [oldu[i] for i in keep], 0
        if list(v._fields) != wantf or list(v._units) != wantu:
            return ("%s-schema" % kind.replace("_", "-"), "%s(%s): fields %s units %s, expected %s %s" % (
                kind, names, v._fields, v._units, wantf, wantu))
        now = leaves_of(v._data)
        for a, (b, cp) in zip(now, tgt):
            if (a is None) != (b is None):
                return ("%s-cells" % kind.replace("_", "-"), "%s changed which cells are set" % kind)
            if b is not None:
                want = np.hstack([cp[:, keep], np.zeros((cp.shape[0], pad))])
                if not same_arr(a, want):
                    return ("%s-cells" % kind.replace("_", "-"),
                            "%s(%s): a cell does not hold the expected columns" % (kind, names))
    if kind in ("copy", "reload"):
        w = impl.vecs[-1]
        now = leaves_of(w._data)
        if tuple(w._shape) != tuple(v._shape) or list(w._fields) != list(v._fields) or list(w._units) != list(v._units) \
                or len(now) != len(tgt) or any(((a is None) != (b is None)) or (b is not None and not same_arr(a, cp))
                                               for a, (b, cp) in zip(now, tgt)):
            return ("%s-not-equal" % kind, "%s does not hold the same shape / fields / units / cell contents" % (
                "copy()" if kind == "copy" else "the vector loaded from a saved one"))
    return None


def show_idx(idx):
    out = []
    for x in idx:
        if "i" in x:
            out.append(str(x["i"]))
        elif "s" in x:
            a, b, c = x["s"]
            out.append("%s:%s%s" % ("" if a is None else a, "" if b is None else b, "" if c is None else ":%s" % c))
        else:
            out.append(str(x["l"]))
    return ", ".join(out)


# ------------------------------------------------------------------------------------------
# generator (lock-step with the implementation so that arguments fit the current state)
class Gen:
    def __init__(self, rng, impl, dims=None):
        self.r = rng
        self.impl = impl
        self.dims = dims
        self.next_name = 1

    def val(self):
        r = self.r
        return Fraction(r.randint(-8, 16), r.choice([1, 1, 1, 2, 4]))

    def cell(self, ncols, in_from_data=False, fresh_only=False):
        r = self.r
        x = r.random()
        if not fresh_only and x < 0.05:
            return {"k": "notarr", "py": r.choice([5, None, "x"])}
        if not fresh_only and x < 0.09:
            return {"k": "bad1"}
        if not fresh_only and x < 0.14:
            return {"k": "bad3", "n1": ncols}
        if not fresh_only and x < 0.20 and self.impl.vecs and not in_from_data:
            vi = r.randrange(len(self.impl.vecs))
            n = len(leaves_of(self.impl.vecs[vi]._data))
            if n:
                return {"k": "old", "vi": vi, "pos": r.randrange(n)}
        if not fresh_only and x < 0.27:
            ncols = max(0, ncols + r.choice([-1, 1]))
        nrows = r.choice([0, 1, 1, 2, 2, 3])
        if r.random() < 0.22:         # mixed dtypes: an integer cell next to float cells (either order)
            return {"k": "new", "ncols": ncols, "dt": "int", "aslist": r.random() < 0.3,
                    "rows": [[frs(r.randint(-8, 16)) for _ in range(ncols)] for _ in range(nrows)]}
        return {"k": "new", "ncols": ncols, "rows": [[frs(self.val()) for _ in range(ncols)] for _ in range(nrows)],
                "aslist": r.random() < 0.3}

    def names(self, k):
        out = []
        for _ in range(k):
            out.append(-self.next_name)
            self.next_name += 1
        return out

    def index1(self, n, mode):
        """one index expression for an axis of length n; mode in valid|any"""
        r = self.r
        x = r.random()
        bad = mode == "any" and r.random() < 0.12
        if x < 0.40:
            if bad:
                return {"i": r.choice([n, n + 1, -n - 1])}
            return {"i": r.randrange(n) if r.random() < 0.8 else -r.randint(1, n)}
        if x < 0.72:
            def e():
                return r.choice([None, None, r.randint(0, n), r.randint(-n - 1, n + 1)])
            st = r.choice([None, None, 1, 2, -1, -2, 3]) if not bad else 0
            return {"s": [e(), e(), st]}
        k = r.choice([1, 2, 2, 3]) if r.random() < 0.93 else 0
        l = [r.randrange(n) for _ in range(k)]
        if r.random() < 0.2 and k:
            l[r.randrange(k)] = -r.randint(1, n)
        if bad and k:
            l[r.randrange(k)] = r.choice([n, -n - 1])
        return {"l": l, "np": r.random() < 0.4}

    def index(self, shape, mode="any", arity=None):
        r = self.r
        d = len(shape)
        if arity is None:
            arity = d
        dims = list(shape[:arity]) + [2] * max(0, arity - d)
        return [self.index1(n, mode) for n in dims]

    def pick_vec(self):
        r = self.r
        n = len(self.impl.vecs)
        return r.randrange(n) if r.random() < 0.6 else max(0, n - 1 - r.randrange(min(n, 2)))

    def shape(self):
        r = self.r
        d = self.dims or r.choice([1, 1, 2, 2, 2, 3, 3])
        return [r.choice([1, 2, 2, 3, 4] if d < 3 else [1, 2, 2, 3]) for _ in range(d)]

    def creation(self):
        r = self.r
        x = r.random()
        nf = r.choice([1, 2, 2, 3, 4])
        if x < 0.62 or self.dims not in (None, 1):
            shape = self.shape()
            if r.random() < 0.06:
                shape[r.randrange(len(shape))] = r.choice([0, -1])
            mode = r.random()
            if mode < 0.45:
                op = {"op": "from_shape", "shape": shape, "nf": nf, "fields": None, "units": None}
            else:
                fields = self.names(nf) if r.random() < 0.7 else list(range(nf))
                if r.random() < 0.06 and nf > 1:
                    fields[0] = fields[1]
                op = {"op": "from_shape", "shape": shape, "nf": r.choice([None, None, nf, nf + 1]) if r.random() < 0.5 else None,
                      "fields": fields, "units": None}
            if r.random() < 0.35:
                op["units"] = [r.randint(0, 4) for _ in range(nf if r.random() < 0.9 else nf + 1)]
            if r.random() < 0.03:
                op["nf"], op["fields"] = r.choice([None, 0, -1]), None
            return op
        n = r.choice([1, 2, 3, 3, 4]) if r.random() < 0.96 else 0
        data = [self.cell(nf, in_from_data=True) for _ in range(n)]
        op = {"op": "from_data", "data": data if r.random() < 0.97 else None, "nf": r.choice([None, None, nf, nf + 1]),
              "fields": None, "units": None}
        if r.random() < 0.5:
            op["fields"] = self.names(nf if r.random() < 0.9 else nf + 1)
        if r.random() < 0.3:
            op["units"] = [r.randint(0, 4) for _ in range(nf)]
        return op

    def magnitude(self, v):
        num = den = 1
        for lf in leaves_of(v._data):
            if isinstance(lf, np.ndarray) and lf.size:
                for x in lf.ravel().tolist():
                    f = Fraction(x)
                    num = max(num, abs(f.numerator))
                    den = max(den, f.denominator)
        return num, den

    def next_op(self):
        r = self.r
        impl = self.impl
        if not impl.vecs or (len(impl.vecs) < 6 and r.random() < 0.08):
            return self.creation()
        vi = self.pick_vec()
        v = impl.vecs[vi]
        shape = list(v._shape)
        d = len(shape)
        nf = len(v._fields)
        fields = [fnum(f) for f in v._fields]
        x = r.random()

        def some_field():
            if fields and r.random() < 0.93:
                return r.choice(fields)
            return r.choice([-99, 7])

        def arity():
            y = r.random()
            return d if y < 0.9 else (d - 1 if y < 0.95 and d > 1 else d + 1)

        if r.random() < 0.15:      # attribute setters, field-view indexing, surplus indices, save + load
            return self.extended_op(vi, v, shape, nf, fields, some_field)
        if x < 0.17:      # single-cell assignment
            idx = [{"i": (r.randrange(n) if r.random() < 0.85 else r.choice([-1, -n, n, -n - 1]))} for n in shape]
            if r.random() < 0.06:
                idx = idx[:-1] if (d > 1 and r.random() < 0.6) else idx + [{"i": 0}]
            if r.random() < 0.05:
                idx[r.randrange(len(idx))] = {"l": [0], "np": False}
            val = {"k": "arr", "a": self.cell(nf)} if r.random() < 0.95 else r.choice(
                [{"k": "other"}, {"k": "list", "l": [self.cell(nf, fresh_only=True)]}])
            if r.random() < 0.6:
                return {"op": "setitem", "vi": vi, "idx": idx, "value": val, "bare": r.random() < 0.5}
            return {"op": "set_data", "vi": vi, "value": val, "idx": idx}
        if x < 0.31:      # multi-cell assignment
            idx = self.index(shape, "any", arity())
            lists = py_index_lists(shape, idx, pad=False)
            cnt = 1
            for l in (lists or []):
                cnt *= len(l)
            y = r.random()
            if y < 0.25 and len(impl.vecs) > 0:
                cands = [k for k, w in enumerate(impl.vecs) if len(leaves_of(w._data)) == cnt]
                wi = r.choice(cands) if cands and r.random() < 0.85 else r.randrange(len(impl.vecs))
                val = {"k": "vec", "vi": wi}
            elif y < 0.93:
                k = cnt if r.random() < 0.9 else max(0, cnt + r.choice([-1, 1]))
                val = {"k": "list", "l": [self.cell(nf) for _ in range(min(k, 12))]}
            else:
                val = r.choice([{"k": "other"}, {"k": "arr", "a": self.cell(nf, fresh_only=True)}])
            if r.random() < 0.5:
                return {"op": "setitem", "vi": vi, "idx": idx, "value": val, "bare": r.random() < 0.5}
            return {"op": "set_data", "vi": vi, "value": val, "idx": idx}
        if x < 0.43:      # slicing / cell retrieval through __getitem__
            ar = d if r.random() < 0.8 else r.randint(1, d)
            idx = self.index(shape, "any", ar)
            if r.random() < 0.25:
                idx = [{"i": (r.randrange(n) if r.random() < 0.9 else r.choice([-1, n, -n - 1]))} for n in shape[:ar]]
            return {"op": "getitem", "vi": vi, "idx": idx, "bare": r.random() < 0.5}
        if x < 0.52:
            return {"op": "get_data", "vi": vi, "idx": self.index(shape, "any", arity())}
        has_int = any(isinstance(lf, np.ndarray) and lf.dtype.kind in "iu" for lf in leaves_of(v._data))
        if x < 0.66:      # field arithmetic
            num, den = self.magnitude(v)
            small = num < (1 << 30) and den <= (1 << 12)
            # a cell (array object) that sits in m places of the vector is raised m times by the in-place `**=` (in the
            # model too): the result must stay exact in float64 for the == comparison with the rational model
            ids = [id(lf) for lf in leaves_of(v._data) if isinstance(lf, np.ndarray)]
            mult = max([ids.count(i) for i in set(ids)] or [1])
            alias_ok = max(num, 2) ** (3 ** mult) < (1 << 53) and max(den, 1) ** (3 ** mult) < (1 << 53)
            kinds = ["add", "sub", "floordiv", "mod"] + (["mul"] + ([] if has_int else ["div"]) if small else []) + (
                ["pow"] if num < 64 and den <= 4 and alias_ok else [])
            a = r.choice(kinds)
            if a in ("add", "sub"):
                c = frs(r.randint(-8, 16) if has_int else self.val())
            elif a == "mul":
                c = frs(r.choice([-2, -1, 2, 3, 0] if has_int else [-2, -1, Fraction(1, 2), 2, 3, 0, Fraction(3, 2)]))
            elif a == "div":
                c = frs(r.choice([2, 4, Fraction(1, 2), -2]))
            elif a in ("floordiv", "mod"):
                c = frs(r.choice([1, 2, 3, -2, -3] if has_int else [1, 2, 3, Fraction(1, 2), -2, Fraction(3, 2), -3]))
            else:
                c = r.choice([0, 1, 2, 2, 3])
            return {"op": "field_op", "vi": vi, "name": some_field(), "a": [a, c]}
        if x < 0.70:
            return {"op": "field_flatten", "vi": vi, "name": some_field(), "via": r.choice(["method", "method", "asarray"])}
        if x < 0.78:
            total = sum(lf.shape[0] for lf in leaves_of(v._data) if isinstance(lf, np.ndarray) and lf.ndim == 2)
            y = r.random()
            n = total if y < 0.85 else max(0, total + r.choice([-1, 1]))
            vals = None if y > 0.97 else [frs(r.randint(-8, 16) if has_int else self.val()) for _ in range(n)]
            return {"op": "set_flattened", "vi": vi, "name": some_field(), "vals": vals,
                    "via": r.choice(["method", "setitem", "list"])}
        if x < 0.82:
            return {"op": "flatten", "vi": vi}
        if x < 0.89:
            k = r.choice([1, 1, 2, 3]) if nf < 6 else 1
            names = self.names(k)
            y = r.random()
            if y < 0.10 and fields:
                names[0] = r.choice(fields)
            elif y < 0.16 and k > 1:
                names[1] = names[0]
            elif y < 0.20:
                names = []
            return {"op": "add_fields", "vi": vi, "names": names, "asstr": r.random() < 0.3}
        if x < 0.95:
            k = r.choice([1, 1, 2])
            names = [r.choice(fields) if (fields and r.random() < 0.85) else -98 for _ in range(k)]
            return {"op": "remove_fields", "vi": vi, "names": names, "asstr": r.random() < 0.3}
        return {"op": "copy", "vi": vi}


    # ---- operations added by the coverage extension
    def names_arg(self, n, pool, fresh):
        """argument of a names setter for a vector with n fields: mostly n names, sometimes another count,
        duplicates, None or a non-sequence"""
        r = self.r
        y = r.random()
        if y < 0.06:
            return {"k": "none"}
        if y < 0.11:
            return {"k": "bad", "py": r.choice([5, "ab"])}
        k = n if y < 0.72 else max(0, n + r.choice([-1, 1, 1, 2]))
        l = fresh(k) if r.random() < 0.7 else [r.choice(pool) for _ in range(k)]
        if y > 0.95 and k > 1:
            l[0] = l[1]
        return {"k": "list", "l": l, "tuple": r.random() < 0.3}

    def data_arg(self, shape, nf):
        """(skeleton, items) for `v.data = ...`"""
        r = self.r
        items = []

        def leaf(plain=False):
            a = self.cell(nf, fresh_only=plain)
            if plain:
                a["aslist"] = False
            items.append(a)
            return len(items) - 1

        def build(sh, plain):
            if not sh:
                return leaf(plain)
            return [build(sh[1:], plain) for _ in range(sh[0])]

        y = r.random()
        total = 1
        for n in shape:
            total *= n
        if y < 0.55:
            return build(shape, False), items
        if y < 0.70:                                     # flat list of all the cells
            return [leaf(True) for _ in range(total)], items
        skel = build(shape, True)
        path = [r.randrange(n) for n in shape]
        depth = r.randrange(len(shape))                  # the list at this depth along `path` is altered
        ref = skel
        for i in path[:depth]:
            ref = ref[i]
        if y < 0.80:                                     # wrong length at some level
            if r.random() < 0.5 and len(ref) > 0:
                ref.pop()
            else:
                ref.append(build(shape[depth + 1:], True))
        elif y < 0.88:                                   # one level too deep: a list of arrays where an array belongs
            ref2 = ref
            for i in path[depth:-1]:
                ref2 = ref2[i]
            ref2[path[-1]] = [leaf(True) for _ in range(r.choice([0, 1, 2]))]
        elif y < 0.94:                                   # an array / None where a list belongs, or None as a cell
            ref[path[depth]] = None if r.random() < 0.4 else leaf(True)
        else:                                            # not a list at all
            return (None if r.random() < 0.5 else leaf(True)), items
        return skel, items

    def extended_op(self, vi, v, shape, nf, fields, some_field):
        r = self.r
        d = len(shape)
        y = r.random()
        if y < 0.18:
            return {"op": "set_fields", "vi": vi, "arg": self.names_arg(nf, fields + [0, 1, -1], self.names)}
        if y < 0.30:
            return {"op": "set_units", "vi": vi,
                    "arg": self.names_arg(nf, [0, 1, 2, 3], lambda k: [r.randint(0, 4) for _ in range(k)])}
        if y < 0.42:
            z = r.random()
            if z < 0.35:
                sh = list(shape)
            elif z < 0.6:
                sh = list(shape)
                sh[r.randrange(d)] += r.choice([-1, 1, 1])
            elif z < 0.8:
                sh = list(shape) + [r.choice([1, 2])] if r.random() < 0.6 or d == 1 else list(shape[:-1])
            elif z < 0.92:
                sh = self.shape()
            else:
                sh = None
            return {"op": "set_shape", "vi": vi, "shape": sh}
        if y < 0.60:
            skel, items = self.data_arg(shape, nf)
            return {"op": "set_data_attr", "vi": vi, "skel": skel, "items": items}
        if y < 0.64:
            return {"op": "set_name", "vi": vi, "name": "n%d" % r.randint(0, 9)}
        if y < 0.72:
            return {"op": "meta_put", "vi": vi, "key": "k%d" % r.randint(0, 3), "val": r.randint(0, 99)}
        if y < 0.88:
            ar = d if r.random() < 0.8 else r.randint(1, d)
            idx = self.index(shape, "any", ar)
            if r.random() < 0.45:
                idx = [{"i": (r.randrange(n) if r.random() < 0.9 else r.choice([-1, n, -n - 1]))} for n in shape[:ar]]
            if r.random() < 0.06:
                idx = idx + [{"i": r.randint(-1, 1)}]
            return {"op": "field_get", "vi": vi, "name": some_field(), "idx": idx, "bare": r.random() < 0.5}
        if y < 0.95:                                     # one index more than there are fixed dimensions
            idx = self.index(shape, "any", d)
            if r.random() < 0.55:
                idx = [{"i": (r.randrange(n) if r.random() < 0.92 else r.choice([-1, n]))} for n in shape]
            return {"op": "getitem", "vi": vi, "idx": idx + [{"i": r.randint(-3, 3)}], "bare": False}
        return {"op": "reload", "vi": vi, "store": r.choice(["zip", "dir"])}


# ------------------------------------------------------------------------------------------
# Coq rendering of a history
def cz(n):
    return "(%d)%%Z" % int(n)


def copt(x, f):
    return "None" if x is None else "(Some %s)" % f(x)


def czl(l):
    return "[" + "; ".join(cz(x) for x in l) + "]"


def cqv(x):
    f = Fraction(x)
    return "(q (%d) %d)" % (f.numerator, f.denominator)


def c_aval(a):
    k = a["k"]
    if k == "new":
        return "(ANew (c %d [%s]))" % (a["ncols"], "; ".join("[" + "; ".join(cqv(x) for x in row) + "]" for row in a["rows"]))
    if k == "old":
        return "(AOld %d %d)" % (a["vi"], a["pos"])
    if k in ("bad1", "bad3"):
        return "ABadDim"
    return "ANotArr"


def c_sval(v):
    k = v["k"]
    if k == "arr":
        return "(SArr %s)" % c_aval(v["a"])
    if k == "list":
        return "(SList [%s])" % "; ".join(c_aval(a) for a in v["l"])
    if k == "vec":
        return "(SVec %d)" % v["vi"]
    return "SOther"


def c_ix(x):
    if "i" in x:
        return "(IInt %s)" % cz(x["i"])
    if "s" in x:
        return "(ISlice %s %s %s)" % tuple(copt(e, cz) for e in x["s"])
    return "(IList %s)" % czl(x["l"])


def c_idx(idx):
    return "[" + "; ".join(c_ix(x) for x in idx) + "]"


def c_op(op):
    k = op["op"]
    if k == "from_shape":
        return "(OFromShape %s %s %s %s)" % (czl(op["shape"]), copt(op["nf"], cz), copt(op["fields"], czl), copt(op["units"], czl))
    if k == "from_data":
        data = "None" if op["data"] is None else "(Some [%s])" % "; ".join(c_aval(a) for a in op["data"])
        return "(OFromData %s %s %s %s)" % (data, copt(op["nf"], cz), copt(op["fields"], czl), copt(op["units"], czl))
    if k == "get_data":
        return "(OGetData %d %s)" % (op["vi"], c_idx(op["idx"]))
    if k == "set_data":
        return "(OSetData %d %s %s)" % (op["vi"], c_sval(op["value"]), c_idx(op["idx"]))
    if k == "getitem":
        return "(OGetItem %d %s)" % (op["vi"], c_idx(op["idx"]))
    if k == "setitem":
        return "(OSetItem %d %s %s)" % (op["vi"], c_idx(op["idx"]), c_sval(op["value"]))
    if k == "field_op":
        a, x = op["a"]
        ar = {"add": "AAdd", "sub": "ASub", "mul": "AMul", "div": "ADiv", "floordiv": "AFloorDiv", "mod": "AMod"}
        arg = "(APow %d)" % int(x) if a == "pow" else "(%s %s)" % (ar[a], cqv(x))
        return "(OFieldOp %d %s %s)" % (op["vi"], cz(op["name"]), arg)
    if k == "field_flatten":
        return "(OFieldFlatten %d %s)" % (op["vi"], cz(op["name"]))
    if k == "set_flattened":
        vals = "None" if op["vals"] is None else "(Some [%s])" % "; ".join(cqv(x) for x in op["vals"])
        return "(OSetFlattened %d %s %s)" % (op["vi"], cz(op["name"]), vals)
    if k == "flatten":
        return "(OFlatten %d)" % op["vi"]
    if k == "add_fields":
        return "(OAddFields %d %s)" % (op["vi"], czl(op["names"]))
    if k == "remove_fields":
        return "(ORemoveFields %d %s)" % (op["vi"], czl(op["names"]))
    if k == "copy":
        return "(OCopy %d)" % op["vi"]
    if k in ("set_fields", "set_units"):
        a = op["arg"]
        arg = {"none": "NNone", "bad": "NBad"}.get(a["k"]) or "(NList %s)" % czl(a["l"])
        return "(%s %d %s)" % ("OSetFields" if k == "set_fields" else "OSetUnits", op["vi"], arg)
    if k == "set_shape":
        return "(OSetShape %d %s)" % (op["vi"], copt(op["shape"], czl))
    if k == "set_data_attr":
        return "(OSetDataAttr %d %s [%s])" % (op["vi"], c_skel(op["skel"]), "; ".join(c_aval(a) for a in op["items"]))
    if k in ("set_name", "meta_put"):
        return "(OTouch %d)" % op["vi"]
    if k == "field_get":
        return "(OFieldGet %d %s %s)" % (op["vi"], cz(op["name"]), c_idx(op["idx"]))
    if k == "reload":
        return "(OReload %d)" % op["vi"]
    raise AssertionError(k)


def c_skel(t):
    if isinstance(t, list):
        return "(Node [%s])" % "; ".join(c_skel(x) for x in t)
    return "(Leaf None)" if t is None else "(Leaf (Some %d%%nat))" % t


CLEAR_EVERY = 4      # every CLEAR_EVERY-th step of a history is compared in clear (others: 61-bit fingerprint)


def c_history(ops, full=False, phase=0, every=CLEAR_EVERY):
    return "%s init [%s]" % ("trace" if full else "trace_smp %d %d 0" % (every, phase % every),
                             "; ".join(c_op(o) for o in ops))


# ------------------------------------------------------------------------------------------
# running one history on the implementation (with the oracle after every step)
def run_history(ops_or_gen, max_steps, use_oracle=True):
    """ops_or_gen: a list of ops (replay / corpus) or a callable(impl) -> Gen.  Returns
    dict(ops, steps=[result serialisations], obs=[state observations], fail=(step, key, msg) | None)"""
    impl = Impl()
    gen = None if isinstance(ops_or_gen, list) else ops_or_gen(impl)
    ops, steps, obss, dims = [], [], [], []
    fail = None
    for k in range(max_steps if gen else len(ops_or_gen)):
        op = gen.next_op() if gen else ops_or_gen[k]
        if "vi" in op and op["vi"] >= len(impl.vecs):
            break
        pre_vecs = list(impl.vecs)
        dims.append(len(impl.vecs[op["vi"]]._shape) if "vi" in op else len(op.get("shape") or [0]))
        pre_leaves = snapshot_cells(pre_vecs) if use_oracle else None
        pre_schema = snapshot_schema(pre_vecs) if use_oracle else None
        res, info = impl.step(op)
        ops.append(op)
        bad = None
        if use_oracle:
            bad = oracle_step(impl, op, res, info, pre_vecs, pre_leaves) or oracle_structure(impl)
            if bad and op["op"] in SETTER_KEYS and "exc" not in info:
                if op["op"] == "set_fields" and isinstance(info.get("arg"), (list, tuple)) and \
                        len(info["arg"]) == len(pre_schema[op["vi"]][1]):
                    bad = ("fields-setter-duplicate-names", "`v.fields = names` accepted names that are not unique -- " + bad[1])
                else:
                    bad = (SETTER_KEYS[op["op"]][0], SETTER_KEYS[op["op"]][1] + " -- " + bad[1])
            if bad is None:
                bad = oracle_schema(impl, op, info, pre_vecs, pre_schema) or \
                    oracle_effect(impl, op, info, pre_vecs, pre_leaves) or oracle_flatten(impl)
        if bad and bad[0] == "data-nesting-does-not-match-shape" and op["op"] == "setitem" and \
                len(op["idx"]) != len(pre_vecs[op["vi"]]._shape):
            bad = ("setitem-index-count-unchecked",
                   "v[%s] = ... with %d indices on a vector with %d fixed dimensions was accepted and replaced a "
                   "nested list by an array" % (show_idx(op["idx"]), len(op["idx"]), len(pre_vecs[op["vi"]]._shape)))
        try:
            steps.append(impl.finish_res(res))
            obss.append(impl.obs())
        except Exception as e:  # noqa: state no longer observable (corrupted nesting)
            steps.append([-6])
            obss.append([-6])
            bad = bad or ("state-not-observable", "state cannot be observed after step %d: %r" % (k, e))
        if bad:
            fail = (k, bad[0], bad[1])
            break
    return {"ops": ops, "steps": steps, "obs": obss, "fail": fail, "dims": dims}


SETTER_KEYS = {
    "set_fields": ("fields-setter-length-unchecked",
                   "`v.fields = names` with another number of names than fields was accepted"),
    "set_shape": ("shape-setter-desyncs-data",
                  "`v.shape = shape` was accepted for a shape the nested lists in _data are not laid out for"),
    "set_data_attr": ("data-setter-nd-nesting",
                      "`v.data = value` accepted a value whose nesting is not one list level per fixed dimension"),
}


def directed_histories():
    """witnesses of the defects found while reading (always run first), plus plain sanity cases"""
    def new(nc, *rows):
        return {"k": "new", "ncols": nc, "rows": [[frs(x) for x in r] for r in rows]}

    def arr(nc, *rows):
        return {"k": "arr", "a": new(nc, *rows)}

    fs = lambda shape, nf=2: {"op": "from_shape", "shape": shape, "nf": nf, "fields": None, "units": None}  # noqa
    H = []
    # two independently created vectors (default metadata)
    H.append([fs([2]), fs([2, 2])])
    # 1-D: slice, list, get_data with slice
    fill1 = [{"op": "setitem", "vi": 0, "idx": [{"i": i}], "value": arr(2, [i, i + 1]), "bare": True} for i in range(3)]
    H.append([fs([3])] + fill1 + [{"op": "getitem", "vi": 0, "idx": [{"s": [0, 2, None]}], "bare": True},
                                  {"op": "getitem", "vi": 0, "idx": [{"l": [2, 0]}], "bare": True},
                                  {"op": "get_data", "vi": 0, "idx": [{"s": [None, None, 2]}]},
                                  {"op": "field_op", "vi": 1, "name": 0, "a": ["add", "10/1"]},
                                  {"op": "flatten", "vi": 0}])
    # 3-D: slice keeping / dropping to one index, get_data with a slice
    fill3 = [{"op": "setitem", "vi": 0, "idx": [{"i": i}, {"i": j}, {"i": k}], "value": arr(1, [100 * i + 10 * j + k])}
             for i in range(2) for j in range(2) for k in range(2)]
    H.append([fs([2, 2, 2], 1)] + fill3 + [
        {"op": "getitem", "vi": 0, "idx": [{"i": 1}, {"s": [0, 2, None]}, {"i": 1}]},
        {"op": "getitem", "vi": 0, "idx": [{"s": [None, None, -1]}, {"l": [1]}, {"s": [None, None, None]}]},
        {"op": "get_data", "vi": 0, "idx": [{"i": 1}, {"s": [0, 2, None]}, {"i": 1}]},
        {"op": "getitem", "vi": 0, "idx": [{"s": [0, 2, None]}, {"s": [0, 2, None]}, {"s": [0, 2, None]}]},
        {"op": "setitem", "vi": 3, "idx": [{"i": 0}, {"i": 0}, {"i": 1}], "value": arr(1, [7])},
        {"op": "field_flatten", "vi": 0, "name": 0}])
    # 2-D set_data with the multi-cell index on the second axis, then in-place arithmetic
    H.append([fs([2, 2]),
              {"op": "set_data", "vi": 0, "value": {"k": "list", "l": [new(2, [1, 1]), new(2, [2, 2])]},
               "idx": [{"i": 1}, {"s": [0, 2, None]}]},
              {"op": "field_op", "vi": 0, "name": 0, "a": ["add", "1/1"]},
              {"op": "get_data", "vi": 0, "idx": [{"i": 1}, {"s": [0, 2, None]}]}])
    # __setitem__ with fewer indices than fixed dimensions
    H.append([fs([2, 2]), {"op": "setitem", "vi": 0, "idx": [{"i": 0}], "value": arr(2, [1, 1]), "bare": True},
              {"op": "flatten", "vi": 0}])
    H.append([fs([2, 2]), {"op": "setitem", "vi": 0, "idx": [{"s": [0, 2, None]}],
                           "value": {"k": "list", "l": [new(2, [1, 1]), new(2, [2, 2])]}, "bare": True}])
    # from_data with a 3-D array as a cell
    H.append([{"op": "from_data", "data": [{"k": "bad3", "n1": 2}], "nf": None, "fields": None, "units": None}])
    H.append([{"op": "from_data", "data": [new(2, [1, 2]), {"k": "bad3", "n1": 2}], "nf": None, "fields": None, "units": None}])
    # the test-suite scenario: v[2:4, 1] = v[1:3, 1] creates aliasing inside v; copy keeps it, arithmetic sees it
    fill2 = [{"op": "setitem", "vi": 0, "idx": [{"i": i}, {"i": j}], "value": arr(3, [3 * i + j, 3 * i + j + 1, 3 * i + j + 2])}
             for i in range(4) for j in range(3)]
    H.append([fs([4, 3], 3)] + fill2 + [
        {"op": "getitem", "vi": 0, "idx": [{"s": [1, 3, None]}, {"i": 1}]},
        {"op": "setitem", "vi": 0, "idx": [{"s": [2, 4, None]}, {"i": 1}], "value": {"k": "vec", "vi": 1}},
        {"op": "field_op", "vi": 0, "name": 1, "a": ["mul", "2/1"]},
        {"op": "copy", "vi": 0},
        {"op": "field_op", "vi": 2, "name": 2, "a": ["sub", "1/2"]},
        {"op": "add_fields", "vi": 0, "names": [-1, -2]},
        {"op": "remove_fields", "vi": 0, "names": [1, -1]},
        {"op": "set_flattened", "vi": 1, "name": 0, "vals": ["5/1", "6/1"], "via": "method"},
        {"op": "flatten", "vi": 0}])
    # attribute setters: renaming with another count, a shape the data are not laid out for, v.data on 2-D
    nl = lambda l, **kw: dict({"k": "list", "l": l}, **kw)  # noqa
    H.append([fs([2]), {"op": "setitem", "vi": 0, "idx": [{"i": 0}], "value": arr(2, [1, 2]), "bare": True},
              {"op": "set_fields", "vi": 0, "arg": nl([-1, -2])},
              {"op": "set_fields", "vi": 0, "arg": nl([-1, -2, -3])},
              {"op": "field_flatten", "vi": 0, "name": -2},
              {"op": "set_fields", "vi": 0, "arg": nl([-4], tuple=True)},
              {"op": "set_units", "vi": 0, "arg": nl([1, 2])}, {"op": "set_units", "vi": 0, "arg": nl([1])},
              {"op": "set_units", "vi": 0, "arg": {"k": "none"}}, {"op": "flatten", "vi": 0}])
    H.append([fs([2]), {"op": "set_shape", "vi": 0, "shape": [2]}, {"op": "set_shape", "vi": 0, "shape": [3]},
              {"op": "getitem", "vi": 0, "idx": [{"s": [0, 3, None]}], "bare": True}])
    H.append([fs([2]), {"op": "set_shape", "vi": 0, "shape": [2, 2]}, {"op": "flatten", "vi": 0}])
    H.append([fs([2, 2], 1), {"op": "set_data_attr", "vi": 0, "skel": [0, 1], "items": [new(1, [1]), new(1, [2])]},
              {"op": "getitem", "vi": 0, "idx": [{"i": 1}, {"i": 1}]}])
    H.append([fs([2, 2], 1), {"op": "set_data_attr", "vi": 0, "skel": [[0, 1], [2, 3]],
                              "items": [new(1, [1]), new(1, [2], [3]), new(1), new(1, [4])]},
              {"op": "field_get", "vi": 0, "name": 0, "idx": [{"i": 0}, {"i": 1}]},
              {"op": "field_get", "vi": 0, "name": 0, "idx": [{"s": [None, None, -1]}, {"l": [1]}]},
              {"op": "field_flatten", "vi": 1, "name": 0, "via": "asarray"},
              {"op": "getitem", "vi": 0, "idx": [{"i": 0}, {"i": 1}, {"i": -1}]},
              {"op": "getitem", "vi": 0, "idx": [{"s": [0, 1, None]}, {"i": 1}, {"i": 7}]},
              {"op": "meta_put", "vi": 0, "key": "k", "val": 1}, {"op": "set_name", "vi": 1, "name": "n"},
              {"op": "reload", "vi": 0, "store": "zip"}, {"op": "reload", "vi": 1, "store": "dir"},
              {"op": "field_op", "vi": 3, "name": 0, "a": ["add", "1/1"]}, {"op": "copy", "vi": 0}])
    # mixed dtypes: an integer cell before a float cell and the other way round; the flattened views are the
    # PROMOTED concatenation and writing them back is the identity (judged by oracle_flatten after every step)
    inew = lambda nc, *rows, **kw: dict(new(nc, *rows), dt="int", **kw)  # noqa
    fd = lambda cells: {"op": "from_data", "data": cells, "nf": None, "fields": None, "units": None}  # noqa
    H.append([fd([inew(2, [1, 2], [3, 4], aslist=True), new(2, ["1/2", "3/2"], ["9/4", "15/4"]), inew(2, [6, 7])]),
              {"op": "field_flatten", "vi": 0, "name": 0, "via": "method"},
              {"op": "field_flatten", "vi": 0, "name": 1, "via": "asarray"}, {"op": "flatten", "vi": 0},
              {"op": "field_op", "vi": 0, "name": 0, "a": ["add", "1/1"]}, {"op": "copy", "vi": 0},
              {"op": "set_flattened", "vi": 1, "name": 1, "vals": ["1/1", "2/1", "3/1", "4/1", "5/1"], "via": "method"}])
    H.append([fd([new(1, ["1/2"], ["1/4"]), inew(1, [3], [4]), inew(1)]),
              {"op": "field_flatten", "vi": 0, "name": 0, "via": "method"}, {"op": "flatten", "vi": 0}])
    H.append([fs([2, 2], 3), {"op": "setitem", "vi": 0, "idx": [{"i": 0}, {"i": 0}], "value": {"k": "arr", "a": inew(3, [1, 2, 3])}},
              {"op": "setitem", "vi": 0, "idx": [{"i": 1}, {"i": 1}], "value": arr(3, ["1/2", "3/2", "5/2"], ["7/2", "9/2", "11/2"])},
              {"op": "setitem", "vi": 0, "idx": [{"i": 1}, {"i": 0}], "value": {"k": "arr", "a": inew(3)}},
              {"op": "field_flatten", "vi": 0, "name": 2, "via": "method"},
              {"op": "getitem", "vi": 0, "idx": [{"s": [None, None, -1]}, {"s": [None, None, None]}]},
              {"op": "field_flatten", "vi": 1, "name": 0, "via": "asarray"}, {"op": "flatten", "vi": 1}])
    return H


# ------------------------------------------------------------------------------------------
def compare(ctx: Ctx, hist, val, tag, phase=0, every=CLEAR_EVERY):
    """model trace (trace_smp) vs implementation; returns index of first differing step or None.  Per step the
    result / error class is compared in clear; the state observation in clear at the sampled steps and through
    its fingerprint at the others"""
    steps_m, fin_m = val
    n = len(hist["steps"])
    for k in range(n):
        clear = k % every == phase % every
        want = (hist["steps"][k], hist["obs"][k] if clear else [fp(hist["obs"][k])])
        got = (list(steps_m[k][0]), list(steps_m[k][1])) if k < len(steps_m) else None
        if got != want:
            return k
        if clear:
            ctx.cov["states_compared_in_clear"] = ctx.cov.get("states_compared_in_clear", 0) + 1
    if fin_m != (hist["obs"][-1] if n else [0, 0]):
        return n - 1
    return None


def describe(op):
    return json.dumps(op, sort_keys=True)


def hash_classes(ctx: Ctx):
    """drift guard for the attribute setters: a property setter has the name of its getter, so the per-method
    index of common.ast_hash only sees the getter; hash the whole classes under a key of their own (compared
    with the baseline only once the baseline holds that key)"""
    from ..common import SRC, ast_hash, _baseline_hashes
    rel = "core/datastructures/vector.py"
    key = rel + "#classes"
    h = ast_hash(SRC / "quantem" / rel, VECTOR_CLASSES)
    ctx.cov["source_ast_hashes"][key] = h
    base = _baseline_hashes().get(ctx.prop, {}).get(key)
    if base:
        changed = sorted(k for k in h if k in base and base[k] != h[k])
        if changed:
            ctx.escalated = True
            ctx.cov.setdefault("drift", {})[key] = changed
            ctx.log("drift guard: %s changed in %s -> quick budget escalated" % (changed, key))


def run(ctx: Ctx):
    ctx.hash_sources("core/datastructures/vector.py", VECTOR_METHODS)
    ctx.hash_sources("core/utils/validators.py", VALIDATORS)
    hash_classes(ctx)
    ctx.cov["rule"] = (
        "a case is one operation history (<= 15 ops quick, <= 40 thorough) on real Vector objects, generated in "
        "lock-step with the implementation from the seeded PRNG: creation (from_shape / from_data, 1-3 fixed dims, "
        "1-4 fields, ragged 0-3 rows, malformed shapes/fields/units/cells), single-cell and slice/list/ndarray "
        "assignment and retrieval through set_data/get_data/__setitem__/__getitem__ (valid, negative, out-of-range, "
        "wrong index count, Vector-valued right-hand sides, cells re-used from other vectors), field arithmetic "
        "(+ - * / // % **), flatten / set_flattened (also through np.asarray(view)), add_fields / remove_fields, copy; "
        "about 15% of the steps are the attribute setters v.fields / v.units / v.shape / v.data / v.name (right "
        "and wrong counts, duplicates, None, non-sequences; same / other shapes; correctly nested, flat, too deep, "
        "too shallow, wrong-length and non-list data), v.metadata[k] = x, _FieldView.__getitem__ (cell, slice, "
        "list, unset cell, missing field), index tuples with one index more than fixed dimensions, and save + load "
        "(zip and directory stores); directed witnesses first. "
        "Distinct = distinct op list; non-trivial = at least two live vectors, one populated cell and three "
        "successful state-changing steps. Every step of every history is compared: result / error class in clear, "
        "the full state observation in clear at every 4th step (12th in the thorough tier; the phase varies with the "
        "history) and at the end, as a 61-bit fingerprint at the other steps.")
    ctx.assumptions += [
        "numpy float64 arithmetic is exact on the generated dyadic values (magnitudes are bounded by the generator; "
        "division only by powers of two) so the exact-rational model can be compared with ==",
        "CPython object identity (`is`) of arrays / dicts / lists is what 'shares mutable state' means",
        "copy.deepcopy and numpy hstack / advanced indexing return new arrays (exercised by every run, not proved)",
        "AutoSerialize save/load (property C01/C14) is used as given: the reloaded Vector is compared with the "
        "model's `one new array per populated cell, new metadata dict`",
    ]
    ctx.cov["trusted_base"] += [
        "Coq 8.16.1 kernel incl. vm_compute (used to run the model); no native_compute",
        "hand-written model coq/model/C11_Model.v + coq/lib/C11_Heap.v tied to /repo by this correspondence run "
        "(the model describes the code WITH fixes/C11-*.diff applied)",
        "harness/props/C11.py (generator, oracle, canonical observation, Python->Coq printers), harness/common.py",
        "three of four state observations are compared through a 61-bit polynomial fingerprint (collision "
        "probability < 2^-50 per comparison); every 4th step, the final state of every history and every replay "
        "are compared in clear",
        "name and metadata CONTENTS are not part of the model state (only the identity of the metadata dict is): "
        "v.name = x and v.metadata[k] = x are no-ops of the model, their effect and their frame (no other vector's "
        "name / metadata moves) are judged by the oracle only",
    ]
    ctx.proofs_or_violation()
    # the translator tie (coqc subprocesses) runs while the histories are generated and executed below; it
    # has its own PRNG stream, so the interleaving does not influence the generated cases
    import threading
    from ..c11_tie import run_tie
    tie_exc = []

    def _tie():
        try:
            run_tie(ctx)
        except BaseException as e:  # noqa: re-raised in the main thread
            tie_exc.append(e)
    tie_thread = threading.Thread(target=_tie, name="c11-tie")
    tie_thread.start()

    hists = []
    for ops in directed_histories():
        hists.append(("directed", run_history(ops, len(ops))))
    n_rand = ctx.budget(260, 4000)
    depth = ctx.budget(15, 40)
    for k in range(n_rand):
        dims = [None, None, 1, 2, 3][k % 5]
        steps = depth if k % 7 else max(4, depth // 3)
        hists.append(("random", run_history(lambda impl, dims=dims: Gen(ctx.rng, impl, dims), steps)))

    tie_thread.join()
    if tie_exc:
        raise tie_exc[0]
    # ---- oracle results
    n_fail = 0
    for tag, h in hists:
        if h["fail"]:
            n_fail += 1
            k, key, msg = h["fail"]
            ctx.violation(key, "%s  [step %d: %s]" % (msg, k, describe(h["ops"][k])),
                          {"kind": "history", "ops": h["ops"], "failing_step": k, "oracle": msg})
    # ---- model
    every = ctx.budget(CLEAR_EVERY, 3 * CLEAR_EVERY)     # long histories have large states: print fewer of them
    exprs = [c_history(h["ops"], phase=n, every=every) for n, (_, h) in enumerate(hists)]
    vals = ctx.coq_eval("hist", PRE, exprs, shard=max(8, len(exprs) // 32 + 1), timeout=900)
    n_dis = 0
    for hn, ((tag, h), val) in enumerate(zip(hists, vals)):
        ops = h["ops"]
        ctx.cov["traces_validated_against_impl"] += 1
        n_ok_mut = sum(1 for o, s in zip(ops, h["steps"]) if s[:1] in ([0], [3]) and o["op"] not in (
            "flatten", "field_flatten", "get_data"))
        nontrivial = bool(h["obs"]) and h["obs"][-1][0] >= 2 and n_ok_mut >= 3
        ctx.count(json.dumps(ops, sort_keys=True), nontrivial=nontrivial, n=len(ops))
        for o, s, dd in zip(ops, h["steps"], h["dims"]):
            ctx.dist("op/%s" % o["op"])
            ctx.dist("fixed-dims/%d" % dd)
            ctx.dist("result/%s" % ({0: "none", 1: "cell", 2: "cells", 3: "new-vector", 4: "flat", 5: "column"}.get(
                s[0], "err%s" % (s[1] if len(s) > 1 else "?"))))
        bad_at = compare(ctx, h, val, tag, phase=hn, every=every)
        if bad_at is not None:
            n_dis += 1
            ctx.cov["disagreements_checked"] += 1
            prefix = ops[:bad_at + 1]
            ctx.violation("history-correspondence",
                          "Vector and the model disagree after step %d (%s) of a %s history: the theorems no longer "
                          "speak about this code%s" % (
                              bad_at, describe(ops[bad_at]), tag,
                              "; the property oracle fails on the same history: " + h["fail"][2] if h["fail"] else ""),
                          {"kind": "history", "ops": prefix, "failing_step": bad_at,
                           "impl_step": h["steps"][bad_at], "model_step": repr(val[0][bad_at] if bad_at < len(val[0]) else None)},
                          found_input=h["fail"] is not None)
    for tag, h in hists[:2] + hists[-2:]:
        ctx.sample({"kind": tag, "ops": h["ops"][:6], "n_ops": len(h["ops"]), "last_result": h["steps"][-1] if h["steps"] else None})
    ctx.log("histories %d (directed %d), steps %d, oracle failures %d, model disagreements %d" % (
        len(hists), len(directed_histories()), sum(len(h["ops"]) for _, h in hists), n_fail, n_dis))


def replay(ctx: Ctx, path):
    rp = json.loads(open(path).read())
    if rp.get("kind") != "history":
        print("replay of kind %r: re-run ./check C11" % rp.get("kind"))
        return 0
    ops = rp["ops"]
    h = run_history(ops, len(ops))
    val = ctx.coq_eval("replay", PRE, [c_history(h["ops"], full=True)])[0]
    rc = 0
    for k, op in enumerate(h["ops"]):
        impl_ser = h["steps"][k] + h["obs"][k]
        model_ser = list(val[k]) if k < len(val) else None
        same = impl_ser == model_ser
        print("step %d: %s" % (k, describe(op)))
        print("   impl : result %s" % h["steps"][k])
        if not same:
            print("   impl  observation: %s" % impl_ser)
            print("   model observation: %s" % model_ser)
            print("   MODEL AND IMPLEMENTATION DISAGREE")
            rc = 1
    if h["fail"]:
        k, key, msg = h["fail"]
        print("oracle: property fails at step %d [%s]: %s" % (k, key, msg))
        rc = 1
    else:
        print("oracle: property holds on this history")
    return rc
