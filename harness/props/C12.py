"""C12 — One aberration surface across polar, Cartesian, gradient and fitted forms.

Obligations
  coq/props/C12_Properties.v             theorems about the executable model of the three alias
                                         handlers (axiom-free)
  coq/gen_proofs/C12_GenProperties.v     theorems about the functions TRANSLATED on this run from the
                                         current complex_probe.py / direct_ptycho_utils.py /
                                         direct_ptychography.py (harness/translate_chi.py ->
                                         build/C12/Gen_Chi.v), proved by the fixed scripts
                                         C12_GenAlg.v, C12_GenDeriv.v, C12_GenFit.v
Ties
  (c) translator cross-test: the generated Coq expressions are enclosed with `interval` at rational
      points and must contain the implementation's float result; the translator's IR is also
      evaluated in floats at random points
  (d) oracle: the property text evaluated on the implementation in float64 (autograd gradients,
      polar vs Cartesian basis, conversions, merge, alias handlers, shift matrix, fit round trip)
  (e) alias handlers: executable Coq model vs implementation on random dictionaries
"""
from __future__ import annotations

import copy
import json
import math
import re
import threading
import types
from fractions import Fraction
from pathlib import Path

from .. import translate_chi as TC
from ..common import COQ, COQ_FLAGS, SRC, VERIF, Ctx, cq, cstr, parse_coq_value, sh

LEVEL = "proof"
GEN_DIR = COQ / "gen_proofs"
FIXED = ["C12_GenAlg", "C12_GenDeriv", "C12_GenDeriv2", "C12_GenFit"]
# second stage: started as soon as the scripts it imports have been checked (not after the whole first stage)
FIXED2 = {"C12_GenEquiv": ["C12_GenAlg", "C12_GenDeriv"]}
GEN_PROPS = ["C12_GenProperties", "C12_GenPropertiesB", "C12_GenPropertiesD", "C12_GenPropertiesE", "C12_GenPropertiesF",
             "C12_GenPropertiesG"]
WHAT_FIXED = {
    "C12_GenEquiv": "equivalent coefficient sets (same surface => same gradients; polar -> Cartesian -> polar keeps gradients and shifts)",
    "C12_GenAlg": "polar = Cartesian expansion, Cartesian gradient = rotated polar gradient, conversions round trip, merge",
    "C12_GenDeriv": "analytic gradient = wavelength x true derivative of the surface (is_derive)",
    "C12_GenDeriv2": "Cartesian gradient = wavelength x derivative of the surface along Cartesian directions",
    "C12_GenFit": "shift matrix lambda k R(theta)^T A, _torch_polar from the SVD, extraction formulas of the fit",
}

POLAR_SYMBOLS = ["C10", "C12", "phi12", "C21", "phi21", "C23", "phi23", "C30", "C32", "phi32", "C34", "phi34",
                 "C41", "phi41", "C43", "phi43", "C45", "phi45", "C50", "C52", "phi52", "C54", "phi54", "C56", "phi56"]
ALIASES = {"defocus": "C10", "astigmatism": "C12", "astigmatism_angle": "phi12", "coma": "C21",
           "coma_angle": "phi21", "Cs": "C30", "C5": "C50"}
ANG = [(s, "phi" + s[1:], int(s[2])) for s in POLAR_SYMBOLS if s.startswith("C") and s[2] != "0"]
ISO = [s for s in POLAR_SYMBOLS if s.startswith("C") and s[2] == "0"]
ALL_LABELS = []
for _s in POLAR_SYMBOLS:
    if _s.startswith("C"):
        ALL_LABELS += [_s] if _s[2] == "0" else [_s + "_a", _s + "_b"]

# which oracle families exercise the formula a lemma of the fixed scripts is about: when a lemma stops going
# through on the model translated from the current source, the failing-input search is aimed at these families
SCRIPT_FAMILY = {"C12_GenAlg": ["surface", "conversions", "merge", "equivalence"], "C12_GenDeriv": ["surface"],
                 "C12_GenDeriv2": ["surface"], "C12_GenFit": ["fit", "fit2", "shift"],
                 "C12_GenEquiv": ["equivalence", "shift"]}
LEMMA_FAMILY = {
    "polar_eq_cartesian": ["surface"], "cartesian_grad_rotation": ["surface"],
    "roundtrip_cart": ["conversions"], "roundtrip_polar": ["conversions"], "symbols_covered": ["tables"],
    "labels_covered": ["tables"], "chi_of_cartesian": ["conversions", "merge"], "merge_surface": ["merge"],
    "chi_roundtrip_all": ["equivalence"], "roundtrip_general": ["equivalence", "conversions"],
    "roundtrip_iso": ["equivalence", "conversions"], "tables_tied": ["tables"], "tables_closed": ["tables"],
    "grad_alpha": ["surface"], "grad_phi": ["surface"], "grad_is_lambda_times_derivative": ["surface"],
    "grad_cartesian_directional": ["surface"],
    "dchi_dk_env3": ["shift", "fit"], "dchi_dphi_env3": ["shift", "fit"], "rot_grid": ["shift", "fit"],
    "shift_matrix": ["shift", "fit", "fit2"], "torch_polar_is": ["fit", "fit2"], "svd_polar": ["fit", "fit2"],
    "fit_reads": ["fit", "fit2"], "flip_pos": ["fit"], "flip_neg": ["fit"], "fit_extracts": ["fit"],
    "fit_extracts_svd": ["fit"], "proper_rotation_form": ["fit2"], "astig_of_symmetric": ["fit2"],
    "fit_reproduces_matrix": ["fit2"], "fit_equivalent": ["fit2"], "fit_predicts_same_shifts": ["fit2", "shift"],
    "fit_extracts_weak": ["fit2"], "fit_large_angle": ["fit2"], "fit_large_angle_neg": ["fit2"],
    "same_surface_same_gradients": ["equivalence", "surface"], "gradients_roundtrip": ["equivalence"],
    "shifts_roundtrip": ["equivalence", "shift"],
}
FOCUS = 4          # extra factor (on top of the 10x escalation) for the families a failing lemma points at


def focus_families(failed_scripts):
    """failed_scripts: ['C12_GenAlg:roundtrip_polar', ...] -> sorted list of oracle families to aim at"""
    fams = set()
    for fs in failed_scripts:
        script, _, lem = fs.partition(":")
        fams.update(LEMMA_FAMILY.get(lem) or SCRIPT_FAMILY.get(script, []))
    return sorted(fams)


def _flags(ctx):
    return COQ_FLAGS + ["-Q", str(ctx.dir), "Gen12"]


def _enclosing_lemma(script: Path, out: str) -> str:
    ms = re.findall(r'line (\d+), characters [\d-]+:\s*\n\s*Error', out) or re.findall(r'line (\d+), characters', out)
    if not ms:
        return ""
    ln = int(ms[-1])
    name = ""
    for i, line in enumerate(script.read_text().splitlines(), 1):
        if i > ln:
            break
        mm = re.match(r"\s*(?:Lemma|Theorem|Example|Definition)\s+(\w+)", line)
        if mm:
            name = mm.group(1)
    return name


# ==========================================================================================
# (a) + (b) translation and proofs


class ProofPhase:
    """translate -> Gen_Chi.v -> fixed scripts (parallel) -> C12_GenProperties.v; the static alias
    theorems are checked in a thread of their own"""

    def __init__(self, ctx: Ctx):
        self.ctx = ctx
        self.problems: list[str] = []
        self.T = None
        self.gen_ok = False
        self.fixed_ok = False
        self.failed_scripts: list[str] = []
        self._threads = []
        self._static_problems: list[str] = []
        self._gen_problems: list[str] = []
        self.gen_props = [GEN_DIR / (n + ".v") for n in GEN_PROPS]
        self.gen_theorems = [t for f in self.gen_props for t in re.findall(r"(?m)^\s*Theorem\s+(\w+)", f.read_text())]
        self.fixed_done = threading.Event()

    def not_checked(self, why):
        self.ctx.cov["obligations"] += len(self.gen_theorems)
        for t in self.gen_theorems:
            self.ctx.cov["theorems"][t] = "NOT CHECKED (%s)" % why

    def start(self):
        ctx = self.ctx
        rc, out = ctx.coq_make(["lib/C12_RealLib.vo", "lib/C12_Trig.vo", "props/C12_Properties.vo"])
        if rc != 0:
            (ctx.dir / "make_failure.log").write_text(out)

        def static():
            if not ctx.require_proofs(make_targets=[]):
                self._static_problems += ctx._proof_problems
            self.cmd1 = ctx.cov["checker_cmd"]

        t = threading.Thread(target=static, daemon=True)
        t.start()
        t.join()            # ~2 s; joined here because require_proofs keeps per-call state on ctx
        self.translate()
        if self.T is not None:
            self.compile_generated()

    def translate(self):
        ctx = self.ctx
        try:
            self.T = TC.translate(SRC)
            ctx.cov["translator"] = {"status": "ok", "functions": list(self.T.order)}
        except TC.TranslateError as e:
            self.problems.append("translator (fail closed): source outside the accepted grammar: %s" % e)
            ctx.cov["translator"] = {"status": "rejected", "error": str(e)}
        except Exception as e:  # noqa  (syntax error, missing file ...)
            self.problems.append("translator could not read the source: %r" % e)
            ctx.cov["translator"] = {"status": "failed", "error": repr(e)}
        if self.T is None:
            self.not_checked("translator rejected the source")

    def compile_generated(self):
        ctx = self.ctx
        gen = ctx.dir / "Gen_Chi.v"
        gen.write_text(self.T.emit_coq())
        for stale in ["Gen_Chi.vo"] + [f + ".vo" for f in FIXED + list(FIXED2) + GEN_PROPS]:
            if (ctx.dir / stale).exists():
                (ctx.dir / stale).unlink()
        bad = ctx.static_scan([gen] + self.gen_props + [GEN_DIR / (f + ".v") for f in FIXED + list(FIXED2)])
        if bad:
            self.problems.append("forbidden declarations: %s" % bad[:5])
        rc, out = sh(["timeout", "300", "coqc"] + _flags(ctx) + [str(gen)], cwd=ctx.dir, timeout=330)
        if rc != 0:
            self.problems.append("generated file Gen_Chi.v does not compile:\n" + "\n".join(out.strip().splitlines()[-12:]))
            self.not_checked("generated file does not compile")
            return
        self.gen_ok = True
        self._results = {}

        def comp(name):
            script = GEN_DIR / (name + ".v")
            rc, out = sh(["timeout", "600", "coqc"] + _flags(ctx) + ["-o", str(ctx.dir / (name + ".vo")), str(script)],
                         cwd=ctx.dir, timeout=630)
            (ctx.dir / (name + ".out")).write_text(out)
            self._results[name] = (rc, out)

        done = {name: threading.Event() for name in FIXED}

        def comp1(name):
            try:
                comp(name)
            finally:
                done[name].set()

        def comp2(name, deps):
            for d in deps:
                done[d].wait()
            if all(self._results.get(d, (1, ""))[0] == 0 for d in deps):
                comp(name)
            else:
                self._results[name] = (0, "skipped: %s did not check" % ", ".join(
                    d for d in deps if self._results.get(d, (1, ""))[0] != 0))

        def pipeline():
            ts = [threading.Thread(target=comp1, args=(name,), daemon=True) for name in FIXED]
            ts += [threading.Thread(target=comp2, args=(name, deps), daemon=True) for name, deps in FIXED2.items()]
            for t in ts:
                t.start()
            for t in ts:
                t.join()
            ok = self._judge_fixed()
            self.fixed_done.set()
            if ok:
                self._properties()

        t = threading.Thread(target=pipeline, daemon=True)
        t.start()
        self._threads.append(t)

    def _judge_fixed(self):
        ok = True
        for name in FIXED + list(FIXED2):
            rc, out = self._results[name]
            if rc != 0:
                ok = False
                lem = _enclosing_lemma(GEN_DIR / (name + ".v"), out)
                self.failed_scripts.append("%s:%s" % (name, lem))
                self.problems.append(
                    "the model translated from the current source no longer satisfies the fixed proof script %s.v "
                    "(%s) at `%s`:\n%s" % (name, WHAT_FIXED[name], lem, "\n".join(out.strip().splitlines()[-10:])))
        self.fixed_ok = ok
        if not ok:
            self.not_checked("fixed proof script fails: %s" % ", ".join(self.failed_scripts))
        return ok

    def join_fixed(self):
        """wait for the fixed scripts; returns True when all of them check"""
        if not self.gen_ok:
            return False
        self.fixed_done.wait()
        return self.fixed_ok

    def _properties(self):
        """the two generated-property files are checked in parallel, each on a private copy of the
        bookkeeping that Ctx.require_proofs updates; merged afterwards"""
        ctx = self.ctx
        subs = []

        def one(name, path, sub):
            if not sub.require_proofs(props_name=name, props_path=path, extra_flags=["-Q", str(ctx.dir), "Gen12"],
                                      make_targets=[]):
                sub._problems_out = list(sub._proof_problems)
            else:
                sub._problems_out = []

        ts = []
        for name, path in zip(GEN_PROPS, self.gen_props):
            sub = copy.copy(ctx)
            sub.cov = {"obligations": 0, "discharged": 0, "checker_cmd": "", "theorems": {}, "trusted_base": []}
            subs.append(sub)
            t = threading.Thread(target=one, args=(name, path, sub), daemon=True)
            t.start()
            ts.append(t)
        for t in ts:
            t.join()
        for sub in subs:
            ctx.cov["obligations"] += sub.cov["obligations"]
            ctx.cov["discharged"] += sub.cov["discharged"]
            ctx.cov["theorems"].update(sub.cov["theorems"])
            for a in sub.cov["trusted_base"]:
                if a not in ctx.cov["trusted_base"]:
                    ctx.cov["trusted_base"].append(a)
            self._gen_problems += sub._problems_out

    def finish(self):
        ctx = self.ctx
        for t in self._threads:
            t.join()
        problems = self._static_problems + self.problems + self._gen_problems
        ctx.cov["checker_cmd"] = (
            getattr(self, "cmd1", "") + "  ;  python -m harness.translate_chi build/C12/Gen_Chi.v && coqc %s Gen_Chi.v && "
            "coqc ... -o build/C12/<S>.vo coq/gen_proofs/<S>.v for S in %s && coqc ... coq/gen_proofs/<P>.v for P in %s"
            % (" ".join(_flags(ctx)), ",".join(FIXED + list(FIXED2)), ",".join(GEN_PROPS)))
        if problems:
            ctx.broken_obligation = "; ".join(problems)
            ctx.log("PROOF OBLIGATION BROKEN:", ctx.broken_obligation[:3000])
        return not problems


# ==========================================================================================
# (c) translator cross-test

XT_SHARDS = 4


class CrossTest(threading.Thread):
    def __init__(self, ctx, T, P):
        super().__init__(daemon=True)
        self.ctx, self.T, self.P = ctx, T, P
        self.results = []

    def run(self):
        from .. import xt_C12 as X
        n = len(self.P.pts)
        shards = [list(range(k, n, XT_SHARDS)) for k in range(XT_SHARDS)]
        out = [None] * XT_SHARDS

        def one(k):
            fn = self.ctx.dir / ("crosstest_%d.v" % k)
            fn.write_text(X.coq_file(self.T, self.P, shards[k]))
            out[k] = sh(["timeout", "900", "coqc"] + _flags(self.ctx) + [str(fn)], cwd=self.ctx.dir, timeout=930)
            (self.ctx.dir / ("crosstest_%d.out" % k)).write_text(out[k][1])

        ts = [threading.Thread(target=one, args=(k,), daemon=True) for k in range(XT_SHARDS)]
        for t in ts:
            t.start()
        for t in ts:
            t.join()
        self.results = out


def finish_crosstest(ctx: Ctx, xt: CrossTest):
    xt.join()
    pts = xt.P.pts
    ctx.cov["translator_crosstest"] = {
        "points": len(pts),
        "rule": "implementation value must lie in the `interval` enclosure (i_prec 80) of the generated Coq expression "
                "widened by 1e-9 relative (float64 paths) / 2e-5 relative (float32 shift and fit paths)"}
    bad_rc = [(rc, o) for rc, o in xt.results if rc != 0]
    if bad_rc:
        ctx.violation("translator-crosstest-machinery",
                      "the translator cross-test file did not compile (tie between generated Coq and implementation not "
                      "established): " + "\n".join(bad_rc[0][1].strip().splitlines()[-6:]),
                      {"kind": "crosstest", "log": bad_rc[0][1][-3000:]}, found_input=False)
        return
    fails = sorted(int(x) for rc, o in xt.results for x in re.findall(r"XT-(?:FAIL|NONFINITE) (\d+)", o))
    ctx.cov["translator_crosstest"]["enclosed"] = len(pts) - len(fails)
    ctx.cov["evaluations"] += len(pts)
    ctx.cov["traces_validated_against_impl"] += len(pts) - len(fails)
    ctx.dist("crosstest/interval-points", len(pts))
    for label, _, _, _ in pts:
        ctx.count(("xt", label), nontrivial=True, n=0)
    if fails:
        label, expr, y, tol = pts[fails[0]]
        ctx.cov["disagreements_checked"] += len(fails)
        ctx.violation("translator-crosstest",
                      "generated Coq expression does not enclose the implementation's value at %d of %d points; first: "
                      "%s = %r but `%s` is not within %.3g of it (translator or vocabulary no longer matches the code)"
                      % (len(fails), len(pts), label, y, expr[:300], tol),
                      {"kind": "crosstest", "label": label, "coq": expr, "impl": y,
                       "all_failing": [pts[j][0] for j in fails[:40]]}, found_input=False)
    ctx.log("translator cross-test: %d points, %d not enclosed" % (len(pts), len(fails)))


# ==========================================================================================
# (e) alias handlers: Coq model vs implementation, and the oracle on the same cases

PRE = """From Coq Require Import QArith List String.
From QV.model Require Import C12_Model.
Import ListNotations.
Local Open Scope string_scope.
Local Open Scope list_scope.
"""


def cval(v):
    if v is None:
        return "VNone"
    if isinstance(v, dict):
        return "(VDict %s)" % cdict(v)
    fr = Fraction(v) if isinstance(v, int) else Fraction(*float(v).as_integer_ratio())
    return "(VNum %s)" % cq(fr)


def cdict(d):
    return "[" + "; ".join("(%s, %s)" % (cstr(k), cval(v)) for k, v in d.items()) + "]"


def handler_exprs(case):
    d = cdict(case["dict"])
    mo = "None" if case["max_order"] is None else "(Some %d%%nat)" % case["max_order"]
    ex = []
    if not case["nested"]:
        ex.append(("validate", "show_result (validate %s)" % d))
        ex.append(("standardize", "show_result (standardize %s)" % d))
    ex.append(("setter(%s)" % case["max_order"], "show_result (setter %s %s)" % (mo, d)))
    return ex


def run_handlers(case):
    from .. import oracle_C12 as O
    res = {}
    d = O.materialize(case)          # the same numbers, possibly held as NumPy scalars / tensors / bool / str
    if not case["nested"]:
        res["validate"] = O.run_validate(d)
        res["standardize"] = O.run_standardize(d)
    res["setter(%s)" % case["max_order"]] = O.run_setter(d, case["max_order"])
    if case["max_order"] == 5 and case.get("real_object"):
        res["setter-object"] = O.run_setter(d, 5, real_object=True)
    return res


def model_result(v):
    """parsed show_result -> {'ok': {name: Fraction}} | {'err': n}"""
    code, items = v
    if code != 0:
        return {"err": code}
    return {"ok": {k: Fraction(n, dd) for k, (n, dd) in items}}


def same_result(model, impl):
    if "err" in model or "err" in impl:
        return model.get("err") == impl.get("err")
    mo, io = model["ok"], impl["ok"]
    return set(mo) == set(io) and all(float(mo[k]) == io[k] for k in mo)


def alias_cases(ctx):
    from .. import oracle_C12 as O
    r = ctx.rng
    cases = []
    for c in corpus(ctx).get("alias", []):
        cases.append(c)
    fixed = [
        {"dict": {"defocus": 100.0}, "nested": False, "max_order": 5, "real_object": True},
        {"dict": {"C10": 5.0, "defocus": 100.0}, "nested": False, "max_order": 5, "real_object": True},
        {"dict": {"defocus": 100.0, "C10": 5.0}, "nested": False, "max_order": 5},
        {"dict": {"defocus": 0.0, "astigmatism": 2.5, "astigmatism_angle": 0.5, "coma": 3.0, "coma_angle": -0.25,
                  "Cs": 1000.0, "C5": -7.0}, "nested": False, "max_order": 5, "real_object": True},
        {"dict": {"energy": 80000.0, "defocus": 120.0, "semiangle_cutoff": 20.0,
                  "aberration_coefs": {"C30": 7.0, "C12": 1.5}}, "nested": True, "max_order": 5, "real_object": True},
        {"dict": {"aberration_coefs": {"defocus": 40.0}, "C10": None}, "nested": True, "max_order": 3},
        {"dict": {"energy": 80000.0, "aberration_coefs": {"C10": 3.0}, "defocus": 8.0}, "nested": True, "max_order": None},
        {"dict": {}, "nested": False, "max_order": 5},
        {"dict": {"defocus": None}, "nested": False, "max_order": 1},
        {"dict": {"foo": 1.0, "defocus": 2.0}, "nested": False, "max_order": 5},
    ]
    cases += fixed
    for i in range(ctx.budget(260, 4000)):
        c = O.gen_alias_case(r)
        if i % 4 == 3:
            c = O.add_value_kinds(r, c)
        cases.append(c)
    return cases


def check_alias(ctx: Ctx, model_available=True):
    from .. import oracle_C12 as O
    cases = alias_cases(ctx)
    impl = [run_handlers(c) for c in cases]
    exprs, owner = [], []
    for i, c in enumerate(cases):
        for h, e in handler_exprs(c):
            exprs.append(e)
            owner.append((i, h))
    vals = None
    if model_available:
        try:
            raw = ctx.coq_eval("alias", PRE, exprs, shard=max(40, len(exprs) // 12 + 1), parse=False)
            vals = [parse_coq_value(re.sub(r"\s+", " ", re.sub(r"%\w+", "", v))) for v in raw]
        except RuntimeError as e:
            ctx.violation("alias-model-machinery", "the alias-handler model could not be evaluated: %s" % str(e)[-600:],
                          {"kind": "obligation"}, found_input=False)
    nbad = ndis = 0
    oracle_bad = {}
    for i, (c, res) in enumerate(zip(cases, impl)):
        eff = O._effective(c["dict"])
        ctx.dist("alias/kind=%s" % ("nested" if c["nested"] else "flat"))
        ctx.dist("alias/defocus=%s,C10=%s" % (any(k == "defocus" for k, _ in eff), any(k == "C10" for k, _ in eff)))
        for h, r_ in res.items():
            ctx.dist("alias/%s=%s" % (h.split("(")[0], "ok" if "ok" in r_ else "err%d" % r_["err"]))
        ctx.count(("alias", json.dumps(c, sort_keys=True)), nontrivial=bool(eff), n=len(res))
        bad = O.oracle_alias(c, res)
        for kd in sorted(set((c.get("kinds") or {}).values())):
            ctx.dist("alias/value-type=%s" % kd)
        if bad is None and "validate" in res:
            bad = O.oracle_hyperparameter_state(c, res["validate"])
            ctx.dist("alias/hyperparameter-state=%s" % ("ok" if "ok" in res["validate"] else "rejected"))
        oracle_bad[i] = bad
        if bad:
            nbad += 1
            ctx.violation(bad[0], bad[1], {"kind": "alias", "case": c, "impl": res})
    if vals is not None:
        for (i, h), v in zip(owner, vals):
            m = model_result(v)
            ctx.cov["traces_validated_against_impl"] += 1
            if not same_result(m, impl[i][h]):
                ndis += 1
                ctx.cov["disagreements_checked"] += 1
                ctx.violation("alias-correspondence/" + h.split("(")[0],
                              "alias handler %s and its Coq model disagree (the theorems no longer speak about this code) on "
                              "%s: implementation %s, model %s" % (h, cases[i]["dict"], impl[i][h],
                                                                  {k: (str(x) if not isinstance(x, dict) else
                                                                       {kk: float(vv) for kk, vv in x.items()})
                                                                   for k, x in m.items()}),
                              {"kind": "alias", "case": cases[i], "impl": impl[i], "handler": h},
                              found_input=oracle_bad[i] is not None)
    ctx.sample({"kind": "alias", "case": cases[len(cases) // 2], "impl": impl[len(cases) // 2]})
    ctx.log("alias handlers: %d dictionaries, %d oracle failures, %d model disagreements" % (len(cases), nbad, ndis))
    check_setter_sequences(ctx, model_available and vals is not None)


SEQ_FIXED = [
    {"steps": [{"C10": -250.0}, {"defocus": 100.0}], "max_order": 5, "real_object": True},
    {"steps": [{"defocus": 100.0}, {"defocus": 200.0}, {"energy": 80000.0}], "max_order": 5, "real_object": True},
    {"steps": [{"aberration_coefs": {"C10": -40.0}}, {"defocus": 310.0, "Cs": 5.0, "C12": 2.0, "phi12": 0.5}], "max_order": 5,
     "real_object": True},
    {"steps": [{"defocus": 100.0, "C30": 7.0}, {"energy": 80000.0}, {"C10": 5.0, "defocus": 100.0}], "max_order": 3},
    {"steps": [{"Cs": 1000.0}, {"foo": 1.0}, {"defocus": -3.5}], "max_order": None},
]


def check_setter_sequences(ctx: Ctx, model_available=True):
    """the probe-params setter assigned several times on ONE object (stand-in namespace and real ProbePixelated):
    every assignment must mean what the same dictionary means on a fresh object (which the model correspondence
    of check_alias ties to the Coq model), and 'defocus' must still enter as C10 = -defocus"""
    from .. import oracle_C12 as O
    r = ctx.rng
    cases = list(corpus(ctx).get("sequences", [])) + SEQ_FIXED + [O.gen_setter_seq(r) for _ in range(ctx.budget(60, 1200))]
    nbad = 0
    finals = []
    for c in cases:
        for real in ([False, True] if c.get("real_object") else [False]):
            if real and c["max_order"] != 5:
                continue
            got, final = O.run_setter_seq(c["steps"], c["max_order"], real_object=real, want_final=True)
            if not real:
                finals.append((c, final, got))
            fresh = [O.run_setter(d, c["max_order"], real_object=real) for d in c["steps"]]
            ctx.dist("setter-sequence/%s/steps=%d" % ("object" if real else "namespace", len(c["steps"])))
            ctx.count(("seq", real, json.dumps(c, sort_keys=True)), nontrivial=any(O._effective(d) for d in c["steps"][1:]),
                      n=len(c["steps"]))
            bad = O.oracle_setter_seq(c, got, fresh)
            if bad:
                nbad += 1
                ctx.violation(bad[0], bad[1], {"kind": "setter-sequence", "case": dict(c, real_object=real)})
    # correspondence: the coefficient dictionary the object stores at the end vs the Coq model of the stored state
    # (assign_all: DEFAULT | old | params per accepted assignment), which C12_setter_sequence_meaning speaks about
    if model_available and finals:
        exprs = []
        for c, _, _ in finals:
            mo = "None" if c["max_order"] is None else "(Some %d%%nat)" % c["max_order"]
            exprs.append("show_stored (assign_all %s default_probe_params [%s])" % (mo, "; ".join(cdict(d) for d in c["steps"])))
        try:
            raw = ctx.coq_eval("aliasseq", PRE, exprs, shard=max(40, len(exprs) // 3 + 1), parse=False)
            for (c, final, got), v in zip(finals, raw):
                m = {k: Fraction(n, dd) for k, (n, dd) in parse_coq_value(re.sub(r"\s+", " ", re.sub(r"%\w+", "", v)))}
                ctx.cov["traces_validated_against_impl"] += 1
                if set(m) != set(final) or any(float(m[k]) != final[k] for k in m):
                    ctx.cov["disagreements_checked"] += 1
                    nbad += 1
                    ctx.violation("alias-correspondence/setter-sequence",
                                  "after assigning %s the object stores aberration_coefs %s but the Coq model of the stored "
                                  "state has %s (the sequence theorems no longer speak about this code)"
                                  % (c["steps"], final, {k: float(x) for k, x in m.items()}),
                                  {"kind": "setter-sequence", "case": dict(c, real_object=False)},
                                  found_input=O.oracle_setter_seq(c, got, [O.run_setter(d, c["max_order"]) for d in c["steps"]]) is not None)
        except RuntimeError as e:
            ctx.violation("alias-model-machinery", "the setter-sequence model could not be evaluated: %s" % str(e)[-600:],
                          {"kind": "obligation"}, found_input=False)
    # values that are not numbers must not be accepted silently
    njunk = 0
    for key in ["defocus", "C10", "Cs", "phi12", "astigmatism"]:
        for kind in O.JUNK_KINDS:
            for nested in (False, True):
                jc = {"key": key, "kind": kind, "nested": nested}
                ctx.dist("alias/non-numeric=%s" % kind)
                ctx.count(("junk", key, kind, nested), nontrivial=True)
                njunk += 1
                bad = O.oracle_junk(jc)
                if bad:
                    nbad += 1
                    ctx.violation(bad[0], bad[1], {"kind": "junk", "case": jc})
    ctx.log("setter sequences: %d, non-numeric values: %d, oracle failures %d" % (len(cases), njunk, nbad))


# ==========================================================================================
# (d) oracle on the implementation


def check_oracle(ctx: Ctx, escalate: bool, focus=(), T=None):
    """escalate: 10x budget (drift / translator / proof failure); focus: oracle families that a failing lemma of the
    fixed scripts points at — those get FOCUS x more cases still, so the failing-input search is aimed at the formula
    whose proof broke"""
    from .. import oracle_C12 as O
    r = ctx.rng
    base = 10 if escalate else 1
    focus = set(focus)

    NEW = ("equivalence", "reps", "shift", "fit2")       # round-3 families: total escalation capped (see below)
    drift = 4 if (ctx.quick and ctx.escalated) else 1   # ctx.budget already multiplies by the drift-guard factor

    def mult(fam):
        m = base * (FOCUS if fam in focus else 1)
        if fam in NEW and fam not in focus:
            m = max(1, m // drift)                       # drift x proof escalation: 10x in total, not 40x
        return m

    ENOUGH = 25      # failing inputs per family after which the search of that family stops

    if escalate:
        ctx.cov["escalation"] = {"budget": "x%d" % base, "focused_families": sorted(focus), "focus_factor": FOCUS if focus else 1}
    wls = [0.0197, 0.0251, 0.0370, 0.05, 1 / 32.0]
    for c in corpus(ctx).get("cases", []):
        replay_case(ctx, c, report=True)
    stats = {}

    def run(kind, case, fn):
        if stats.get(kind, 0) >= ENOUGH:
            return None
        ctx.dist("oracle/" + kind)
        ctx.count((kind, json.dumps(case, sort_keys=True)), nontrivial=True)
        res = fn(case)
        if res:
            stats[kind] = stats.get(kind, 0) + 1
            ctx.violation(res[0], res[1], {"kind": kind, "case": case})
        return res

    # tables: deterministic
    ctx.dist("oracle/tables")
    ctx.count(("tables",), nontrivial=True)
    for key, what, found in O.oracle_tables(T):
        stats["tables"] = stats.get("tables", 0) + 1
        ctx.violation(key, what, {"kind": "tables"}, found_input=found)

    n = ctx.budget(160, 2500) * mult("surface")
    sample = None
    for i in range(n):
        kind, coefs = O.gen_polar(r, "outside" if i % 8 == 7 else None)
        a, p = O.gen_points(r, 24)
        case = {"coefs": coefs, "alpha": a, "phi": p, "wavelength": r.choice(wls)}
        ctx.dist("surface/coefs=%s" % kind)
        run("surface", case, O.oracle_surface)
        sample = sample or {"kind": "surface", "coefs": coefs, "wavelength": case["wavelength"], "points": 24}
    ctx.sample(sample)
    for i in range(ctx.budget(150, 2500) * mult("conversions")):
        run("conversions", {"cart": O.gen_cart(r), "polar": O.gen_polar(r, "principal")[1]}, O.oracle_conversions)
    for i in range(ctx.budget(120, 2000) * mult("equivalence")):
        kind, coefs = O.gen_polar(r, r.choice(["outside", "outside", "all", "subset", "single"]))
        a, p = O.gen_points(r, 12)
        ctx.dist("equivalence/coefs=%s" % kind)
        ctx.dist("equivalence/negative-magnitudes=%s" % any(v < 0 for k, v in coefs.items() if not k.startswith("phi")))
        run("equivalence", {"coefs": coefs, "alpha": a, "phi": p, "wavelength": r.choice(wls)}, O.oracle_equivalence)
    for i in range(ctx.budget(12, 200) * mult("reps")):
        a, p = O.gen_points(r, 6)
        coefs = {k: r.randint(-48, 48) / 16.0 for k in POLAR_SYMBOLS if r.random() < 0.7} or {"C10": 1.5}
        reps = r.sample(O.REPS, 3)
        for kd in reps:
            ctx.dist("representation/%s" % kd)
        run("reps", {"coefs": coefs, "alpha": a, "phi": p, "wavelength": r.choice(wls), "reps": reps}, O.oracle_reps)
    for i in range(ctx.budget(80, 1500) * mult("merge")):
        a, p = O.gen_points(r, 12)
        run("merge", {"init": O.gen_polar(r)[1], "delta": O.gen_cart(r), "alpha": a, "phi": p, "wavelength": r.choice(wls)},
            O.oracle_merge)
    for i in range(ctx.budget(60, 1000) * mult("shift")):
        case = O.gen_shift_case(r)
        ctx.dist("shift/mask=%s" % case["mask"]["kind"])
        ctx.dist("shift/rotation=%s" % ("None" if case["theta"] is None else "zero" if case["theta"] == 0 else "angle"))
        run("shift", case, O.oracle_shift_general)
    fs = None
    for i in range(ctx.budget(150, 2500) * mult("fit")):
        case = O.gen_fit(r)
        ctx.dist("fit/sign(C10)=%s" % ("+" if case["C10"] > 0 else "-"))
        run("fit", case, O.oracle_fit)
        fs = fs or {"kind": "fit", "case": case}
    ctx.sample(fs)
    fs = None
    for i in range(ctx.budget(200, 3000) * mult("fit2")):
        case = O.gen_fit2(r)
        ctx.dist("fit2/domain=%s" % case["domain"])
        ctx.dist("fit2/mask=%s" % case["mask"]["kind"])
        ctx.dist("fit2/grid=%s" % ("odd" if case["gpts"][0] % 2 else "even"))
        run("fit2", case, O.oracle_fit2)
        fs = fs or {"kind": "fit2", "case": case}
    ctx.sample(fs)
    ctx.log("oracle on the implementation (%s budget%s): failures by family %s"
            % ("10x" if escalate else "tier", ", aimed at %s" % sorted(focus) if focus else "", stats or "none"))


ORACLES = ["surface", "conversions", "merge", "fit", "equivalence", "reps", "shift", "fit2"]


def replay_case(ctx, rp, report=False):
    from .. import oracle_C12 as O
    kind, case = rp.get("kind"), rp.get("case")
    fn = {"surface": O.oracle_surface, "conversions": O.oracle_conversions, "merge": O.oracle_merge, "fit": O.oracle_fit,
          "equivalence": O.oracle_equivalence, "reps": O.oracle_reps, "shift": O.oracle_shift_general,
          "fit2": O.oracle_fit2, "junk": O.oracle_junk}.get(kind)
    if fn is None:
        return None
    res = fn(case)
    if res and report:
        ctx.violation(res[0], res[1], {"kind": kind, "case": case})
    return res


# ==========================================================================================


def corpus(ctx):
    p = VERIF / "corpus" / "C12" / "corpus.json"
    return json.loads(p.read_text()) if p.exists() else {}


def run(ctx: Ctx):
    ctx.hash_sources("diffractive_imaging/complex_probe.py",
                     ["standardize_aberration_coefs", "aberration_surface", "aberration_surface_polar_gradients",
                      "aberration_surface_cartesian_gradients", "_passively_rotate_grid", "spatial_frequencies",
                      "polar_coordinates", "polar_to_cartesian_aberrations", "cartesian_to_polar_aberrations",
                      "merge_aberration_coefficients", "parse_cartesian_aberration_label",
                      "aberration_surface_cartesian_basis"])
    ctx.hash_sources("diffractive_imaging/direct_ptycho_utils.py", ["fit_aberrations_from_shifts", "_torch_polar"])
    ctx.hash_sources("diffractive_imaging/direct_ptychography.py", ["DirectPtychography._return_lateral_shifts"])
    ctx.hash_sources("diffractive_imaging/probe_models.py", ["ProbeBase.probe_params"])
    ctx.hash_sources("core/utils/validators.py", ["validate_aberration_coefficients", "validate_dict_keys"])
    ctx.cov["rule"] = (
        "oracle cases: (coefficient dictionary [all 25 polar symbols / random subset / one (C, phi) pair / low order / "
        "principal domain], 24 random (alpha, phi) points, wavelength) for gradients (autograd) and polar-vs-basis; "
        "(Cartesian set, principal-domain polar set) for the conversions; (polar init, Cartesian delta) for the merge; "
        "(theta, C10 of either sign, C12 < |C10|, phi12, grid, sampling, mask radius) for shift matrix and fit; alias "
        "dictionaries [flat / nested aberration_coefs / defocus only / defocus and C10 in both orders / None values / "
        "invalid keys, dyadic values, max order 5/3/1/None] run through all three handlers and the Coq model; plus the "
        "translator cross-test points (one per generated function, label and component).  A case is distinct by its full "
        "content; alias cases count as non-trivial when at least one item carries a number.  Round 3: coefficient sets "
        "OUTSIDE the principal domain (negative magnitudes, angles of several turns, m*phi = +-pi) for the surface / "
        "gradient oracle and for the equivalence oracle (polar -> Cartesian -> polar keeps surface, gradients; magnitudes "
        "|C|, angles in (-pi, pi]); coefficient values as float / NumPy scalar / 0-d and 1-element tensors of either "
        "precision; the naming tables at run time vs source text, every ABERRATION_PRESETS entry (label parsing, basis "
        "columns), labels of invalid kind; lateral shifts with ANY coefficient set x rotation (None / 0 / angle) x grid "
        "(odd / even, non-square) x anisotropic sampling x bright-field mask shape [centred disk with or without the "
        "centre pixel / half disks / quadrant / off-axis sub-disk / annulus / random subset] against autograd; the fit "
        "on all those masks in the domains inside / pure defocus / |theta| > pi/2 / even orders added on an "
        "inversion-symmetric mask / indefinite (recorded only); the probe-params setter assigned 2-4 times on one "
        "object (stand-in namespace and real ProbePixelated); alias values as bool / NumPy / tensor / numeric string; "
        "non-numeric values; HyperparameterState")
    ctx.assumptions += [
        "torch float64/float32 arithmetic, torch.cos/sin/sqrt/atan2/remainder and math.cos/sin are the real functions to "
        "rounding (exercised by the cross-test on every run)",
        "torch.linalg.lstsq returns the exact solution when the shifts are exactly linear in the frequencies; torch.linalg.svd "
        "returns orthogonal U, Vh and non-negative singular values with M = U diag(S) Vh (hypotheses of C12_svd_polar / "
        "C12_fit_extracts_svd; exercised numerically by the fit round trip)",
        "tensors are read pointwise (broadcasting, boolean-mask selection and device moves do not change values)",
        "dictionary values handed to the alias handlers are None, (probe_params) nested dictionaries, or anything float() "
        "converts (int, float, bool, NumPy scalar, one-element tensor, numeric string) - read by the model as that number; "
        "values float() rejects are covered by the oracle only (every handler must raise)",
        "torch.linalg.lstsq returns the least-squares solution (normal equations): the oracle-only clause 'even-order "
        "aberrations do not change the fit on an inversion-symmetric mask' rests on it",
    ]
    ctx.cov["trusted_base"] += [
        "Coq 8.16.1 kernel incl. vm_compute (runs the alias-handler model)",
        "Coquelicot 3.x (is_derive, auto_derive) and the Coq standard-library reals (classical axioms listed per theorem); "
        "Interval tactic only in the translator cross-test",
        "harness/translate_chi.py (Python ast -> Coq; fail closed; cross-tested with `interval` enclosures and by float "
        "evaluation of its IR at every run) and the vocabulary coq/lib/C12_RealLib.v (atan2, torch.remainder, 2x2 matrices)",
        "hand-written alias-handler model coq/model/C12_Model.v tied to /repo by the correspondence run",
        "harness/props/C12.py, harness/oracle_C12.py, harness/xt_C12.py (generators, tolerances, Python->Coq printers), "
        "harness/common.py",
    ]
    from .. import xt_C12 as X
    ph = ProofPhase(ctx)
    ph.start()                                   # static alias theorems; translate; Gen_Chi.v; fixed scripts started
    ctx.log("translated: %s; generated file %s" % (ctx.cov.get("translator", {}).get("status"),
                                                   "compiles" if ph.gen_ok else "NOT compiled"))
    xt = None
    if ph.T is not None:
        bad = X.evalf_check(ctx.rng, ph.T, ctx.budget(60, 600))
        ctx.cov["translator_ir_float_check"] = {"points": ctx.budget(60, 600) * 8, "mismatches": len(bad)}
        ctx.cov["evaluations"] += ctx.budget(60, 600) * 8
        if bad:
            ctx.violation("translator-ir-evaluation",
                          "float evaluation of the translator's IR differs from the implementation at %d points; first: %s: "
                          "IR %r, implementation %r" % (len(bad), bad[0][0][:300], bad[0][1], bad[0][2]),
                          {"kind": "crosstest", "label": bad[0][0]}, found_input=False)
    if ph.T is not None and ph.gen_ok:
        P = X.build_points(ctx.rng, ph.T, n_env=ctx.budget(2, 4), n_pt=ctx.budget(2, 4), n_fit=ctx.budget(2, 8))
        xt = CrossTest(ctx, ph.T, P)
        xt.start()
    check_alias(ctx, model_available=(COQ / "model" / "C12_Model.vo").exists())
    # the oracle runs while the fixed proof scripts are still being checked; when one of them turns out to fail,
    # a second, escalated pass aimed at the families of the failing lemma follows
    early = (ph.T is None) or (not ph.gen_ok) or bool(ph._static_problems)
    check_oracle(ctx, early, T=ph.T)
    fixed_ok = ph.join_fixed()
    ctx.log("fixed proof scripts: %s" % ("all check" if fixed_ok else "FAILED " + ", ".join(ph.failed_scripts)))
    if ph.gen_ok and not fixed_ok:
        focus = focus_families(ph.failed_scripts)
        ctx.log("failing lemma(s) %s -> failing-input search aimed at the oracle families %s" % (ph.failed_scripts, focus))
        check_oracle(ctx, True, focus=focus, T=ph.T)
    if xt is not None:
        finish_crosstest(ctx, xt)
    ph.finish()


def replay(ctx: Ctx, path):
    from .. import oracle_C12 as O
    rp = json.loads(open(path).read())
    kind = rp.get("kind")
    if kind == "tables":
        bad = O.oracle_tables(None)
        for key, what, _ in bad:
            print("%s: %s" % (key, what))
        print("oracle:", "tables violate the property" if bad else "property holds on the tables")
        return 1 if bad else 0
    if kind == "setter-sequence":
        c = rp["case"]
        real = bool(c.get("real_object"))
        got = O.run_setter_seq(c["steps"], c["max_order"], real_object=real)
        fresh = [O.run_setter(d, c["max_order"], real_object=real) for d in c["steps"]]
        bad = O.oracle_setter_seq(c, got, fresh)
        for d, g, f in zip(c["steps"], got, fresh):
            print("assign", d, "->", g, "| fresh object:", f)
        print("oracle:", "%s: %s" % bad if bad else "property holds on this case")
        return 1 if bad else 0
    if kind in ORACLES + ["junk"]:
        res = replay_case(ctx, rp)
        print("case:", json.dumps(rp["case"])[:2000])
        print("oracle:", "%s: %s" % res if res else "property holds on this case")
        return 1 if res else 0
    if kind == "alias":
        c = rp["case"]
        res = run_handlers(c)
        bad = O.oracle_alias(c, res)
        print("dictionary:", c["dict"], "max_order:", c["max_order"])
        print("implementation:", res)
        try:
            ex = handler_exprs(c)
            raw = ctx.coq_eval("replay", PRE, [e for _, e in ex], shard=10, parse=False)
            for (h, _), v in zip(ex, raw):
                m = model_result(parse_coq_value(re.sub(r"\s+", " ", re.sub(r"%\w+", "", v))))
                print("model %s:" % h, {k: ({kk: float(vv) for kk, vv in x.items()} if isinstance(x, dict) else x)
                                        for k, x in m.items()}, "agrees" if same_result(m, res[h]) else "DISAGREES")
                if not same_result(m, res[h]):
                    bad = bad or ("alias-correspondence", "model and implementation disagree")
        except RuntimeError as e:
            print("model could not be evaluated:", str(e)[-400:])
        print("oracle:", "%s: %s" % bad if bad else "property holds on this case")
        return 1 if bad else 0
    print("replay of kind %r: re-run ./check C12 (the replay file names the obligation / cross-test point that no longer "
          "checks)" % kind)
    print(rp.get("what", ""))
    return 0
