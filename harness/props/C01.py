"""C01 — serializer round-trip fidelity.  Theorems: coq/props/C01_Properties.v.

Tie: generated object graphs are built as real AutoSerialize graphs, saved with the real `save`
(store, compression, str/Path target, write mode varied), the written zarr store is walked into
a canonical tree and the object is loaded with the real `load`.  Inside one vm_compute per case:
  enc : node_eqb (save_file [] [] v) observed_store
  dec : load_file [] [] observed_store  =  loaded object (as a value)
  thm : load_file (save_file v) = norm v            (the theorem instance; wf_obj v must hold)
  rt  : norm v = loaded object
Oracle (the property text on the real objects): vars()-graph equality after save/load, dtype- and
shape-exact; second save/load is a fixed point; zip and dir stores hold the same tree and load
the same object."""
from __future__ import annotations

import json

from ..common import Ctx
from .. import gen_C01 as G

PRE = """From QV.lib Require Import Prelude.
From QV.model Require Import C01_Model.
From Coq Require Import String.
Local Open Scope string_scope.
Definition chk01 (v : value) (obs : node) (ld : value) :=
  [wf_obj v; node_eqb (save_file [] [] v) obs; res_eqb (load_file [] [] obs) (RVal ld);
   res_eqb (load_file [] [] (save_file [] [] v)) (RVal (norm v)); value_eqb (norm v) ld].
Definition chk_enc (v : value) (obs : node) := [wf_obj v; node_eqb (save_file [] [] v) obs].
(* second save of the loaded object (fixed point): the store it writes is the model's store of the loaded object, the
   model's own save/load of it is a fixed point, loading the real second store gives the loaded object again; the
   other store (zip <-> dir) holds the model's tree *)
Definition chk01x (v : value) (obs : node) (ld : value) (o2 : option (value * node * value)) (o3 : option node) :=
  (chk01 v obs ld
  ++ match o2 with
     | Some (ld_s, obs2, ld2) => [node_eqb (save_file [] [] ld_s) obs2; res_eqb (load_file [] [] (save_file [] [] ld_s)) (RVal ld);
                                  res_eqb (load_file [] [] obs2) (RVal ld2); value_eqb ld ld2]
     | None => [] end
  ++ match o3 with Some obs3 => [node_eqb (save_file [] [] v) obs3] | None => [] end)%list.
(* outside the quantified domain, where the model still predicts the behaviour: load raises *)
Definition chk_out (v : value) (obs : node) := [wf_obj v; node_eqb (save_file [] [] v) obs; res_eqb (load_file [] [] obs) RErr].
Definition disp (v : value) := (map (fun g => g v) guards, Z.of_nat (dispatch v), Z.of_nat (intended v), types_of v, abcs_of v).
"""

ASSUMPTIONS = [
    "zarr/blosc/zipfile: an array or attribute map written to a LocalStore (and zipped/unzipped) reads back with the "
    "same dtype, shape, bytes and JSON values (exercised on every case by walking the written store; not proved)",
    "torch.load(torch.save(x)) returns an object of the same class, dtype, shape, data and requires_grad (exercised: "
    "the stored payload is loaded by the harness and its content id compared; not proved)",
    "dill.loads(gzip.decompress(gzip.compress(dill.dumps(x)))) == x for the fallback kind (exercised on complex)",
    "a user ndarray of dtype uint8 is never a valid gzip stream of a dill pickle (the arrays loop of _recursive_load "
    "tries to unpickle every array)",
    "an attrs-decorated class is modelled as a plain object whose attributes are its declared fields (what "
    "_recursive_save iterates); attributes outside the declared fields and __attrs_post_init__ are not modelled",
    "a SummaryWriter is modelled by what the serializer stores and restores (log_dir, max_queue, flush_secs, "
    "filename_suffix); the event files it writes are not part of the object graph",
]
TRUSTED = [
    "Coq 8.16.1 kernel incl. vm_compute (used to run the model); no native_compute",
    "hand-written model coq/model/C01_Model.v (of the code WITH fixes/C01-*.diff applied) tied to the working tree "
    "by this correspondence run",
    "harness/impl_C01.py (alpha: real object -> value term, walk: zarr store -> node term, oracle), "
    "harness/gen_C01.py (generators), harness/props/C01.py, harness/common.py",
    "content identifiers: arrays, tensors, modules, optimizers are compared through sha1 prefixes of their bytes",
]


# pool graphs that also go through an object history across saves (every kind that owns mutable state)
HIST_POOL = {"tensors", "modules", "optimizers", "nesting", "array-dtypes", "numeric-mixes", "attrs-classes-0", "rng-in-containers",
             "torch-containers"}


def _history(r, case, depth=2, width=3, p=0.6):
    """overwrite history of a mode-'o' case: with probability p the target holds an EARLIER save of a different graph
    (70% an earlier state of the same graph, 30% an unrelated graph over the same name pool) instead of junk"""
    if case["cfg"]["mode"] == "o" and r.random() < p:
        if r.random() < 0.7:
            case["prev_spec"], case["history"] = G.gen_prev(r, case["spec"]), "earlier-state"
        else:
            case["prev_spec"], case["history"] = G.gen_obj(r, depth, width), "unrelated-graph"
        case["cfg"]["prev_compression"] = r.choice([None, 0, 4, 9])
    return case


def gen_cases(ctx: Ctx):
    r = ctx.rng
    cases = []
    n = 0
    for label, spec in G.special_pool():
        cfg = G.gen_cfg(r)
        cases.append(_history(r, {"id": "p%03d" % n, "prop": "C01", "label": label, "spec": spec, "cfg": cfg, "dispatch": True,
                      "fixpoint": True, "other_store": dict(G.gen_cfg(r), store="dir" if cfg["store"] == "zip" else "zip", mode="w"),
                      "known_limit": False}))
        if label in HIST_POOL:
            # always-run object histories: the live graph is changed in place and saved again, twice
            cases[-1]["hist"] = G.gen_hist(r, rounds=2)
        n += 1
    # always-run overwrite histories: each graph is saved over an earlier, larger state of itself (every container and
    # object extended, every array re-filled), once per store; the other store goes through the same history
    for label, spec in G.history_pool():
        for store in ("dir", "zip"):
            cfg = dict(G.gen_cfg(r), store=store, mode="o", prev_compression=r.choice([None, 0, 4, 9]))
            cases.append({"id": "h%03d" % n, "prop": "C01", "label": label, "spec": spec, "cfg": cfg, "dispatch": False,
                          "fixpoint": True, "other_store": dict(G.gen_cfg(r), store="dir" if store == "zip" else "zip", mode="o"),
                          "known_limit": False, "prev_spec": G.gen_prev(r, spec, p_ext=1.0), "history": "earlier-state"})
            n += 1
    for label, spec in G.oracle_only_pool():
        cfg = G.gen_cfg(r)
        cases.append({"id": "o%03d" % n, "prop": "C01", "label": label, "spec": spec, "cfg": cfg, "dispatch": False,
                      "fixpoint": True, "other_store": None, "known_limit": False})
        n += 1
    for label, spec in G.known_limit_pool():
        cases.append({"id": "k%03d" % n, "prop": "C01", "label": label, "spec": spec, "cfg": G.gen_cfg(r), "dispatch": False,
                      "fixpoint": False, "other_store": None, "known_limit": True})
        n += 1
    for label, spec in G.outside_pool():
        cases.append({"id": "x%03d" % n, "prop": "C01", "label": label, "spec": spec, "cfg": G.gen_cfg(r), "dispatch": False,
                      "fixpoint": False, "other_store": None, "known_limit": False, "outside": True})
        n += 1
    n_rand = ctx.budget(70, 1500)
    for j in range(n_rand):
        depth = r.choice([1, 2, 2, 3]) if ctx.quick else r.choice([1, 2, 3, 3, 4, 5])
        width = r.choice([2, 3, 4]) if ctx.quick else r.choice([2, 3, 4, 6, 8])
        spec = G.gen_obj(r, depth, width)
        cfg = G.gen_cfg(r)
        # thorough tier: second save/load (fixed point) and the other store for EVERY case
        cases.append(_history(r, {"id": "r%04d" % j, "prop": "C01", "label": "graph", "spec": spec, "cfg": cfg, "dispatch": j % 4 == 0,
                      "fixpoint": j % 3 == 0 or not ctx.quick,
                      "other_store": dict(G.gen_cfg(r), store="dir" if cfg["store"] == "zip" else "zip", mode="w")
                      if (j % 3 == 1 or not ctx.quick) else None,
                      "known_limit": False}, depth, width))
        if j % 3 == 2:
            # a third of the random graphs: object history across saves (1-2 rounds of in-place changes + another save)
            cases[-1]["hist"] = G.gen_hist(r)
    return cases


def _classes_in(spec, acc):
    if spec[0] == "obj":
        acc.append(spec[1])
        for _, v in spec[2]:
            _classes_in(v, acc)
    elif spec[0] in ("list", "tuple", "set"):
        for v in spec[1]:
            _classes_in(v, acc)
    elif spec[0] == "dict":
        for _, v in spec[1]:
            _classes_in(v, acc)
    return acc


def report(ctx: Ctx, case, res, key, msg, found_input=True, shrink=True, rec=None):
    """one violation: shrink a random graph first, then hand it to the framework"""
    rp_case = case
    if shrink and found_input and case.get("label") == "graph" and key not in ctx._seen_keys:
        try:
            rp_case = G.shrink(case, key)
        except Exception:  # noqa
            rp_case = case
    rp = {"kind": "case", "case": rp_case, "original_case_id": case["id"], "notes": res.get("notes"),
          "diffs": (rec["diffs"] if rec else res.get("diffs"))[:8]}
    if rec:
        rp["history_round"], rp["history_ops_of_original_case"] = rec["round"], rec["ops"][:40]
    ctx.violation(key, msg, rp, found_input=found_input)


def run(ctx: Ctx):
    ctx.hash_sources("core/io/serialize.py", [
        "AutoSerialize.save", "AutoSerialize._serialize_value", "AutoSerialize._recursive_save",
        "AutoSerialize._recursive_load", "AutoSerialize._serialize_container", "AutoSerialize._deserialize_container",
        "AutoSerialize._write_ndarray", "AutoSerialize._array_to_np", "AutoSerialize._write_bytes",
        "AutoSerialize._convert_string_to_path_if_needed", "AutoSerialize._is_numeric_scalar", "load"])
    ctx.cov["rule"] = (
        "cases: object-graph specs [hand-picked pool: every value kind of the property with its edge values (sets, 0-d and "
        "empty arrays of every dtype family, numeric mixes, nan/inf, 2**62, paths/dicts/objects inside containers, tensors, "
        "modules incl. ModuleList/Sequential/ParameterList as attributes and inside containers, optimizers, rngs of every bit "
        "generator as attributes and inside list/tuple/dict/set, Python and NumPy complex (dill fallback) as attributes and inside "
        "containers, loggers, attrs-decorated classes with and without slots) + oracle-only pool (SummaryWriter) + known-limit pool "
        "+ outside-domain pool (optimizer/scheduler inside containers: model agreement recorded) + seeded random graphs (depth<=3/"
        "width<=4 quick, depth<=5/width<=8 thorough; 12% attrs classes)], each with a random (store, compression in {None,0..9}, "
        "str|Path target, mode w|o; 60% of the mode-o cases are written over an EARLIER SAVE OF A DIFFERENT GRAPH at the same target "
        "- 70% an earlier state of the same graph (containers/objects with more children, arrays with other contents or shapes, "
        "non-zero where the later array is all fill value, members of another storage kind), 30% an unrelated graph - the rest over "
        "junk; two always-run histories per store); second save/load of the loaded object and the other store for every pool case, a third of the "
        "random quick cases and every thorough case; OBJECT HISTORIES ACROSS SAVES for a third of the random graphs and 9 pool graphs: the same live "
        "graph is changed in place after its first save (tensor / module / optimizer / generator / ndarray contents through every write path incl. "
        ".data and shared NumPy views, re-assignment with any value kind, append / insert / pop, key / attribute creation and deletion, set add / "
        "discard; each value touched with probability 0.25-0.6, stateful ones twice as often) and saved again 1-2 times (same target mode 'o' or a new "
        "target, any store / compression), every file must load to the state at ITS save; a case is distinct by (spec, configuration, history) and non-trivial when the graph has "
        ">= 4 values")
    ctx.assumptions += ASSUMPTIONS
    ctx.cov["trusted_base"] += TRUSTED
    ctx.proofs_or_violation()
    # source tie: serialize.py is translated NOW and proved equal to what the model assumes (harness/c01_tie.py)
    from ..c01_tie import run_tie
    ctx.tie_ok = run_tie(ctx)
    try:
        _run(ctx)
    finally:
        G.shutdown()


def _run(ctx: Ctx):
    cases = gen_cases(ctx)
    ctx.log("running %d cases on the implementation" % len(cases))
    results = G.run_cases(cases)
    ctx.log("implementation runs done")
    exprs, idx, disp_rows = [], [], []
    n_fix = n_other = n_hist = 0
    known_seen = {}
    for case, res in zip(cases, results):
        if res.get("harness_exc"):
            raise RuntimeError("harness failure on case %s: %s" % (case["id"], res["harness_exc"]))
        cfg = case["cfg"]
        for k, v in res["stats"].items():
            ctx.dist("kind/" + k, v)
        ctx.dist("store/" + cfg["store"])
        ctx.dist("compression/%s" % cfg["compression"])
        ctx.dist("target/" + ("Path" if cfg["as_path"] else "str"))
        ctx.dist("mode/" + cfg["mode"])
        ctx.dist("overwrite-history/" + (("%s/%s" % (case["history"], cfg["store"])) if case.get("prev_spec") else
                                         "junk-at-target" if cfg["mode"] == "o" else "fresh-target"))
        ctx.dist("source/" + ("known-limit" if case["known_limit"] else "outside-pool" if case.get("outside") else
                              "pool" if case["label"] != "graph" else "random"))
        for cls in set(_classes_in(case["spec"], [])):
            ctx.dist("class/" + cls)
        ctx.dist("depth/%d" % G.spec_depth(case["spec"]))
        n_fix += bool(res.get("fixpoint_done"))
        n_other += bool(res.get("other_done"))
        ctx.count(G.case_hash(case), nontrivial=G.spec_size(case["spec"]) >= 4)
        # ---- oracle
        if case["known_limit"]:
            if res["diffs"]:
                known_seen.setdefault(case["label"], []).append(res["diffs"][0][1])
                ctx.violation(case["label"], "%s: %s" % (case["label"], res["diffs"][0][1]),
                              {"kind": "case", "case": case, "diffs": res["diffs"][:4]})
            else:
                ctx.expect_known(case["label"])
        elif case.get("outside"):
            pass                    # outside the quantified domain by construction: only model agreement is recorded
        elif not res["v"]:
            # no model term to decide wf_obj with: report at once
            for key, msg in res["diffs"]:
                report(ctx, case, res, key, "round trip differs [%s]: %s" % (case["id"], msg))
        # (oracle differences of the other cases are reported below, once the model has said whether the
        #  graph is inside the quantified domain wf_obj)
        # ---- correspondence expressions
        if case.get("outside"):
            if res["v"] and res["obs"]:
                exprs.append("chk_out %s %s" % (res["v"], res["obs"]))
                idx.append((case, res, "out"))
        elif res["v"] and res["obs"] and res["ld"]:
            o2 = "(Some (%s, %s, %s))" % (res["ld_s"], res["obs2"], res["ld2"]) if res.get("obs2") and res.get("ld2") and res.get("ld_s") else "None"
            o3 = "(Some %s)" % res["obs3"] if res.get("obs3") else "None"
            res["_extra"] = (["second-store", "model-fixpoint", "second-decode", "second-load-equal"] if o2 != "None" else []) + \
                            (["other-store"] if o3 != "None" else [])
            exprs.append("chk01x %s %s %s %s %s" % (res["v"], res["obs"], res["ld"], o2, o3))
            idx.append((case, res, "full"))
        elif res["v"] and res["obs"]:
            exprs.append("chk_enc %s %s" % (res["v"], res["obs"]))
            idx.append((case, res, "enc"))
        elif res["v"]:
            # save() raised before a store existed: only the domain question is asked of the model
            exprs.append("[wf_obj %s]" % res["v"])
            idx.append((case, res, "wf"))
        # ---- object history across saves: one model evaluation per later save of the same live graph
        if case.get("hist"):
            ctx.dist("object-history/cases")
        for rec in res.get("hist", []):
            n_hist += 1
            ctx.dist("object-history/save-%d/%s/%s" % (rec["round"] + 1, rec["target"] + "-target", rec.get("cfg", {}).get("store", "?")))
            for op in rec["ops"]:
                ctx.dist("object-history/op/" + op.split(": ", 1)[1].split(" (")[0].split(" 0x")[0][:40].rstrip("0123456789.-' "))
            if not rec["v"]:
                for key, msg in rec["diffs"]:
                    report(ctx, case, res, key, "round trip differs [%s]: %s" % (case["id"], msg), rec=rec)
            elif rec["obs"] and rec["ld"]:
                exprs.append("chk01 %s %s %s" % (rec["v"], rec["obs"], rec["ld"]))
                idx.append((case, res, "hist", rec))
            else:
                exprs.append("[wf_obj %s]" % rec["v"])
                idx.append((case, res, "hist", rec))
        disp_rows.extend(res["disp"])
    ctx.dist("runs/object-history-saves", n_hist)
    ctx.dist("runs/fixpoint", n_fix)
    ctx.dist("runs/other-store", n_other)
    ctx.log("oracle done; %d model evaluations" % len(exprs))
    vals = ctx.coq_eval("rt", PRE, exprs, shard=12, timeout=900)
    nd = 0
    n_outside, outside_samples, outside_pool = 0, [], []
    for ent, v in zip(idx, vals):
        case, res, mode = ent[:3]
        rec = ent[3] if len(ent) > 3 else None
        diffs = rec["diffs"] if rec else res["diffs"]
        ctx.cov["traces_validated_against_impl"] += 1
        oracle_failed = bool(diffs)
        wf = v[0]
        if case["known_limit"]:
            # outside the theorem's domain, or a codec limit the model does not describe: only recorded
            ctx.dist("known-limit/wf=%s" % wf)
            continue
        if mode == "out":
            raised = any("load-raises" in k for k, _ in res["diffs"])
            agrees = (not wf) and bool(v[1]) and (bool(v[2]) == raised) and raised
            ctx.dist("outside-pool/" + ("model-agrees" if agrees else "model-differs"))
            outside_pool.append({"case": case["label"], "wf": wf, "store_matches_model": v[1], "model_load_is_error": v[2],
                                 "real_load_raised": raised})
            continue
        names = (["wf", "encode", "decode", "model-roundtrip", "roundtrip"] + res.get("_extra", []))[:len(v)]
        if not wf:
            # outside the quantified domain (wf_obj = the property's quantifier minus the listed known
            # findings, each of which has its own always-run case in the known-limit pool): the random
            # stream and the shrinker can wander there (e.g. an all-numeric sequence mixing a float with an
            # int beyond 2**53, or an int beyond int64); neither the oracle nor the theorems speak about it
            n_outside += 1
            ctx.dist(("object-history/" if rec else "") + "outside-domain/" + ("oracle-differs" if oracle_failed else "round-trips"))
            if len(outside_samples) < 5:
                outside_samples.append({"case": case["id"], "oracle": [d[1][:160] for d in diffs[:2]]})
            continue
        for key, msg in diffs:
            report(ctx, case, res, key, "round trip differs [%s]: %s" % (case["id"], msg), rec=rec)
        for nm, ok in zip(names[1:], v[1:]):
            if not ok:
                nd += 1
                ctx.cov["disagreements_checked"] += 1
                what = {"second-store": "the store written by the second save (of the loaded object) differs from the model's save_file of the loaded object",
                        "model-fixpoint": "the model's save/load of the loaded object is not the loaded object (fixed-point theorem instance false)",
                        "second-decode": "load() of the second store differs from the model's load_file on it",
                        "second-load-equal": "the object loaded from the second store differs from the first loaded object (fixed point, as model values)",
                        "other-store": "the other store (zip <-> dir) holds a tree that differs from the model's save_file",
                        "encode": "the store written by save() differs from the model's save_file",
                        "decode": "load() of the written store differs from the model's load_file on the same store",
                        "model-roundtrip": "the model's own round trip is not norm v on a wf graph (theorem instance false)",
                        "roundtrip": "the loaded object differs from norm v predicted by the model"}[nm]
                report(ctx, case, res, ("history-" if rec else "") + nm + "-correspondence", "%s [case %s, %s%s]" % (
                    what, case["id"], case["label"], ", save #%d of the same live graph after in-place changes" % (rec["round"] + 1) if rec else ""),
                       found_input=oracle_failed, shrink=False, rec=rec)
    # ---- dispatch chain and type tables against the real objects
    seen, dexprs, drows = set(), [], []
    for row in disp_rows:
        if row["term"] in seen or len(row["term"]) > 3000:
            continue
        seen.add(row["term"])
        dexprs.append("disp %s" % row["term"])
        drows.append(row)
    dvals = ctx.coq_eval("disp", PRE, dexprs, shard=60)
    # cross-test of the translator: the chain translated from the source (gen_chain under C01_TieLib.geval) against the
    # SAME tests compiled from the source AST and evaluated on the real objects (row["guards"]); _is_numeric_scalar likewise
    if getattr(ctx, "tie_ok", False):
        pre_t = PRE + ("From QV.lib Require Import C01_TieLib.\nFrom GenC01 Require Import Gen_C01Tie C01_Tie_GenProofs.\n"
                       "Definition dispg (v : value) := (map (fun e => geval e v) gen_chain, tys_ok_num v, geval gen_is_numeric v, "
                       "Z.of_nat (first_true_e gen_chain v 0)).\n")
        gvals = ctx.coq_eval("dispg", pre_t, ["dispg %s" % r["term"] for r in drows], shard=60, extra_flags=["-Q", str(ctx.dir), "GenC01"])
        n_x = 0
        for row, gv in zip(drows, gvals):
            vec, ok_dom, isnum, first = gv
            n_x += 1
            ctx.dist("source-tie-cross-test/" + ("in-domain" if ok_dom else "outside-tys_ok"))
            py_first = row["guards"].index(True) if True in row["guards"] else 15
            if not ok_dom or list(vec) != row["guards"] or bool(isnum) != row["is_numeric"] or first != py_first or not row.get("guards_from_source"):
                nd += 1
                ctx.cov["disagreements_checked"] += 1
                ctx.violation("source-tie-cross-test",
                              "the chain translated from serialize.py, evaluated by the model on the value of a real %s, differs from the source's own tests "
                              "evaluated on the object: translated=%s first=%s numeric=%s in-domain=%s; source=%s first=%s numeric=%s (compiled from source: %s)"
                              % (row["type"], vec, first, isnum, ok_dom, row["guards"], py_first, row["is_numeric"], row.get("guards_from_source")),
                              {"kind": "dispatch", "row": row}, found_input=False)
        ctx.cov["source_tie"]["cross_test_rows"] = n_x
    for row, v in zip(drows, dvals):
        gv, d, intended, tys, abcs = v
        ctx.cov["traces_validated_against_impl"] += 1
        ctx.dist("dispatch/branch-%d" % d)
        py_first = row["guards"].index(True) if True in row["guards"] else 15
        ok = list(gv) == row["guards"] and d == py_first and intended == d and tys[0] == row["mro"][0] and set(tys) == set(row["mro"] + ["builtins.object"]) \
            and set(abcs) == set(row.get("abcs", abcs))
        if not ok:
            nd += 1
            ctx.cov["disagreements_checked"] += 1
            ctx.violation("dispatch-correspondence",
                          "guards/branch/types of the model differ from _serialize_value's tests on a real %s: model guards=%s branch=%s "
                          "types=%s abcs=%s; real guards=%s first=%d mro=%s abcs=%s" % (row["type"], gv, d, tys, abcs, row["guards"], py_first, row["mro"], row.get("abcs")),
                          {"kind": "dispatch", "row": row}, found_input=False)
    for case, res in zip(cases, results):
        if not case["known_limit"] and res["v"]:
            ctx.sample({"case": case["id"], "label": case["label"], "cfg": case["cfg"], "spec": case["spec"] if G.spec_size(case["spec"]) < 12 else "(%d values)" % G.spec_size(case["spec"]),
                        "oracle_diffs": res["diffs"][:3]}, limit=4)
    ctx.cov["known_limits_reproduced"] = known_seen
    ctx.cov["outside_pool"] = {"cases": outside_pool, "meaning": "optimizers/schedulers inside containers: outside the property's value "
                               "kinds; the model predicts the written store and that load raises; agreement recorded, never judged"}
    ctx.cov["outside_domain"] = {"cases": n_outside, "of": len(idx), "samples": outside_samples,
                                 "meaning": "generated graphs the model places outside wf_obj; not judged"}
    ctx.log("correspondence: %d evaluations, %d dispatch rows, %d disagreements" % (len(exprs), len(dexprs), nd))


def replay(ctx: Ctx, path):
    from ..impl_C01 import run_case
    rp = json.loads(open(path).read())
    if rp.get("kind") != "case":
        print("replay of kind %r: re-run ./check C01" % rp.get("kind"))
        return 0
    case = rp["case"]
    case["dispatch"] = False
    res = run_case(case)
    print("spec:", json.dumps(case["spec"]))
    print("cfg:", case["cfg"])
    if case.get("prev_spec"):
        print("earlier graph saved at the same target first (then overwritten with mode 'o'):", json.dumps(case["prev_spec"]))
    for k, m in res["diffs"]:
        print("oracle: [%s] %s" % (k, m))
    bad = bool(res["diffs"])
    for rec in res.get("hist", []):
        print("object history, save #%d of the same live graph (%s target, %s) after the in-place changes:" % (
            rec["round"] + 1, rec["target"], rec.get("cfg")))
        for op in rec["ops"]:
            print("   ", op)
        for k, m in rec["diffs"]:
            print("oracle: [%s] %s" % (k, m))
        bad = bad or bool(rec["diffs"])
    if not bad:
        print("oracle: property holds on this case")
    if res.get("v") and res.get("obs") and res.get("ld"):
        v = ctx.coq_eval("replay", PRE, ["chk01 %s %s %s" % (res["v"], res["obs"], res["ld"])])[0]
        print("model: wf=%s encode=%s decode=%s model-roundtrip=%s roundtrip=%s" % tuple(v))
    for rec in res.get("hist", []):
        if rec.get("v") and rec.get("obs") and rec.get("ld"):
            v = ctx.coq_eval("replay_h%d" % rec["round"], PRE, ["chk01 %s %s %s" % (rec["v"], rec["obs"], rec["ld"])])[0]
            print("model, save #%d: wf=%s encode=%s decode=%s model-roundtrip=%s roundtrip=%s" % ((rec["round"] + 1,) + tuple(v)))
    return 1 if bad else 0
