"""C16 — Forward-model operators obey energy, adjoint and projection identities.

(a) proofs: coq/props/C16_Properties.v (abstract commutative ring with conjugation and roots of
    unity: every grid size, every index list, every number of slices / modes);
(b) oracle: every identity of the property text evaluated on the REAL operators in
    float64/complex128 (fourier_shift_expand / fourier_translation_operator, _propagate_array +
    _compute_propagator_arrays / compute_propagator_arrays, _get_obj_patches vs sum_patches(_base),
    _set_patch_indices, overlap_projection / forward_operator + DetectorPixelated.forward,
    fourier_projection / gradient_step) called on a real (toy) Ptychography object;
(c) correspondence: the binary64 instance of the Coq model (C16_Model.C16F, twiddle table from
    numpy) against the implementation on the same inputs (sizes <= 8 x 10);
(d) replay of a stored case.

Round 3: (e) the SHAPES of the kernels: the rational phases of the Coq model (C16K.ramp_phases /
    C16K.fresnel_phases, model/C16_Model_Kernel.v) against the angle of the arrays
    fourier_translation_operator / _compute_propagator_arrays build (modulo one turn, tolerance
    following the float32 phase magnitude); (f) ProbeParametric / ObjectDIP variants of the
    operators; real-valued, complex64 and non-contiguous inputs; patches wrapping around both
    axes; per-slice scatter; gradient_step energy / fixed-point identities.

Round 5: (g) argument forms of the operators' inputs (harness/c16_argforms.py, kind "argforms"): dtype / container /
    batching / layout, all identities incl. the adjoints of translation and propagation; (h) translator tie
    (harness/c16_tie.py -> build/C16/Gen_C16.v, coq/gen_proofs/C16_GenProofs.v / C16_GenProperties.v): the operators
    translated from the current source = the model's definitions, by theorem, on every run; cross-test of the translator
    against the real functions (_tie_cross_test).
"""
from __future__ import annotations

import json
import math
from fractions import Fraction

from ..common import Ctx, cfloat, cnl, cq, cz
from ..c16_argforms import case_argforms, gen_argforms

LEVEL = "proof"

PRE = ("From Coq Require Import ZArith List PrimFloat.\n"
       "From QV.lib Require Import Prelude DFT_Float.\n"
       "From QV.model Require Import C16_Model.\n"
       "Import ListNotations.\nOpen Scope list_scope.\n")

# exact rational phases of the kernel shapes (Q_scope is open there: kept apart from PRE)
PREK = ("From Coq Require Import ZArith List QArith.\n"
        "From QV.lib Require Import Prelude.\n"
        "From QV.model Require Import C16_Model C16_Model_Kernel.\n"
        "Import ListNotations.\nOpen Scope list_scope.\n")

# ---------------------------------------------------------------------------------- tolerances
TOL_EXACT = 1e-11        # float64 identities (relative to the stated scale)
TOL_F32GRID = 1e-5       # integer translation = roll: the ramp is built from a float32 frequency grid
TOL_C64 = 2e-5           # anything through the complex64 propagator arrays (unit modulus to ~1e-7)
TOL_C64_ADD = 2e-4       # p(d1) p(d2) = p(d1 + d2): float32 rounding of phases up to ~40 rad
TOL_MIXED = 1e-6         # mixed-state projection: the code adds eps = 1e-9 to every Fourier coefficient
EST_FLOOR = 1e-2         # "where the estimate is non-zero", with margin for that eps
TOL_PIPE = 2e-4          # whole pipeline in the library's own complex64
TOL_C64_IN = 2e-5        # complex64 INPUT arrays through a float64 operator (fft in single precision)
# phase of the ramp (turns): the frequency grid / the product -2 pi i k are rounded to float32, measured
# <= 4.6e-8 (1 + |s|) over 400 random ramps
TOL_RAMP_TURNS = 4e-7
# phase of the Fresnel kernel (radians): evaluated in float32 / complex64, so its error follows the phase
# magnitude; measured <= 2.1 (1e-6 + eps32 |phase|) over 1500 kernels incl. low energy on fine grids
TOL_KERNEL_RAD0 = 1e-5
TOL_KERNEL_REL = 8 * 1.2e-7

SHAPES_ORACLE = [(4, 4), (5, 5), (4, 6), (5, 6), (6, 5), (7, 5), (5, 8), (8, 10), (9, 6), (7, 9), (3, 11),
                 (12, 7), (10, 16), (13, 8), (16, 16), (15, 15), (2, 9), (1, 6), (6, 1)]
SHAPES_COQ = [(4, 4), (5, 5), (4, 6), (5, 6), (6, 5), (7, 5), (5, 8), (8, 10), (3, 7), (7, 4), (6, 9), (2, 5),
              (8, 3), (1, 6)]
SHAPES_TOY = [(4, 4), (5, 5), (4, 6), (5, 6), (6, 5), (7, 5), (5, 8), (8, 10), (9, 6), (7, 9), (6, 8), (3, 7)]


# ---------------------------------------------------------------------------------- environment
class Env:
    """lazy imports + a cache of real (toy) Ptychography objects used as `self` of the methods"""

    def __init__(self):
        import numpy as np
        import torch
        from quantem.diffractive_imaging import ptycho_utils as pu
        from .. import toy_ptycho
        self.np, self.torch, self.pu, self.toy = np, torch, pu, toy_ptycho
        self._pt = {}

    def pt(self, roi, modes=1, slices=1, obj_type="complex"):
        k = (tuple(roi), modes, slices, obj_type)
        if k not in self._pt:
            self._pt[k] = self.toy.build_toy(seed=3, scan=(2, 3), roi=tuple(roi), num_probes=modes,
                                             num_slices=slices, obj_type=obj_type, rng_seed=7)
        return self._pt[k]

    def pt_parametric(self, roi, slices=1):
        """the same toy problem with a ProbeParametric probe model (one mode: the class supports no more)"""
        k = ("parametric", tuple(roi), slices)
        if k not in self._pt:
            np = self.np
            from quantem.core.datastructures import Dataset4dstem
            from quantem.diffractive_imaging.dataset_models import PtychographyDatasetRaster
            from quantem.diffractive_imaging.detector_models import DetectorPixelated
            from quantem.diffractive_imaging.object_models import ObjectPixelated
            from quantem.diffractive_imaging.probe_models import ProbeParametric
            from quantem.diffractive_imaging.ptychography import Ptychography
            data, _probe, _obj, _lam = self.toy.simulate(3, (2, 3), tuple(roi), 2.0, 0.5, 80e3, 20.0, 50.0)
            d = Dataset4dstem.from_array(data.astype(np.float32), sampling=(2.0, 2.0, 1.0 / (roi[0] * 0.5), 1.0 / (roi[1] * 0.5)),
                                         units=("A", "A", "A^-1", "A^-1"))
            pd = PtychographyDatasetRaster.from_dataset4dstem(d, verbose=0)
            pd.preprocess(com_fit_function="no_shift", plot_rotation=False, plot_com=False, probe_energy=80e3,
                          force_com_rotation=0, force_com_transpose=False)
            om = ObjectPixelated.from_uniform(num_slices=slices, slice_thicknesses=None if slices == 1 else 2.0,
                                              obj_type="pure_phase")
            pm = ProbeParametric.from_params(probe_params={"energy": 80e3, "defocus": 50.0, "semiangle_cutoff": 20.0})
            pt = Ptychography.from_models(dset=pd, obj_model=om, probe_model=pm, detector_model=DetectorPixelated(), rng=7, verbose=0)
            pt.preprocess(obj_padding_px=(0, 0))
            self._pt[k] = pt
        return self._pt[k]

    def object_dip(self, slices, H, W, obj_type, complex_model, seed):
        """an ObjectDIP around a tiny (untrained, seeded) convolutional network"""
        torch = self.torch
        from quantem.diffractive_imaging.object_models import ObjectDIP
        dt = torch.complex64 if complex_model else torch.float32

        class Net(torch.nn.Module):
            def __init__(self):
                super().__init__()
                self.dtype = dt
                self.c = torch.nn.Conv2d(slices, slices, 3, padding=1, dtype=dt)

            def forward(self, x):
                return self.c(x)

        g = torch.Generator().manual_seed(int(seed))
        net = Net()
        with torch.no_grad():
            for prm in net.parameters():
                prm.copy_(torch.randn(prm.shape, generator=g, dtype=torch.float32).to(dt) * 0.4)
        inp = torch.randn((slices, H, W), generator=g, dtype=torch.float32).to(dt)
        return ObjectDIP.from_model(net, inp, num_slices=slices, slice_thicknesses=None if slices == 1 else 2.0,
                                    obj_type=obj_type, input_noise_std=0.0, rng=3)


def wavelength_A(energy_eV):
    """relativistic electron wavelength (Angstrom), CODATA constants; independent of the library"""
    m, e, c, h = 9.1093837015e-31, 1.602176634e-19, 299792458.0, 6.62607015e-34
    return h / math.sqrt(2 * m * e * energy_eV) / math.sqrt(1 + e * energy_eV / (2 * m * c ** 2)) * 1e10


FIX = 1 << 64


def _turn_diff(got_turns, want_fix):
    """| got - want | modulo one turn, element-wise; want given as floor(phase * 2^64) (exact integers from Coq)"""
    import numpy as np
    want = np.array([[float(Fraction(int(w) % FIX, FIX)) for w in row] for row in want_fix], dtype=np.float64)
    if want.shape != got_turns.shape:
        return None
    return np.abs((got_turns - want + 0.5) % 1.0 - 0.5)


def _dec(x):
    """the generator's parameters are short decimals: hand the model that decimal exactly (the float64 the
    implementation receives differs from it by 1e-16 relative, far below the float32 tolerance)"""
    return Fraction(repr(float(x)))


def _strided(E, a, backend):
    """the same values as a non-contiguous view (every other column of a wider buffer)"""
    np = E.np
    a = np.asarray(a)
    big = np.zeros(a.shape[:-1] + (2 * a.shape[-1],), dtype=a.dtype)
    big[..., ::2] = a
    if backend == "torch":
        v = E.torch.as_tensor(big)[..., ::2]
        assert not v.is_contiguous() or a.shape[-1] <= 1
        return v
    v = big[..., ::2]
    return v


def _c(E, rng, shape, scale=1.0):
    return scale * (rng.standard_normal(shape) + 1j * rng.standard_normal(shape))


def _rel(E, got, want, scale=None):
    np = E.np
    got = np.asarray(got)
    want = np.asarray(want)
    if got.shape != want.shape:
        return float("inf")
    if got.size == 0:
        return 0.0
    d = np.abs(got - want)
    if not np.all(np.isfinite(d)):
        return float("inf")
    s = float(np.abs(want).max()) if scale is None else float(scale)
    return float(d.max()) / max(s, 1e-300)


def _t(E, a):
    return E.torch.as_tensor(a)


def _n(E, t):
    if hasattr(t, "detach"):
        return t.detach().cpu().numpy()
    return E.np.asarray(t)


# ---------------------------------------------------------------------------------- Coq printers
def _cf(z):
    z = complex(z)
    return "(%s, %s)" % (_fl(z.real), _fl(z.imag))


def _fl(x):
    x = float(x)
    if math.isnan(x):
        return "nan"
    if math.isinf(x):
        return "infinity" if x > 0 else "neg_infinity"
    h = x.hex()
    return "(%s)" % h if h.startswith("-") else h


def _l1(v):
    return "[%s]%%float" % "; ".join(_cf(z) for z in v)


def _l2(a):
    return "[%s]%%float" % "; ".join("[%s]" % "; ".join(_cf(z) for z in row) for row in a)


def _r2(a):
    return "[%s]%%float" % "; ".join("[%s]" % "; ".join(_fl(x) for x in row) for row in a)


def _sig2(a):
    return "(sig2 %s)" % _l2(a)


def _grid(E, n1, n2):
    np = E.np
    t1 = np.exp(-2j * np.pi * np.arange(n1) / n1)
    t2 = np.exp(-2j * np.pi * np.arange(n2) / n2)
    return "(Build_grid %d%%nat %s %d%%nat %s)" % (n1, _l1(t1), n2, _l1(t2))


def _zz(v):
    """(m, e) printed by fZZ -> float"""
    m, e = v
    if e == 99999:
        return float("nan") if m == 0 else (float("inf") if m > 0 else float("-inf"))
    return math.ldexp(float(m), int(e)) if abs(e) < 2000 else (0.0 if e < 0 else float("inf"))


def _pairs(val):
    """a cmp1/cmp2 result ((m,e),(m,e)) -- printed by Coq as (m, e, (m, e)) -- or a list of them -> [(err, ref)]"""
    if isinstance(val, list):
        return [_pairs(v)[0] for v in val]
    if len(val) == 3:
        return [(_zz((val[0], val[1])), _zz(val[2]))]
    return [(_zz(val[0]), _zz(val[1]))]


# ---------------------------------------------------------------------------------- the cases
# every case function returns {"fails": [(key, what)], "coq": [(label, expr, tol, kind)], "info": {...}}
# kind "cmp": expr evaluates to ((m,e),(m,e)) (or a list): max |model - impl| <= tol * max |impl|
# kind "ints": expr evaluates to a list of Z, compared for equality with info["ints"][label]


def case_translate(E, p):
    np, torch, pu = E.np, E.torch, E.pu
    rng = np.random.default_rng(p["seed"])
    n1, n2 = p["shape"]
    x = _c(E, rng, (n1, n2))
    c64 = p.get("dtype", "c128") == "c64"
    if c64:
        x = x.astype(np.complex64)
    pos = np.array(p["shifts"], dtype=np.float64)            # (P, 2)
    ish = np.array([p["int_shift"]], dtype=np.float64)
    fails, coq = [], []
    backend = p["backend"]
    conv = (lambda a: torch.as_tensor(a)) if backend == "torch" else (lambda a: np.array(a))
    strided = p.get("layout", "contig") == "strided"
    convx = (lambda a: _strided(E, a, backend)) if strided else conv
    en = float((np.abs(x.astype(np.complex128)) ** 2).sum())
    mx = float(np.abs(x).max())
    # a complex64 array is transformed in single precision: the identities hold to float32 rounding
    t_exact = TOL_C64_IN if c64 else TOL_EXACT
    t_add = TOL_C64_IN if c64 else 1e-10
    kind = "complex64" if c64 else "complex"
    if strided:
        kind += " non-contiguous"
    with torch.no_grad():
        out = _n(E, pu.fourier_shift_expand(convx(x), conv(pos)))
        ramp = _n(E, pu.fourier_translation_operator(conv(pos), (n1, n2)))
        # the operator itself: unit modulus, separable, a character of the shift
        r = float(np.abs(np.abs(ramp) - 1.0).max())
        if not r <= TOL_EXACT:
            fails.append(("translate-ramp-unit-modulus", "phase ramp of fourier_translation_operator for shape %s, shifts %s "
                          "has | |ramp| - 1 | = %.3g" % ((n1, n2), pos.tolist(), r)))
        if len(pos) >= 2:
            both = _n(E, pu.fourier_translation_operator(conv(pos[0:1] + pos[1:2]), (n1, n2)))
            r = _rel(E, ramp[0] * ramp[1], both[0], 1.0)
            if not r <= 1e-10:
                fails.append(("translate-ramp-character", "ramp(s) * ramp(t) != ramp(s + t) for shape %s, s=%s t=%s (%.3g)"
                              % ((n1, n2), pos[0].tolist(), pos[1].tolist(), r)))
        # energy
        if out.shape != (len(pos), n1, n2):
            fails.append(("translate-shape", "fourier_shift_expand of a %s array by %d positions returned shape %s"
                          % ((n1, n2), len(pos), out.shape)))
            return {"fails": fails, "coq": coq, "info": {}}
        for i in range(len(pos)):
            e2 = float((np.abs(out[i].astype(np.complex128)) ** 2).sum())
            if not abs(e2 - en) <= t_exact * en:
                fails.append(("translate-energy", "fourier_shift_expand by %s of a %s %s array changes the total intensity "
                              "%.17g -> %.17g" % (pos[i].tolist(), kind, (n1, n2), en, e2)))
                break
        # additivity: shift by s then by t = shift by s + t
        if len(pos) >= 2:
            two = _n(E, pu.fourier_shift_expand(conv(out[0]), conv(pos[1:2])))[0]
            one = _n(E, pu.fourier_shift_expand(convx(x), conv(pos[0:1] + pos[1:2])))[0]
            r = _rel(E, two, one, mx)
            if not r <= t_add:
                fails.append(("translate-additive", "shifting a %s %s array by %s then by %s differs from shifting by the sum (%.3g "
                              "of max|x|)" % (kind, (n1, n2), pos[0].tolist(), pos[1].tolist(), r)))
        # integer translation is a circular roll
        rolled = _n(E, pu.fourier_shift_expand(convx(x), conv(ish)))[0]
        want = np.roll(x, (int(ish[0, 0]), int(ish[0, 1])), axis=(0, 1))
        r = _rel(E, rolled, want, mx)
        if not r <= TOL_F32GRID + (TOL_C64_IN if c64 else 0.0):
            fails.append(("translate-integer-roll", "fourier_shift_expand of a %s %s array by the integer vector %s differs from "
                          "np.roll by %.3g of max|x|" % (kind, (n1, n2), ish[0].tolist(), r)))
        # ... and the inverse integer translation restores the array
        back = _n(E, pu.fourier_shift_expand(conv(rolled), conv(-ish)))[0]
        r = _rel(E, back, x, mx)
        if not r <= 2 * (TOL_F32GRID + (TOL_C64_IN if c64 else 0.0)):
            fails.append(("translate-inverse", "shift by %s then by its negative does not restore the array (%.3g)"
                          % (ish[0].tolist(), r)))
        # sub-pixel: shift by s then by -s restores the array
        back = _n(E, pu.fourier_shift_expand(conv(out[0]), conv(-pos[0:1])))[0]
        r = _rel(E, back, x, mx)
        if not r <= t_add:
            fails.append(("translate-inverse", "shift of a %s %s array by %s then by its negative does not restore it (%.3g)"
                          % (kind, (n1, n2), pos[0].tolist(), r)))
        # ---- real-valued input (float64): the function takes the real part of the same operator.  What the
        # property says about it: it IS the translation of the array (real part of the complex path; exact
        # for an array with zero imaginary part up to the Nyquist term), integer translations are rolls for
        # every shape, and for odd x odd shapes (no Nyquist frequency: the ramp is Hermitian) energy and
        # additivity hold as for complex input
        if not c64:
            xr = np.ascontiguousarray(x.real)
            mr = float(np.abs(xr).max())
            outr = _n(E, pu.fourier_shift_expand(convx(xr), conv(pos)))
            refc = _n(E, pu.fourier_shift_expand(conv(xr.astype(np.complex128)), conv(pos)))
            if np.iscomplexobj(outr) or outr.shape != refc.shape:
                fails.append(("translate-real-input-shape", "fourier_shift_expand of a real %s array returned dtype %s shape %s"
                              % ((n1, n2), outr.dtype, outr.shape)))
            else:
                r = _rel(E, outr, refc.real, mr)
                if not r <= 1e-10:
                    fails.append(("translate-real-input-value", "fourier_shift_expand of a REAL %s array by %s is not the real part of "
                                  "the translation of the same array given as complex (differs by %.3g of max|x|)"
                                  % ((n1, n2), pos[0].tolist(), r)))
                rr = _n(E, pu.fourier_shift_expand(convx(xr), conv(ish)))[0]
                r = _rel(E, rr, np.roll(xr, (int(ish[0, 0]), int(ish[0, 1])), axis=(0, 1)), mr)
                if not r <= TOL_F32GRID:
                    fails.append(("translate-real-input-integer-roll", "fourier_shift_expand of a REAL %s array by the integer vector %s "
                                  "differs from np.roll by %.3g of max|x|" % ((n1, n2), ish[0].tolist(), r)))
                if n1 % 2 == 1 and n2 % 2 == 1:
                    enr = float((xr ** 2).sum())
                    e2 = float((outr[0] ** 2).sum())
                    if not abs(e2 - enr) <= 1e-10 * enr:
                        fails.append(("translate-real-input-energy", "fourier_shift_expand by %s of a REAL odd-sized %s array changes the "
                                      "total intensity %.17g -> %.17g" % (pos[0].tolist(), (n1, n2), enr, e2)))
    if p.get("coq"):
        g = _grid(E, n1, n2)
        s = pos[0]
        hr = np.exp(-2j * np.pi * np.fft.fftfreq(n1) * s[0])
        hc = np.exp(-2j * np.pi * np.fft.fftfreq(n2) * s[1])
        tol = TOL_F32GRID * (1.0 + float(np.abs(s).max())) + (TOL_C64_IN if c64 else 0.0)
        coq.append(("shift", "let g := %s in C16F.cmp2 g (C16F.shift g %s %s %s) %s"
                    % (g, _l1(hr), _l1(hc), _sig2(x), _l2(out[0])), tol, "cmp"))
        hr = np.exp(-2j * np.pi * np.fft.fftfreq(n1) * ish[0, 0])
        hc = np.exp(-2j * np.pi * np.fft.fftfreq(n2) * ish[0, 1])
        coq.append(("shift-int", "let g := %s in C16F.cmp2 g (C16F.shift g %s %s %s) %s"
                    % (g, _l1(hr), _l1(hc), _sig2(x), _l2(rolled)),
                    TOL_F32GRID * (1.0 + float(np.abs(ish).max())) + (TOL_C64_IN if c64 else 0.0), "cmp"))
    # ---- the SHAPE of the ramp: exponent -(fftfreq(k1) s1 + fftfreq(k2) s2) turns from the Coq model (exact
    # rationals) against the angle of the array the code builds, modulo one turn
    info = {}
    if p.get("coq") or p.get("phase"):
        exprs = []
        for i in range(min(len(pos), 2)):
            exprs.append("C16K.ramp_phases_fix %d%%nat %d%%nat %s %s" % (n1, n2, cq(_dec(pos[i, 0])), cq(_dec(pos[i, 1]))))
        info["turns"] = {"ramp-phase": [(np.angle(ramp[i]) / (2 * np.pi),
                                         TOL_RAMP_TURNS * (1.0 + float(np.abs(pos[i]).max())),
                                         "fourier_translation_operator(%s, %s)" % (pos[i].tolist(), (n1, n2)))
                                        for i in range(min(len(pos), 2))]}
        for e in exprs:
            coq.append(("ramp-phase", e, 0.0, "turns"))
    return {"fails": fails, "coq": coq, "info": info}


def _propagators(E, pt, sampling, thick, energy, tilt):
    """probe_model._compute_propagator_arrays with the given energy / tilt (restored afterwards)"""
    torch = E.torch
    pm = pt.probe_model
    old_e = pm.probe_params.get("energy")
    old_t = pm.probe_tilt.detach().clone()
    try:
        pm.probe_params["energy"] = energy
        pm.probe_tilt = torch.tensor(tilt, dtype=old_t.dtype)
        with torch.no_grad():
            return _n(E, pm._compute_propagator_arrays(sampling, len(thick) + 1, E.np.array(thick, dtype=E.np.float64)))
    finally:
        pm.probe_params["energy"] = old_e
        pm.probe_tilt = old_t


def case_propagate(E, p):
    np, torch = E.np, E.torch
    rng = np.random.default_rng(p["seed"])
    n1, n2 = p["shape"]
    pt = E.pt((n1, n2), 1, 2)
    thick = list(p["thick"])                 # >= 2 distances
    samp = tuple(p["sampling"])
    fails, coq = [], []
    x = _c(E, rng, (n1, n2))
    if p.get("dtype", "c128") == "c64":
        x = x.astype(np.complex64)              # the library's own dtype for exit waves
    en = float((np.abs(x.astype(np.complex128)) ** 2).sum())
    mx = float(np.abs(x).max())
    desc = "shape %s, distances %s A, sampling %s A, %g eV, tilt %s mrad" % ((n1, n2), thick, samp, p["energy"], p["tilt"])
    if p.get("probe_class") == "parametric":
        pt = E.pt_parametric((n1, n2), 2)
        desc += ", ProbeParametric"
    P = _propagators(E, pt, samp, thick, p["energy"], p["tilt"])
    Pn = _propagators(E, pt, samp, [-t for t in thick], p["energy"], p["tilt"])
    Ps = _propagators(E, pt, samp, [thick[0] + thick[1]], p["energy"], p["tilt"])
    if P.shape != (len(thick), n1, n2):
        fails.append(("propagator-shape", "_compute_propagator_arrays returned shape %s for %s" % (P.shape, desc)))
        return {"fails": fails, "coq": coq, "info": {}}
    r = float(np.abs(np.abs(P) - 1).max())
    if not r <= TOL_C64:
        fails.append(("propagator-unit-modulus", "propagator array is not unit-modulus (| |p| - 1 | = %.3g): %s" % (r, desc)))

    strided = p.get("layout", "contig") == "strided"

    def prop(a, k, which="pt"):
        with torch.no_grad():
            f = pt._propagate_array if which == "pt" else pt.obj_model._propagate_array
            return _n(E, f(_strided(E, a, "torch") if strided else _t(E, a), _t(E, k)))

    y = prop(x, P[0])
    e2 = float((np.abs(y) ** 2).sum())
    if not abs(e2 - en) <= TOL_C64 * en:
        fails.append(("propagate-energy", "free-space propagation changes the total intensity %.12g -> %.12g: %s" % (en, e2, desc)))
    y2 = prop(x, P[0], "obj")
    if not _rel(E, y2, y, mx) <= TOL_EXACT:
        fails.append(("propagate-two-implementations", "ObjectBase._propagate_array and PtychographyBase._propagate_array differ: " + desc))
    back = prop(y, Pn[0])
    r = _rel(E, back, x, mx)
    if not r <= TOL_C64:
        fails.append(("propagate-inverse", "propagating by %g A and then by %g A is not the identity (%.3g of max|x|): %s"
                      % (thick[0], -thick[0], r, desc)))
    two = prop(y, P[1])
    one = prop(x, Ps[0])
    r = _rel(E, two, one, mx)
    # the library evaluates the kernel phase pi*lambda*dz*k^2 in float32: its rounding error is about
    # eps32 * (largest phase), which for low energies on fine grids reaches thousands of radians; the
    # additivity comparison is conditioned by that phase, not by the operator
    lam = 12398.4244 / math.sqrt(p["energy"] * (2 * 510998.95 + p["energy"]))
    kmax2 = (0.5 / samp[0]) ** 2 + (0.5 / samp[1]) ** 2
    phase = math.pi * lam * (abs(thick[0]) + abs(thick[1])) * kmax2
    if not r <= TOL_C64_ADD + 8 * 1.2e-7 * phase:
        fails.append(("propagate-additive", "propagating by %g A then %g A differs from propagating by the sum (%.3g): %s"
                      % (thick[0], thick[1], r, desc)))
    # the analytic back-propagation (ObjectPixelated.backward) uses the conjugate kernel: it undoes the propagation,
    # and it is the kernel of the negated distance
    back = prop(y, np.conj(P[0]))
    r = _rel(E, back, x, mx)
    if not r <= TOL_C64:
        fails.append(("propagate-conjugate-inverse", "propagating by %g A and back with the conjugate kernel is not the identity "
                      "(%.3g of max|x|): %s" % (thick[0], r, desc)))
    r = float(np.abs(np.conj(P.astype(np.complex128)) - Pn).max())
    if not r <= TOL_C64 + TOL_KERNEL_REL * phase:
        fails.append(("propagator-conjugate", "the kernel of the negated distance is not the conjugate kernel (%.3g): %s" % (r, desc)))
    # wavelength used by the library against the relativistic formula (the kernel model takes lambda as an input)
    from quantem.core.utils.utils import electron_wavelength_angstrom
    lam_impl = float(electron_wavelength_angstrom(p["energy"]))
    if not abs(lam_impl - wavelength_A(p["energy"])) <= 1e-6 * lam_impl:
        fails.append(("electron-wavelength", "electron_wavelength_angstrom(%g) = %.12g, relativistic formula gives %.12g"
                      % (p["energy"], lam_impl, wavelength_A(p["energy"]))))
    info = {}
    if p.get("coq"):
        g = _grid(E, n1, n2)
        tolp = 1e-12 if x.dtype == np.complex128 else TOL_C64_IN
        coq.append(("prop", "let g := %s in C16F.cmp2 g (C16F.prop g %s %s) %s" % (g, _sig2(P[0]), _sig2(x), _l2(y)), tolp, "cmp"))
    # ---- the SHAPE of the kernel: exponent -(1/2) lambda dz (kr^2 + kc^2) - dz (tan_r kr + tan_c kc) turns from the Coq
    # model (exact rationals of the float64 inputs) against the angle of the array the code builds, modulo one turn;
    # the code evaluates the phase in float32, so the tolerance follows the phase magnitude
    if p.get("coq") or p.get("phase"):
        lam_q = Fraction(lam_impl)
        tr = Fraction(math.tan(float(np.float32(p["tilt"][0])) / 1e3))
        tc = Fraction(math.tan(float(np.float32(p["tilt"][1])) / 1e3))
        d1, d2 = _dec(samp[0]), _dec(samp[1])
        items = []
        for arr, dzs in ((P, thick), (Pn, [-t for t in thick])):
            for t in range(1 if arr is Pn else len(thick)):
                dz = _dec(dzs[t])
                coq.append(("kernel-phase", "C16K.fresnel_phases_fix %d%%nat %d%%nat %s %s %s %s %s %s"
                            % (n1, n2, cq(d1), cq(d2), cq(lam_q), cq(tr), cq(tc), cq(dz)), 0.0, "turns"))
                items.append((np.angle(arr[t].astype(np.complex128)) / (2 * np.pi), ("rad", TOL_KERNEL_RAD0, TOL_KERNEL_REL),
                              "_compute_propagator_arrays: dz = %g A, %s" % (dzs[t], desc)))
        info["turns"] = {"kernel-phase": items}
    return {"fails": fails, "coq": coq, "info": info}


def _ref_patch_indices(E, roi, H, W, r0, c0):
    np = E.np
    fi = lambda n: np.array([i if i < (n + 1) // 2 else i - n for i in range(n)], dtype=np.int64)   # noqa
    rows = (np.asarray(r0, dtype=np.int64)[:, None, None] + fi(roi[0])[None, :, None]) % H
    cols = (np.asarray(c0, dtype=np.int64)[:, None, None] + fi(roi[1])[None, None, :]) % W
    return rows * W + cols


def case_adjoint(E, p):
    np, torch, pu = E.np, E.torch, E.pu
    rng = np.random.default_rng(p["seed"])
    n1, n2 = p["roi"]
    ns = p["slices"]
    pt = E.pt((n1, n2), 1, 1)
    fails, corr, coq, info = [], [], [], {"ints": {}}
    pad = tuple(p["pad"])
    H, W = (int(v) for v in pt.dset._obj_shape_full_2d(pad))
    pos = np.array(p["positions"], dtype=np.float64)
    if p.get("wrap_both"):
        # anchor at the last row / column of the object (plus whole periods): the patch covers rows H-1, 0, ... and
        # columns W-1, 0, ...: it wraps around BOTH axes
        pos = np.array([[H - 1 + H * int(q[0] // 8), W - 1 + W * int(q[1] // 8)] for q in pos], dtype=np.float64)
    if p["index_mode"] == "patch":
        ds = pt.dset
        npos = int(ds.scan_positions_px.shape[0])             # the setter validates the number of positions
        pos = np.array([pos[i % len(pos)] + (i // len(pos)) * np.array([3.0, -5.0]) for i in range(npos)])
        old_pos = ds.scan_positions_px.detach().clone()
        old_idx = getattr(ds, "_patch_indices", None)
        old_last = getattr(ds, "_last_patch_positions_px", None)
        try:
            ds.scan_positions_px = torch.tensor(pos, dtype=old_pos.dtype)
            with torch.no_grad():
                ds._set_patch_indices(pad)
            idx_t = ds._patch_indices.clone()
        finally:
            ds.scan_positions_px = old_pos
            ds._patch_indices = old_idx
            ds._last_patch_positions_px = old_last
        idx = _n(E, idx_t).astype(np.int64)
        r0 = np.array([round(float(np.float32(v))) for v in pos[:, 0]])     # torch.round: half to even, like Python
        c0 = np.array([round(float(np.float32(v))) for v in pos[:, 1]])
        ref = _ref_patch_indices(E, (n1, n2), H, W, r0, c0)
        if idx.shape != ref.shape or not np.array_equal(idx, ref):
            # the index formula is part of the MODEL (patch_indices); adjointness itself is judged below on whatever
            # indices the implementation produced
            corr.append(("patch-indices-correspondence", "_set_patch_indices for ROI %s, object %s, positions %s does not give "
                         "the model's wrap-around flat indices ((r0 + fftfreq_i) mod H) * W + (c0 + fftfreq_j) mod W"
                         % ((n1, n2), (H, W), pos.tolist())))
            r0 = None
            if idx.ndim != 3 or idx.shape[1:] != (n1, n2) or idx.min() < 0 or idx.max() >= H * W:
                fails.append(("patch-indices-out-of-range", "_set_patch_indices produced indices outside the flattened object "
                              "or of shape %s for ROI %s, object %s, positions %s" % (idx.shape, (n1, n2), (H, W), pos.tolist())))
                return {"fails": fails, "corr": corr, "coq": coq, "info": info}
    else:
        idx = rng.integers(0, H * W, size=(len(pos), n1, n2))
        k = max(1, idx.size // 3)
        flat = idx.reshape(-1)
        flat[rng.integers(0, idx.size, size=k)] = flat[rng.integers(0, idx.size, size=k)]      # force repeats
        idx = flat.reshape(len(pos), n1, n2)
        idx_t = torch.tensor(idx, dtype=torch.int32)
        r0 = c0 = None
    c64 = p.get("dtype", "c128") == "c64"
    strided = p.get("layout", "contig") == "strided"
    obj = _c(E, rng, (ns, H, W))
    vals = _c(E, rng, idx.shape)
    rvals = rng.standard_normal(idx.shape)
    valss = _c(E, rng, (ns,) + idx.shape)                  # one stack of patch values per slice
    if c64:
        obj, vals, valss, rvals = obj.astype(np.complex64), vals.astype(np.complex64), valss.astype(np.complex64), rvals.astype(np.float32)
    t_sc, t_adj = (5e-6, 2e-5) if c64 else (1e-13, 1e-12)
    wraps = ""
    if p["index_mode"] == "patch" and idx.ndim == 3 and n1 > 1 and n2 > 1:
        rows, cols = idx[0] // W, idx[0] % W
        both = (rows.max() - rows.min() == H - 1 and rows.min() == 0 and cols.max() - cols.min() == W - 1 and cols.min() == 0
                and len(np.unique(rows)) < H + 1 and n1 < H and n2 < W)
        if both:
            wraps = ", first patch wraps around both axes"
        info["wraps_both"] = bool(both)
        if p.get("wrap_both") and not both and n1 < H and n2 < W:
            corr.append(("patch-indices-correspondence", "a patch anchored at the last row and column of the object %s does not "
                         "wrap around both axes (rows %s, columns %s)" % ((H, W), sorted(set(rows.ravel().tolist())),
                                                                          sorted(set(cols.ravel().tolist())))))
    desc = "ROI %s, object %s, %d positions (%s indices, %d repeated%s)%s%s" % (
        (n1, n2), (H, W), len(pos), p["index_mode"], idx.size - len(set(idx.reshape(-1).tolist())), wraps,
        ", complex64" if c64 else "", ", non-contiguous tensors" if strided else "")
    tv = (lambda a: _strided(E, a, "torch")) if strided else (lambda a: _t(E, a))
    if strided:
        idx_t = _strided(E, _n(E, idx_t), "torch")
    with torch.no_grad():
        patches = _n(E, pt.obj_model._get_obj_patches(tv(obj), idx_t))
        scat = _n(E, pu.sum_patches(tv(vals), idx_t, (H, W)))
        rscat = _n(E, pu.sum_patches_base(tv(rvals), idx_t, (H, W)))
        rscat2 = _n(E, pu.sum_patches(tv(rvals), idx_t, (H, W)))
        # slice by slice, as ObjectPixelated.backward does (sum_patches has no batch dimension of its own: values and
        # indices must have the same number of elements)
        scats = np.stack([_n(E, pu.sum_patches(tv(valss[s_]), idx_t, (H, W))) for s_ in range(ns)])
    want_g = obj.reshape(ns, -1)[:, idx]
    if patches.shape != want_g.shape or not np.array_equal(patches, want_g):
        fails.append(("gather-values", "_get_obj_patches does not return obj_flat[:, indices]: " + desc))
    for nm, sc, vv in (("sum_patches", scat, vals), ("sum_patches_base", rscat, rvals), ("sum_patches(real)", rscat2, rvals)):
        ref_s = np.zeros(H * W, dtype=np.complex128 if np.iscomplexobj(vv) else np.float64)
        np.add.at(ref_s, idx.reshape(-1), vv.reshape(-1))
        if sc.shape != (H, W) or not _rel(E, sc.reshape(-1), ref_s, float(np.abs(vv).max()) * 4) <= t_sc:
            fails.append(("scatter-index-add", "%s is not the accumulate-with-repeats scatter (np.add.at): %s" % (nm, desc)))
            if sc.shape != (H, W):
                continue
        for s in range(ns if patches.shape == want_g.shape else 0):
            lhs = complex((patches[s].astype(np.complex128) * vv).sum())
            rhs = complex((obj[s].astype(np.complex128) * sc).sum())
            scale = float(np.abs(patches[s] * vv).sum()) + 1e-300
            if not abs(lhs - rhs) <= t_adj * scale:
                fails.append(("scatter-gather-adjoint", "<gather(obj), v> = %r but <obj, %s(v)> = %r: %s" % (lhs, nm, rhs, desc)))
                break
    # all slices at once: sum_s <obj_s[idx], v_s> = sum_s <obj_s, sum_patches(v_s)>
    if patches.shape == want_g.shape and scats.shape == (ns, H, W):
        lhs = complex((patches.astype(np.complex128) * valss).sum())
        rhs = complex((obj.astype(np.complex128) * scats).sum())
        scale = float(np.abs(patches * valss).sum()) + 1e-300
        if not abs(lhs - rhs) <= t_adj * scale:
            fails.append(("scatter-gather-adjoint-slices", "sum over %d slices of <gather(obj_s), v_s> = %r but of <obj_s, sum_patches(v_s)> "
                          "= %r: %s" % (ns, lhs, rhs, desc)))
    if p.get("coq") and not fails:
        size = H * W
        fidx = idx.reshape(-1).tolist()
        coq.append(("scatter", "C16F.cmp1 (C16F.fscatter %d%%nat %s %s) %s" % (size, cnl(fidx), _l1(vals.reshape(-1)), _l1(scat.reshape(-1))),
                    t_sc, "cmp"))
        if ns > 1:     # the last slice of the per-slice scatter
            coq.append(("scatter-slice", "C16F.cmp1 (C16F.fscatter %d%%nat %s %s) %s"
                        % (size, cnl(fidx), _l1(valss[ns - 1].reshape(-1)), _l1(scats[ns - 1].reshape(-1))), t_sc, "cmp"))
        coq.append(("gather", "C16F.cmp1 (C16F.fgather %s %s) %s" % (_l1(obj[0].reshape(-1)), cnl(fidx), _l1(patches[0].reshape(-1))),
                    0.0, "cmp"))
        if r0 is not None:
            posz = "[%s]" % "; ".join("(%s, %s)" % (cz(a), cz(b)) for a, b in zip(r0, c0))
            coq.append(("patch-indices", "zl (batch_patch_indices %d%%nat %d%%nat %d%%nat %d%%nat %s)" % (n1, n2, H, W, posz), 0, "ints"))
            info["ints"]["patch-indices"] = fidx
    return {"fails": fails, "corr": corr, "coq": coq, "info": info}


def case_pure_phase(E, p):
    np, torch, pu = E.np, E.torch, E.pu
    rng = np.random.default_rng(p["seed"])
    n1, n2 = p["roi"]
    ns, M, B = p["slices"], p["modes"], p["batch"]
    pt = E.pt((n1, n2), M, ns)
    fails, coq = [], []
    H, W = (int(v) for v in pt.dset._obj_shape_full_2d((0, 0)))
    desc = "ROI %s, %d slice(s), %d probe mode(s), %d pattern(s), thicknesses %s" % ((n1, n2), ns, M, B, p["thick"])
    old_thick = pt.slice_thicknesses
    old_props = getattr(pt, "_propagators", None)
    try:
        if ns > 1:
            pt.slice_thicknesses = list(p["thick"])
        with torch.no_grad():
            pt.compute_propagator_arrays()
            props = _n(E, pt.propagators)
            theta = rng.uniform(-3.0, 3.0, size=(ns, H, W))
            r0 = rng.integers(-H, 2 * H, size=B)
            c0 = rng.integers(-W, 2 * W, size=B)
            idx_t = torch.tensor(_ref_patch_indices(E, (n1, n2), H, W, r0, c0), dtype=torch.int32)
            patches_t = pt.obj_model._get_obj_patches(_t(E, theta), idx_t)            # real input -> exp(i theta)
            patches = _n(E, patches_t)
            probes = _c(E, rng, (M, B, n1, n2))
            if p.get("zero_mode") and M > 1:
                probes[-1] = 0
            _pp, overlap_t = pt.overlap_projection(patches_t, _t(E, probes))
            overlap = _n(E, overlap_t)
            I = _n(E, pt.detector_model.forward(overlap_t))
            I2 = _n(E, pt.estimate_intensities(overlap_t))
            descan = rng.uniform(-1.5, 1.5, size=(B, 2))
            _pp, ov_d = pt.forward_operator(patches_t, _t(E, probes), _t(E, descan))
            I_d = _n(E, pt.detector_model.forward(ov_d))
    finally:
        if ns > 1:
            pt.slice_thicknesses = old_thick
        if old_props is not None:
            pt._propagators = old_props
    if not float(np.abs(np.abs(patches) - 1).max()) <= 1e-12:
        fails.append(("pure-phase-patches", "patches of a pure-phase (real-valued) object are not unit-modulus: " + desc))
    if ns > 1 and not float(np.abs(np.abs(props) - 1).max()) <= TOL_C64:
        fails.append(("propagator-unit-modulus", "compute_propagator_arrays: kernels are not unit-modulus: " + desc))
    want = (np.abs(probes) ** 2).sum(axis=(0, 2, 3))                                 # per pattern
    tol = TOL_C64 if ns > 1 else TOL_EXACT
    for nm, arr in (("DetectorPixelated.forward", I), ("estimate_intensities", I2), ("forward_operator with descan", I_d)):
        if arr.shape != (B, n1, n2):
            fails.append(("detector-shape", "%s returned shape %s: %s" % (nm, arr.shape, desc)))
            continue
        got = arr.sum(axis=(1, 2))
        r = float(np.abs(got - want).max() / max(want.max(), 1e-300))
        if not r <= tol:
            fails.append(("pure-phase-intensity", "summed predicted intensity per pattern (%s) %s != summed probe intensity %s "
                          "(rel %.3g): %s" % (nm, got.tolist(), want.tolist(), r, desc)))
            break
    if I.shape == I2.shape and not _rel(E, I, np.fft.fftshift(I2, axes=(-2, -1)), None) <= TOL_EXACT:
        fails.append(("detector-centering", "DetectorPixelated.forward is not fftshift(estimate_intensities): " + desc))
    if p.get("coq") and I.shape == (B, n1, n2):
        g = _grid(E, n1, n2)
        objs = "[%s]" % "; ".join(_sig2(patches[s, 0]) for s in range(ns))
        prs = "[%s]" % "; ".join(_sig2(props[s]) for s in range(ns - 1))
        pbs = "[%s]" % "; ".join(_sig2(probes[m, 0]) for m in range(M))
        coq.append(("detector", "let g := %s in C16F.cmp2 g (C16F.detector g (map (C16F.overlap g %s %s) %s)) %s"
                    % (g, objs, prs, pbs, _l2(I[0])), 1e-12, "cmp"))
        coq.append(("overlap", "let g := %s in C16F.cmp2 g (C16F.overlap g %s %s %s) %s"
                    % (g, objs, prs, _sig2(probes[0, 0]), _l2(overlap[0, 0])), 1e-12, "cmp"))
    return {"fails": fails, "coq": coq, "info": {}}


def case_fproj(E, p):
    np, torch = E.np, E.torch
    rng = np.random.default_rng(p["seed"])
    n1, n2 = p["roi"]
    M, B = p["modes"], p["batch"]
    pt = E.pt((n1, n2), M, 1)
    fails, coq = [], []
    a = rng.uniform(0.0, 2.0, size=(B, n1, n2))
    a[rng.uniform(size=a.shape) < p["zero_frac"]] = 0.0
    if p["amp_kind"] == "one-zero-pattern":
        a[-1] = 0.0
    elif p["amp_kind"] == "delta":
        a[0] = 0.0
        a[0, rng.integers(0, n1), rng.integers(0, n2)] = 3.0
    psi = _c(E, rng, (M, B, n1, n2))
    if p["psi_kind"] == "zero-pattern":
        psi[:, -1] = 0.0
    elif p["psi_kind"] == "zero-mode" and M > 1:
        psi[-1] = 0.0
    desc = "ROI %s, %d mode(s), %d pattern(s), amplitudes: %s + %d zeros, exit waves: %s" % (
        (n1, n2), M, B, p["amp_kind"], int((a == 0).sum()), p["psi_kind"])
    with torch.no_grad():
        P1_t = pt.fourier_projection(_t(E, a), _t(E, psi))
        P1 = _n(E, P1_t)
        I = _n(E, pt.detector_model.forward(P1_t))
        A_est = _n(E, pt.estimate_amplitudes(P1_t))
        P2 = _n(E, pt.fourier_projection(_t(E, a), P1_t))
        G = _n(E, pt.gradient_step(_t(E, a), _t(E, psi)))
    if P1.shape != psi.shape or not np.all(np.isfinite(P1.view(np.float64))):
        fails.append(("fourier-projection-nonfinite", "fourier_projection returned shape %s / non-finite values: %s" % (P1.shape, desc)))
        return {"fails": fails, "coq": coq, "info": {}}
    amax = max(float(a.max()), 1e-300)
    # where is the clause claimed?  single state: everywhere.  mixed state: where the estimate is non-zero
    est = np.sqrt((np.abs(np.fft.fft2(psi, norm="ortho")) ** 2).sum(axis=0))
    est = np.fft.fftshift(est, axes=(-2, -1))
    dom = np.ones_like(a, dtype=bool) if M == 1 else (est >= EST_FLOOR)
    tol = TOL_EXACT if M == 1 else TOL_MIXED
    d_int = np.abs(I - a ** 2)
    d_amp = np.abs(A_est - a)
    bad = (d_int[dom].max() if dom.any() else 0.0) > tol * amax ** 2 or \
          (d_amp[dom].max() if dom.any() else 0.0) > max(tol, 4e-9) * amax          # estimate_amplitudes adds eps = 1e-9
    if bad:
        # classify: the pinned commit corner-centres the measured amplitudes with fftshift instead of
        # ifftshift, which moves them by one pixel along every odd axis
        moved = np.fft.fftshift(np.fft.fftshift(a, axes=(-2, -1)), axes=(-2, -1))
        key = "fourier-projection-amplitude"
        if (n1 % 2 or n2 % 2) and (np.abs(I - moved ** 2)[dom].max() <= tol * amax ** 2):
            key = "fourier-projection-odd-roi-shift"
        obs, dd, gotarr, wantarr = ("predicted intensity (DetectorPixelated.forward)", d_int, I, a ** 2)
        if not (d_int[dom].max() > tol * amax ** 2):
            obs, dd, gotarr, wantarr = ("estimated amplitude (estimate_amplitudes)", d_amp, A_est, a)
        k = np.unravel_index(int(np.argmax(np.where(dom, dd, 0))), a.shape)
        fails.append((key, "after fourier_projection the %s is not the measured one: pattern %d pixel (%d, %d): measured %.9g, "
                      "got %.9g%s: %s" % (obs, k[0], k[1], k[2], wantarr[k], gotarr[k],
                                          " (the amplitudes come out rolled by one pixel along the odd axes)" if key.endswith("shift") else "",
                                          desc)))
    # a measured zero is reproduced in every case
    z = (a == 0)
    if key_ok(fails) and z.any() and not float(I[z].max()) <= 1e-15 * max(1.0, amax ** 2) + (0 if M == 1 else 1e-12):
        fails.append(("fourier-projection-zero-amplitude", "a measured zero amplitude is not reproduced (predicted %.3g): %s"
                      % (float(I[z].max()), desc)))
    r = _rel(E, P2, P1, max(float(np.abs(P1).max()), 1e-300))
    if not r <= tol:
        fails.append(("fourier-projection-idempotent", "applying fourier_projection twice differs from applying it once by %.3g of "
                      "max|psi'|: %s" % (r, desc)))
    if not _rel(E, G, P1 - psi, max(float(np.abs(psi).max()), 1e-300)) <= 1e-13:
        fails.append(("gradient-step-definition", "gradient_step != fourier_projection - overlap: " + desc))
    # gradient_step identities (theorems C16_gradient_step_*): the step vanishes at a projected exit wave ...
    with torch.no_grad():
        G2 = _n(E, pt.gradient_step(_t(E, a), _t(E, P1)))
    gdom = np.ones(B, dtype=bool) if M == 1 else dom.reshape(B, -1).all(axis=1)      # mixed: patterns whose estimate is non-zero everywhere
    if gdom.any():
        r = float(np.abs(G2[:, gdom]).max()) / max(float(np.abs(P1).max()), 1e-300)
        if not r <= tol:
            fails.append(("gradient-step-fixed-point", "gradient_step at a projected exit wave is not zero (%.3g of max|psi'|): %s" % (r, desc)))
    # ... and (single state) its squared norm is the squared amplitude misfit sum_k (a_k - |F_k|)^2
    if M == 1:
        Fm = np.abs(np.fft.fft2(psi[0], norm="ortho"))
        want_e = ((np.fft.ifftshift(a, axes=(-2, -1)) - Fm) ** 2).sum(axis=(-2, -1))
        got_e = (np.abs(G[0]) ** 2).sum(axis=(-2, -1))
        r = float(np.abs(got_e - want_e).max() / max(float(want_e.max()), 1e-300))
        if not r <= 1e-11:
            fails.append(("gradient-step-energy", "|gradient_step|^2 per pattern %s != squared amplitude misfit sum (a - |F|)^2 %s: %s"
                          % (got_e.tolist(), want_e.tolist(), desc)))
    if p.get("zero_coq") and p["psi_kind"] == "zero-pattern" and M > 1:
        # the excluded point of the mixed-state clause, on the model and on the code: where every mode's spectrum
        # vanishes (summed estimate exactly zero) the projected exit waves vanish (C16_fourier_projection_mixed_zero_estimate)
        g = _grid(E, n1, n2)
        ps = "[%s]" % "; ".join(_sig2(psi[m, B - 1]) for m in range(M))
        ws = "[%s]" % "; ".join(_l2(P1[m, B - 1]) for m in range(M))
        coq.append(("fproj-mixed-zero-estimate", "let g := %s in C16F.cmp2s g (C16F.fproj_mixed g (rsig2 %s) %s) %s"
                    % (g, _r2(a[B - 1]), ps, ws), 1e-11, "cmp"))
    if p.get("coq") and p["psi_kind"] == "random":
        g = _grid(E, n1, n2)
        if M == 1:
            coq.append(("fproj", "let g := %s in C16F.cmp2 g (C16F.fproj g (rsig2 %s) %s) %s"
                        % (g, _r2(a[0]), _sig2(psi[0, 0]), _l2(P1[0, 0])), 1e-11, "cmp"))
            coq.append(("grad", "let g := %s in C16F.cmp2 g (C16F.grad g (rsig2 %s) %s) %s"
                        % (g, _r2(a[0]), _sig2(psi[0, 0]), _l2(G[0, 0])), 1e-11, "cmp"))
        else:
            ps = "[%s]" % "; ".join(_sig2(psi[m, 0]) for m in range(M))
            ws = "[%s]" % "; ".join(_l2(P1[m, 0]) for m in range(M))
            coq.append(("fproj-mixed", "let g := %s in C16F.cmp2s g (C16F.fproj_mixed g (rsig2 %s) %s) %s"
                        % (g, _r2(a[0]), ps, ws), 1e-11, "cmp"))
    return {"fails": fails, "coq": coq, "info": {}}


def key_ok(fails):
    return not any(k.startswith("fourier-projection-amplitude") or k.startswith("fourier-projection-odd") for k, _ in fails)


def case_pipeline(E, p):
    """the library's own forward pass (dset.forward -> probe_model.forward -> obj_model.forward ->
    forward_operator -> detector) with a pure_phase object: complex64 throughout"""
    np, torch = E.np, E.torch
    rng = np.random.default_rng(p["seed"])
    n1, n2 = p["roi"]
    pt = E.pt((n1, n2), p["modes"], p["slices"], "pure_phase")
    fails = []
    om = pt.obj_model
    old = om._obj.data.clone()
    try:
        with torch.no_grad():
            shp = tuple(om._obj.shape)
            om._obj.data = torch.tensor(_c(E, rng, shp), dtype=om._obj.dtype)
            pt.compute_propagator_arrays()
            bi = np.arange(pt.dset.num_gpts)
            patch_indices, _pos, frac, descan = pt.dset.forward(bi, pt.obj_padding_px)
            shifted = pt.probe_model.forward(frac)
            patches = om.forward(patch_indices)
            _pp, overlap = pt.forward_operator(patches, shifted, descan)
            I = _n(E, pt.detector_model.forward(overlap))
            probe = _n(E, pt.probe_model.probe)
            amp = _n(E, torch.abs(patches))
    finally:
        om._obj.data = old
    want = float((np.abs(probe) ** 2).sum())
    got = I.reshape(I.shape[0], -1).sum(axis=1)
    desc = "ROI %s, %d slices, %d modes, %d patterns" % ((n1, n2), p["slices"], p["modes"], len(got))
    if float(np.abs(amp - 1).max()) <= 1e-5:          # (a FOV mask < 1 is C10's subject, not ours)
        r = float(np.abs(got - want).max() / max(want, 1e-300))
        if not r <= TOL_PIPE:
            fails.append(("pipeline-pure-phase-intensity", "library forward pass with a pure_phase object: summed predicted intensity "
                          "per pattern in [%.9g, %.9g] but summed probe intensity is %.9g (rel %.3g): %s"
                          % (got.min(), got.max(), want, r, desc)))
    return {"fails": fails, "coq": [], "info": {"unit_modulus": float(np.abs(amp - 1).max())}}


def case_variants(E, p):
    """the operator variants of the other model classes: ProbeParametric.forward (sub-pixel shifted probe),
    ObjectDIP.forward (network output -> patches), and the forward pass built from them"""
    np, torch, pu = E.np, E.torch, E.pu
    rng = np.random.default_rng(p["seed"])
    n1, n2 = p["roi"]
    ns = p["slices"]
    pt = E.pt_parametric((n1, n2), ns)
    fails = []
    H, W = (int(v) for v in pt.dset._obj_shape_full_2d((0, 0)))
    B = p["batch"]
    desc = "ROI %s, %d slice(s), %d pattern(s), ObjectDIP(%s, %s network) + ProbeParametric" % (
        (n1, n2), ns, B, p["obj_type"], "complex" if p["complex_model"] else "real")
    old_thick = pt.slice_thicknesses
    old_props = getattr(pt, "_propagators", None)
    try:
        if ns > 1:
            pt.slice_thicknesses = list(p["thick"])
        with torch.no_grad():
            pt.compute_propagator_arrays()
            probe = pt.probe_model.probe                                       # (1, n1, n2) complex64
            frac = torch.tensor(rng.uniform(-0.5, 0.5, size=(B, 2)), dtype=torch.float32)
            shifted = pt.probe_model.forward(frac)                             # (1, B, n1, n2)
            ref_shift = pu.fourier_shift_expand(probe, frac).swapaxes(0, 1)
            odip = E.object_dip(ns, H, W, p["obj_type"], p["complex_model"], p["seed"])
            r0 = rng.integers(-H, 2 * H, size=B)
            c0 = rng.integers(-W, 2 * W, size=B)
            idx = _ref_patch_indices(E, (n1, n2), H, W, r0, c0)
            idx_t = torch.tensor(idx, dtype=torch.int32)
            patches_t = odip.forward(idx_t)
            net_out = odip.model(odip.model_input)[0]
            descan = torch.tensor(rng.uniform(-1.5, 1.5, size=(B, 2)), dtype=torch.float32)
            _pp, ov = pt.forward_operator(patches_t, shifted.clone(), descan)
            I = _n(E, pt.detector_model.forward(ov))
            vals = torch.tensor(_c(E, rng, idx.shape).astype(np.complex64))
            scat = _n(E, pu.sum_patches(vals, idx_t, (H, W)))
    finally:
        if ns > 1:
            pt.slice_thicknesses = old_thick
        if old_props is not None:
            pt._propagators = old_props
    probe_n, shifted_n, patches, net = _n(E, probe), _n(E, shifted), _n(E, patches_t), _n(E, net_out)
    en = float((np.abs(probe_n.astype(np.complex128)) ** 2).sum())
    # ProbeParametric.forward: every shifted probe keeps the probe's total intensity, and is fourier_shift_expand of it
    if shifted_n.shape != (1, B, n1, n2):
        fails.append(("variant-probe-shape", "ProbeParametric.forward returned shape %s: %s" % (shifted_n.shape, desc)))
    else:
        e2 = (np.abs(shifted_n[0].astype(np.complex128)) ** 2).sum(axis=(-2, -1))
        r = float(np.abs(e2 - en).max() / max(en, 1e-300))
        if not r <= TOL_C64:
            fails.append(("variant-probe-energy", "ProbeParametric.forward: shifted probes have total intensity %s, the probe %.9g "
                          "(rel %.3g): %s" % (e2.tolist(), en, r, desc)))
        if not _rel(E, shifted_n, _n(E, ref_shift), None) <= 1e-6:
            fails.append(("variant-probe-shift", "ProbeParametric.forward is not fourier_shift_expand of the probe: " + desc))
    # ObjectDIP.forward: the patches are the gathered network output (exp(i .) of it for a real-valued network)
    full = np.exp(1j * net.astype(np.float64)) if not p["complex_model"] else net.astype(np.complex128)
    want_p = full.reshape(ns, -1)[:, idx]
    if patches.shape != want_p.shape or not _rel(E, patches, want_p, 1.0) <= 2e-6:
        fails.append(("variant-object-gather", "ObjectDIP.forward does not return the network output gathered at the patch indices: " + desc))
        return {"fails": fails, "coq": [], "info": {}}
    # ... whose adjoint is sum_patches, slice by slice
    lhs = complex((patches[0].astype(np.complex128) * _n(E, vals)).sum())
    rhs = complex((full[0] * scat).sum())
    scale = float(np.abs(patches[0] * _n(E, vals)).sum()) + 1e-300
    if not abs(lhs - rhs) <= 5e-5 * scale:
        fails.append(("variant-scatter-gather-adjoint", "<ObjectDIP patches, v> = %r but <network output, sum_patches(v)> = %r: %s" % (lhs, rhs, desc)))
    # pure-phase / potential object from a real-valued network: unit-modulus patches and the intensity identity
    if not p["complex_model"]:
        r = float(np.abs(np.abs(patches) - 1).max())
        if not r <= 1e-5:
            fails.append(("variant-pure-phase-patches", "ObjectDIP (%s, real network) patches are not unit-modulus (%.3g): %s"
                          % (p["obj_type"], r, desc)))
        got = I.reshape(B, -1).sum(axis=1)
        r = float(np.abs(got - en).max() / max(en, 1e-300))
        if I.shape != (B, n1, n2) or not r <= TOL_PIPE:
            fails.append(("variant-pure-phase-intensity", "forward pass (ProbeParametric shifted probes, ObjectDIP %s patches, %d slices, "
                          "descan): summed predicted intensity per pattern %s != summed probe intensity %.9g (rel %.3g): %s"
                          % (p["obj_type"], ns, got.tolist(), en, r, desc)))
    return {"fails": fails, "coq": [], "info": {}}


CASES = {"variants": case_variants, "translate": case_translate, "propagate": case_propagate, "adjoint": case_adjoint,
         "pure_phase": case_pure_phase, "fproj": case_fproj, "pipeline": case_pipeline, "argforms": case_argforms}


# ---------------------------------------------------------------------------------- generation
def _gen(ctx: Ctx):
    r = ctx.rng
    out = []

    def seed():
        return r.randrange(1, 1 << 30)

    def shifts(k):
        return [[round(r.uniform(-6, 6), 3), round(r.uniform(-6, 6), 3)] for _ in range(k)]

    # ---- translation
    shapes = list(SHAPES_ORACLE)
    r.shuffle(shapes)
    for i, sh in enumerate(shapes[:ctx.budget(14, len(shapes))] * ctx.budget(1, 8)):
        out.append({"kind": "translate", "shape": list(sh), "shifts": shifts(3), "seed": seed(),
                    "int_shift": [r.randint(-8, 8), r.randint(-8, 8)], "backend": "torch" if i % 3 else "numpy", "coq": False,
                    "dtype": "c64" if i % 4 == 1 else "c128", "layout": "strided" if i % 5 == 2 else "contig",
                    "phase": i < ctx.budget(8, 60)})
    cs = list(SHAPES_COQ)
    r.shuffle(cs)
    for i, sh in enumerate(cs[:ctx.budget(8, len(cs))] * ctx.budget(1, 4)):
        out.append({"kind": "translate", "shape": list(sh), "shifts": shifts(2), "seed": seed(),
                    "int_shift": [r.randint(-5, 5), r.randint(-5, 5)], "backend": "numpy" if i % 3 == 0 else "torch", "coq": True,
                    "dtype": "c64" if i % 4 == 3 else "c128", "layout": "strided" if i % 4 == 2 else "contig"})
    # ---- propagation
    ts = list(SHAPES_TOY)
    r.shuffle(ts)
    for i, sh in enumerate(ts[:ctx.budget(12, len(ts))] * ctx.budget(1, 10)):
        tilt = [0.0, 0.0] if i % 3 == 0 else [round(r.uniform(-8, 8), 2), round(r.uniform(-8, 8), 2) if i % 3 == 2 else 0.0]
        samp = [round(r.uniform(0.2, 0.6), 3), round(r.uniform(0.2, 0.6), 3)]
        energy = r.choice([60e3, 80e3, 200e3, 300e3])
        if i % 4 == 3:
            # low energy on a fine grid: the Fourier grid reaches beyond 1/lambda ("for all ... energies"):
            # the kernel must stay unit-modulus there too (no evanescent cut-off hiding in the propagator)
            samp = [round(r.uniform(0.04, 0.12), 3), round(r.uniform(0.04, 0.12), 3)]
            energy = r.choice([500.0, 2e3, 5e3])
        out.append({"kind": "propagate", "shape": list(sh), "seed": seed(),
                    "thick": [round(r.uniform(0.5, 20.0), 2), round(r.uniform(0.5, 20.0), 2)],
                    "sampling": samp,
                    "energy": energy, "tilt": tilt,
                    "dtype": "c64" if i % 3 == 1 else "c128", "layout": "strided" if i % 4 == 2 else "contig",
                    "probe_class": "parametric" if i % 5 == 3 else "pixelated",
                    "phase": sh[0] * sh[1] <= 80 and i < ctx.budget(12, 80),
                    "coq": sh[0] * sh[1] <= 80 and i < ctx.budget(6, 40)})
    # ---- gather / scatter
    r.shuffle(ts)
    for i, sh in enumerate(ts[:ctx.budget(12, len(ts))] * ctx.budget(1, 10)):
        B = r.randint(1, 4)
        out.append({"kind": "adjoint", "roi": list(sh), "slices": r.randint(1, 3), "seed": seed(),
                    "pad": [r.randint(0, 2), r.randint(0, 3)], "index_mode": "patch" if i % 3 != 2 else "random",
                    "dtype": "c64" if i % 4 == 1 else "c128", "layout": "strided" if i % 4 == 3 else "contig",
                    "wrap_both": i % 3 == 1,
                    "positions": [[round(r.uniform(-12, 24), 2), round(r.uniform(-12, 24), 2)] for _ in range(B)],
                    "coq": sh[0] * sh[1] <= 30 and i < ctx.budget(12, 60)})
    # ---- pure phase: every (slices, modes) combination
    combos = [(s, m) for s in (1, 2, 3, 4) for m in (1, 2, 3)]
    r.shuffle(combos)
    r.shuffle(ts)
    for i, (s, m) in enumerate(combos * ctx.budget(2, 12)):
        sh = ts[i % len(ts)]
        small = sh[0] * sh[1] <= 42
        out.append({"kind": "pure_phase", "roi": list(sh), "slices": s, "modes": m, "batch": r.randint(1, 3), "seed": seed(),
                    "thick": [round(r.uniform(0.5, 15.0), 2) for _ in range(s - 1)], "zero_mode": i % 5 == 4,
                    "coq": small and i < ctx.budget(10, 60)})
    for sh, s, m in [((5, 6), 4, 3), ((4, 4), 1, 1), ((3, 7), 3, 2)][:ctx.budget(2, 3)]:
        out.append({"kind": "pure_phase", "roi": list(sh), "slices": s, "modes": m, "batch": 1, "seed": seed(),
                    "thick": [round(r.uniform(0.5, 15.0), 2) for _ in range(s - 1)], "zero_mode": False, "coq": True})
    # ---- Fourier projection
    r.shuffle(ts)
    kinds = [("random", "random"), ("random", "zero-pattern"), ("one-zero-pattern", "random"), ("delta", "random"),
             ("random", "zero-mode")]
    n = 0
    for rep in range(ctx.budget(1, 10)):
        for i, sh in enumerate(ts[:ctx.budget(12, len(ts))]):
            for m in (1, 2, 3) if (i % 3 == 0) else ((1, 2) if i % 3 == 1 else (1, 3)):
                ak, pk = kinds[n % len(kinds)]
                n += 1
                out.append({"kind": "fproj", "roi": list(sh), "modes": m, "batch": r.randint(2, 3), "seed": seed(),
                            "zero_frac": r.choice([0.0, 0.1, 0.3]), "amp_kind": ak, "psi_kind": pk,
                            "coq": pk == "random" and sh[0] * sh[1] <= (80 if m == 1 else 48) and rep < 3,
                            "zero_coq": pk == "zero-pattern" and m > 1 and sh[0] * sh[1] <= 48 and rep < 3})
    # ---- ProbeParametric / ObjectDIP variants of the operators
    vcombos = [("pure_phase", False), ("potential", False), ("complex", True)]
    r.shuffle(ts)
    for i in range(ctx.budget(6, 60)):
        ot, cm = vcombos[i % 3]
        nsl = 1 + (i // 3 + i) % 3
        out.append({"kind": "variants", "roi": list(ts[i % len(ts)]), "slices": nsl,
                    "batch": r.randint(1, 3), "obj_type": ot, "complex_model": cm, "seed": seed(),
                    "thick": [round(r.uniform(0.5, 15.0), 2) for _ in range(nsl - 1)]})
    # ---- the library's own forward pass
    for sh, s, m in [((6, 8), 2, 2), ((5, 6), 3, 1), ((7, 5), 1, 3), ((8, 10), 4, 2)][:ctx.budget(2, 4)]:
        out.append({"kind": "pipeline", "roi": list(sh), "slices": s, "modes": m, "seed": seed()})
    # ---- round 5: the argument forms (dtype / container / batching / layout) of the operators' inputs
    out += gen_argforms(ctx, SHAPES_ORACLE, SHAPES_TOY)
    return out


# ---------------------------------------------------------------------------------- judging
def _judge(ctx, case, res, vals, report=True):
    """compare the Coq values of one case; returns list of (key, what)"""
    bad = []
    seen = {}
    for (label, _expr, tol, kind), v in zip(res["coq"], vals):
        if kind == "turns":
            # v: the model's exact phases (turns) of one array; the implementation's angle must agree modulo one turn
            k = seen.get(label, 0)
            seen[label] = k + 1
            got, tl, what = res["info"]["turns"][label][k]
            import numpy as np
            d = _turn_diff(got, v)
            if d is None:
                bad.append(("%s-phase-correspondence" % case["kind"], "model %s has shape of %d rows, implementation %s: %s"
                            % (label, len(v), got.shape, what)))
                continue
            if isinstance(tl, tuple):          # ("rad", absolute, relative to the phase magnitude)
                mag = np.array([[abs(int(w)) / FIX for w in row] for row in v]) * 2 * math.pi
                lim = (tl[1] + tl[2] * mag) / (2 * math.pi)
            else:
                lim = tl
            if not bool(np.all(d <= lim)):
                kk = np.unravel_index(int(np.argmax(d - lim)), d.shape)
                bad.append(("%s-phase-correspondence" % case["kind"],
                            "the phase of the array the code builds is not the model's exponent: element %s: model %.9f turns "
                            "(mod 1), implementation %.9f turns, |difference| %.3g > %.3g: %s"
                            % (tuple(int(q) for q in kk), (int(v[kk[0]][kk[1]]) % FIX) / FIX, float(got[kk] % 1.0), float(d[kk]),
                               float(lim[kk]) if hasattr(lim, "shape") else lim, what)))
            continue
        if kind == "ints":
            want = res["info"]["ints"][label]
            if list(v) != list(want):
                bad.append(("%s-correspondence" % case["kind"], "model %s = %s but the implementation gives %s" % (label, v, want)))
            continue
        for err, ref in _pairs(v):
            if not (err <= tol * max(ref, 1e-300)):
                bad.append(("%s-correspondence" % case["kind"],
                            "binary64 instance of the Coq model and the implementation differ on `%s`: max |model - impl| = %.3g, "
                            "max |impl| = %.3g (tolerance %.1g relative)" % (label, err, ref, tol)))
    return bad


def _slim(case):
    return json.loads(json.dumps(case))


def _eval_exprs(ctx, name, items):
    """items: [(label, expr, tol, kind)]; the exact-rational phase expressions need Q_scope (PREK), the others PRE;
    returns the values in the order of items"""
    a = [k for k, it in enumerate(items) if it[3] != "turns"]
    b = [k for k, it in enumerate(items) if it[3] == "turns"]
    vals = [None] * len(items)
    if a:
        va = ctx.coq_eval(name, PRE, [items[k][1] for k in a], shard=max(1, min(6, (len(a) + 15) // 16)))
        for k, v in zip(a, va):
            vals[k] = v
    if b:
        vb = ctx.coq_eval(name + "_phase", PREK, [items[k][1] for k in b], shard=max(1, (len(b) + 3) // 4))
        for k, v in zip(b, vb):
            vals[k] = v
    return vals


def _tie_cross_test(ctx: Ctx, E):
    """the TRANSLATOR is tested on every run: the definitions it has just generated (build/C16/Gen_C16.v) are evaluated by
    vm_compute -- exact rational phases for the two kernel builders, integers for scatter / gather, the binary64 instance for
    the Fourier multipliers and the detector / projection pipeline -- and compared with calling the real functions on the same
    inputs (a few hundred array elements per family)"""
    np, torch, pu = E.np, E.torch, E.pu
    r = ctx.rng
    rng = np.random.default_rng(r.randrange(1, 1 << 30))
    flags = ["-Q", str(ctx.dir), "GenC16"]
    gen_imp = "From QV.lib Require Import C16_TieLib.\nFrom GenC16 Require Import Gen_C16.\n"
    bad = []
    # ---- (1) kernel builders: total phase of the generated factors (P = Q, fq = fftfreq) vs the angle of the real arrays
    q_exprs, q_items = [], []
    shapes = [(4, 6), (5, 5), (7, 4), (3, 8), (6, 5)]
    for (n1, n2) in r.sample(shapes, 3):
        s = [round(r.uniform(-6, 6), 3), round(r.uniform(-6, 6), 3)]
        q_exprs.append("map (fun k1 => map (fun k2 => C16K.fix64 (esum 0%%Q Qplus (gen_ramp_factors tt (fun _ _ => tt) 1%%Q (1#2)%%Q Qplus Qmult "
                       "Qopp (fun _ : Q => tt) (fun a d k => C16K.fftfreq_q (nth a [%d; %d]%%nat 0%%nat) d k) (fun c => nth c [%s; %s] 0%%Q) k1 k2))) "
                       "(seq 0 %d)) (seq 0 %d)" % (n1, n2, cq(_dec(s[0])), cq(_dec(s[1])), n2, n1))
        with torch.no_grad():
            ramp = _n(E, pu.fourier_translation_operator(torch.tensor([s], dtype=torch.float64), (n1, n2)))[0]
        q_items.append((np.angle(ramp) / (2 * np.pi), TOL_RAMP_TURNS * (1.0 + max(abs(s[0]), abs(s[1]))),
                        "gen_ramp_factors vs fourier_translation_operator(%s, %s)" % (s, (n1, n2))))
    for (n1, n2) in r.sample(SHAPES_TOY[:8], 3):
        pt = E.pt((n1, n2), 1, 2)
        tilt = r.choice([[0.0, 0.0], [round(r.uniform(-8, 8), 2), 0.0], [0.0, round(r.uniform(-8, 8), 2)],
                         [round(r.uniform(-8, 8), 2), round(r.uniform(-8, 8), 2)]])
        samp = [round(r.uniform(0.2, 0.6), 3), round(r.uniform(0.2, 0.6), 3)]
        dz = round(r.uniform(0.5, 20.0), 2)
        energy = r.choice([60e3, 80e3, 200e3, 300e3])
        K = _propagators(E, pt, samp, [dz], energy, tilt)[0]
        from quantem.core.utils.utils import electron_wavelength_angstrom
        lam_q = Fraction(float(electron_wavelength_angstrom(energy)))
        tq = [Fraction(math.tan(float(np.float32(t)) / 1e3)) for t in tilt]
        q_exprs.append("map (fun k1 => map (fun k2 => C16K.fix64 (esum 0%%Q Qplus (gen_kernel_factors tt (fun _ _ => tt) 1%%Q (1#2)%%Q Qplus Qmult "
                       "Qopp (fun _ : Q => tt) (fun a d k => C16K.fftfreq_q (nth a [%d; %d]%%nat 0%%nat) d k) %s (fun a => nth a [%s; %s] false) "
                       "(fun a => nth a [%s; %s] 0%%Q) (fun a => nth a [%s; %s] 0%%Q) %s k1 k2))) (seq 0 %d)) (seq 0 %d)"
                       % (n1, n2, cq(lam_q), "true" if tilt[0] != 0 else "false", "true" if tilt[1] != 0 else "false",
                          cq(tq[0]), cq(tq[1]), cq(_dec(samp[0])), cq(_dec(samp[1])), cq(_dec(dz)), n2, n1))
        q_items.append((np.angle(K.astype(np.complex128)) / (2 * np.pi), ("rad", TOL_KERNEL_RAD0, TOL_KERNEL_REL),
                        "gen_kernel_factors vs _compute_propagator_arrays(%s, dz=%s, %g eV, tilt %s, %s)" % (samp, dz, energy, tilt, (n1, n2))))
    nvals = [0]

    def judge_q(qv):
        for v, (got, tl, what) in zip(qv, q_items):
            d = _turn_diff(got, v)
            nvals[0] += got.size
            if d is None:
                bad.append("shape mismatch: " + what)
                continue
            if isinstance(tl, tuple):
                mag = np.array([[abs(int(w)) / FIX for w in row] for row in v]) * 2 * math.pi
                lim = (tl[1] + tl[2] * mag) / (2 * math.pi)
            else:
                lim = tl
            if not bool(np.all(d <= lim)):
                bad.append("%s: phase differs by up to %.3g turns" % (what, float(np.max(d))))
    # ---- (2) scatter / gather over Z (exact): integer-valued data through the real functions
    z_exprs, z_want = [], []
    pt = E.pt((4, 4), 1, 1)
    CI = 1000003
    for _ in range(4):
        H, W, n = r.randint(2, 5), r.randint(2, 5), r.randint(1, 14)
        idx = [r.randrange(H * W) for _ in range(n)]
        re_, im_ = [r.randint(-50, 50) for _ in range(n)], [r.randint(-50, 50) for _ in range(n)]
        ore, oim = [r.randint(-50, 50) for _ in range(H * W)], [r.randint(-50, 50) for _ in range(H * W)]
        zl_ = lambda l: "[%s]%%Z" % "; ".join(cz(x) for x in l)      # noqa
        it = torch.tensor(idx, dtype=torch.int64)
        with torch.no_grad():
            sb = _n(E, pu.sum_patches_base(torch.tensor(re_, dtype=torch.float64), it, (H, W))).reshape(-1)
            sc = _n(E, pu.sum_patches(torch.tensor(np.array(re_) + 1j * np.array(im_)), it, (H, W))).reshape(-1)
            ga = _n(E, pt.obj_model._get_obj_patches(torch.tensor((np.array(ore) + 1j * np.array(oim)).reshape(1, H, W)), it))[0]
        z_exprs.append("map (gen_sum_patches_base 0%%Z Z.add Z.mul (%s) %s) (seq 0 %d)" % (cnl(idx), zl_(re_), H * W))
        z_want.append([int(round(x)) for x in sb])
        z_exprs.append("map (gen_sum_patches_complex 0%%Z Z.add Z.mul %d%%Z (%s) %s %s) (seq 0 %d)" % (CI, cnl(idx), zl_(re_), zl_(im_), H * W))
        z_want.append([int(round(x.real)) + CI * int(round(x.imag)) for x in sc])
        z_exprs.append("gen_get_obj_patches 0%%Z Z.add Z.mul %d%%Z (fun n => nth n %s 0%%Z) (fun n => nth n %s 0%%Z) (%s)"
                       % (CI, zl_(ore), zl_(oim), cnl(idx)))
        z_want.append([int(round(x.real)) + CI * int(round(x.imag)) for x in ga])
    def judge_z(zv):
        for e_, v, w in zip(z_exprs, zv, z_want):
            nvals[0] += len(w)
            if [int(x) for x in v] != w:
                bad.append("%s evaluates to %s, the real function gives %s" % (e_[:60], v, w))
    # ---- (3) Fourier multipliers, detector, projection on the binary64 instance vs the real functions
    f_exprs, f_tol = [], []
    GA = ("cf0 cf1 cfadd cfmul cfsub cfconj (gN1 g) (C16F.T1 g) (fNinv (gN1 g)) (gN2 g) (C16F.T2 g) (fNinv (gN2 g)) (C16F.frs g) (C16F.frsi g) "
          "C16F.fph C16F.fisq C16F.feps")
    for (n1, n2), M in zip(r.sample([(4, 4), (5, 4), (3, 5), (4, 6), (5, 5)], 3), (1, 2, 3)):
        g = _grid(E, n1, n2)
        pt = E.pt((n1, n2), M, 1)
        x = _c(E, rng, (n1, n2))
        s = np.array([[round(r.uniform(-3, 3), 3), round(r.uniform(-3, 3), 3)]])
        a = rng.uniform(0.1, 2.0, size=(1, n1, n2))
        psi = _c(E, rng, (M, 1, n1, n2))
        with torch.no_grad():
            ramp = _n(E, pu.fourier_translation_operator(torch.tensor(s), (n1, n2)))[0]
            sh_ = _n(E, pu.fourier_shift_expand(torch.tensor(x), torch.tensor(s)))[0]
            pr1 = _n(E, pt._propagate_array(torch.tensor(x), torch.tensor(ramp)))
            pr2 = _n(E, pt.obj_model._propagate_array(torch.tensor(x), torch.tensor(ramp)))
            P1_t = pt.fourier_projection(torch.tensor(a), torch.tensor(psi))
            P1 = _n(E, P1_t)
            I = _n(E, pt.detector_model.forward(torch.tensor(psi)))
            I2 = _n(E, pt.estimate_intensities(torch.tensor(psi)))
            G = _n(E, pt.gradient_step(torch.tensor(a), torch.tensor(psi)))
        ps = "[%s]" % "; ".join(_sig2(psi[m, 0]) for m in range(M))
        for nm, want in (("gen_shift_expand", sh_), ("gen_propagate_base", pr1), ("gen_propagate_obj", pr2)):
            f_exprs.append("let g := %s in C16F.cmp2 g (%s %s %s %s) %s" % (g, nm, GA, _sig2(ramp), _sig2(x), _l2(want)))
            f_tol.append((nm, 1e-12))
        f_exprs.append("let g := %s in C16F.cmp2 g (gen_detector_forward %s %s) %s" % (g, GA, ps, _l2(I[0])))
        f_tol.append(("gen_detector_forward", 1e-12))
        f_exprs.append("let g := %s in C16F.cmp2 g (gen_estimate_intensities %s %s) %s" % (g, GA, ps, _l2(I2[0])))
        f_tol.append(("gen_estimate_intensities", 1e-12))
        if M == 1:
            f_exprs.append("let g := %s in C16F.cmp2 g (gen_fproj_single %s (rsig2 %s) %s) %s" % (g, GA, _r2(a[0]), _sig2(psi[0, 0]), _l2(P1[0, 0])))
            f_tol.append(("gen_fproj_single", 1e-11))
            f_exprs.append("let g := %s in C16F.cmp2 g (gen_gradient_step %s (rsig2 %s) %s) %s" % (g, GA, _r2(a[0]), _sig2(psi[0, 0]), _l2(G[0, 0])))
            f_tol.append(("gen_gradient_step", 1e-11))
        else:
            ws = "[%s]" % "; ".join(_l2(P1[m, 0]) for m in range(M))
            f_exprs.append("let g := %s in C16F.cmp2s g (gen_fproj_mixed %s (rsig2 %s) %s) %s" % (g, GA, _r2(a[0]), ps, ws))
            f_tol.append(("gen_fproj_mixed", 1e-11))
    def judge_f(fv):
        for (nm, tol), v in zip(f_tol, fv):
            for err, ref in _pairs(v):
                nvals[0] += int(n1 * n2)
                if not (err <= tol * max(ref, 1e-300)):
                    bad.append("%s (binary64 instance) differs from the real function: max |gen - impl| = %.3g, max |impl| = %.3g" % (nm, err, ref))

    # the three evaluations are independent coqc runs: concurrently
    from concurrent.futures import ThreadPoolExecutor
    with ThreadPoolExecutor(max_workers=3) as ex:
        fq_ = ex.submit(ctx.coq_eval, "tie_phase", PREK + gen_imp, q_exprs, 3, 600, flags)
        fz_ = ex.submit(ctx.coq_eval, "tie_scatter", PRE + gen_imp, z_exprs, 12, 600, flags)
        ff_ = ex.submit(ctx.coq_eval, "tie_float", PRE + gen_imp, f_exprs, 8, 600, flags)
        judge_q(fq_.result())
        judge_z(fz_.result())
        judge_f(ff_.result())
    nval = nvals[0]
    ctx.dist("tie/cross-test-expressions", len(q_exprs) + len(z_exprs) + len(f_exprs))
    ctx.dist("tie/cross-test-values", nval)
    ctx.cov["translator_tie"]["cross_test"] = {"expressions": len(q_exprs) + len(z_exprs) + len(f_exprs), "values": nval, "mismatches": len(bad)}
    for b in bad:
        ctx.cov["disagreements_checked"] += 1
        ctx.violation("tie-translator-cross-test", "the definition translated from the source does not compute what the source computes "
                      "(translator bug or an unmodelled construct): " + b, {"what": b}, found_input=False)
    ctx.log("translator cross-test: %d expressions, %d values, %d mismatches" % (len(q_exprs) + len(z_exprs) + len(f_exprs), nval, len(bad)))


def run(ctx: Ctx):
    for rel, names in [
        ("diffractive_imaging/ptycho_utils.py", ["fourier_shift_expand", "fourier_translation_operator", "sum_patches_base", "sum_patches"]),
        ("diffractive_imaging/ptychography_base.py", ["PtychographyBase.forward_operator", "PtychographyBase.overlap_projection",
                                                      "PtychographyBase.estimate_amplitudes", "PtychographyBase.estimate_intensities",
                                                      "PtychographyBase._propagate_array", "PtychographyBase.compute_propagator_arrays"]),
        ("diffractive_imaging/ptychography.py", ["Ptychography.fourier_projection", "Ptychography.gradient_step"]),
        ("diffractive_imaging/probe_models.py", ["ProbeBase._compute_propagator_arrays", "ProbePixelated.forward",
                                                 "ProbeParametric.forward"]),
        ("diffractive_imaging/detector_models.py", ["DetectorPixelated.forward"]),
        ("diffractive_imaging/object_models.py", ["ObjectBase._propagate_array", "ObjectBase._get_obj_patches",
                                                  "ObjectPixelated.forward", "ObjectPixelated.backward", "ObjectDIP.forward"]),
        ("diffractive_imaging/dataset_models.py", ["PtychographyDatasetBase._set_patch_indices"]),
    ]:
        ctx.hash_sources(rel, names)
    ctx.cov["rule"] = (
        "one case = (operator family, ROI shape incl. odd/even/non-square, parameters: shift vectors / distances, energy, "
        "sampling, tilt / scan positions with wrap-around and repeated indices, object padding / slices 1-4 x modes 1-3 / "
        "amplitude and exit-wave kind incl. zeros) with fresh random complex128 data; distinct = distinct (kind, shape, "
        "discrete parameters); every case evaluates all identities of its family on the real operators (oracle) and, "
        "for sizes <= 8x10, the binary64 instance of the Coq model on the same inputs (correspondence); round 3: input dtype "
        "(complex128 / complex64 / real float64) and layout (contiguous / strided view), patches forced to wrap around both "
        "axes, per-slice scatter, ProbeParametric / ObjectDIP variants, and for translate / propagate cases the exact rational "
        "phases of the model's kernel shapes (C16K.ramp_phases_fix / fresnel_phases_fix) against the angle of the arrays "
        "the code builds, modulo one turn; round 5: ARGUMENT FORMS (kind argforms, harness/c16_argforms.py): dtype (integer / float32 / "
        "float64 shift vectors, thicknesses, indices, amplitudes), container (list / tuple / numpy / torch), batching (unbatched / stack / "
        "one shift per item / modes x batch) and layout (contiguous / strided / Fortran) of every operator's inputs, with all identities of "
        "the text incl. the adjoints of translation and propagation; forms the unchanged operators reject (Python lists as shift vectors) "
        "are not generated; plus, before the cases, the translator tie (harness/c16_tie.py) and its cross-test")
    ctx.assumptions += [
        "numpy.fft / torch.fft compute the DFT; the twiddle table handed to the PrimFloat instance is numpy.exp",
        "theorems are algebra over an abstract commutative ring with exact roots of unity; agreement of the float "
        "implementation with that algebra is validated numerically (stated tolerances), not proved",
        "the kernels are modelled as shapes E(phase) over an abstract character E (E(a+b) = E a E b, E 0 = 1, conj(E a) = "
        "E(-a)); exp itself, tan of the tilt angle and the wavelength as a function of the energy are not modelled: the "
        "phase argument is tied to fourier_translation_operator / _compute_propagator_arrays by comparing the model's exact "
        "rational phase with the angle of the implementation's array modulo one turn (tolerance 4e-7 (1+|s|) turns for the "
        "ramp, 1e-5 + 8 eps32 |phase| rad for the float32 Fresnel kernel); the wavelength is cross-checked against the "
        "relativistic formula to 1e-6",
        "integer translation = roll: the meeting of the character with the root family (exp(-2 pi i fftfreq(k) s) = w^(k s) "
        "for integer s) is a hypothesis of C16_ramp_integer_is_roll, validated numerically",
        "ObjectDIP / ProbeParametric: oracle only (the operators they call are the modelled ones); real-valued input to "
        "fourier_shift_expand: oracle only",
        "mixed-state Fourier projection: claimed where the summed estimate is non-zero (>= 1e-2 in the oracle); the code adds "
        "eps = 1e-9 to every Fourier coefficient, so agreement there is to ~1e-9, not to rounding",
    ]
    ctx.cov["trusted_base"] += ["Coq 8.16.1 kernel + vm_compute", "lib/DFT_Float.v binary64 instance (PrimFloat primitives)",
                                "numpy reference reductions in harness/props/C16.py", "harness/toy_ptycho.py (builds the real objects)"]
    ctx.proofs_or_violation()
    tie_ok = False
    try:  # round 5: the operators' source (kernel builders, Fourier multipliers, detector / projection pipeline, scatter / gather),
        # translated from the CURRENT source, = the model's definitions for all inputs, by theorem (coq/gen_proofs/C16_Gen*.v)
        from ..c16_tie import run_tie
        tie_ok = run_tie(ctx)
    except Exception as e:  # noqa  (fail closed)
        ctx.broken_obligation = "; ".join(filter(None, [ctx.broken_obligation, "translator tie could not run: %r" % (e,)]))

    E = Env()
    if tie_ok:
        try:
            _tie_cross_test(ctx, E)
        except RuntimeError as e:
            ctx.violation("tie-cross-test-evaluation", "the translated definitions could not be evaluated: %s" % str(e)[-600:], {},
                          found_input=False)
    cases = []
    from ..common import VERIF
    for f in sorted((VERIF / "corpus" / "C16").glob("*.json")):          # regression cases always run first
        try:
            cases.append(dict(json.loads(f.read_text())["case"]))
            ctx.dist("corpus")
        except Exception as e:  # noqa
            ctx.log("unreadable corpus file %s: %r" % (f, e))
    cases += _gen(ctx)
    ctx.log("%d cases" % len(cases))
    results = []
    for case in cases:
        try:
            res = CASES[case["kind"]](E, case)
        except Exception as e:  # noqa  an exception inside an operator on valid input is a finding as well
            import traceback
            res = {"fails": [("%s-exception" % case["kind"], "%s raised %s: %s" % (case["kind"], type(e).__name__, str(e)[:300]))],
                   "coq": [], "info": {"trace": traceback.format_exc()[-1500:]}}
        results.append(res)
        shape = tuple(case.get("shape") or case.get("roi"))
        dk = (case["kind"], shape, case.get("slices"), case.get("modes"), case.get("amp_kind"), case.get("psi_kind"),
              case.get("index_mode"), case.get("backend"), tuple(case.get("tilt", ())) != (0.0, 0.0), bool(case.get("coq")),
              case.get("dtype"), case.get("layout"), case.get("wrap_both"), case.get("probe_class"), case.get("obj_type"))
        if case["kind"] == "argforms":
            dk = ("argforms", shape) + tuple(sorted((k, str(v)) for k, v in case.items()
                                                    if k.endswith(("_dtype", "_form", "_layout", "_shape")) or k in ("op", "backend", "form")))
            ctx.dist("argform/%s" % case["op"])
            if case["op"] == "translate":
                ctx.dist("argform/shift-vector-dtype/%s-%s" % (case["backend"], case["pos_dtype"]))
                ctx.dist("argform/array-dtype/%s" % case["arr_dtype"])
                ctx.dist("argform/call-form/%s" % case["form"])
                if case["pos_dtype"].startswith("int"):
                    ctx.dist("argform/shift-vector-integer-dtype")
            elif case["op"] == "propagate":
                ctx.dist("argform/thickness-form/%s" % case["thick_form"])
            elif case["op"] == "scatter":
                ctx.dist("argform/index-dtype/%s" % case["idx_dtype"])
        ctx.count(dk, nontrivial=True)
        ctx.dist("kind/" + case["kind"])
        if case.get("dtype") == "c64":
            ctx.dist("input/complex64")
        if case.get("layout") == "strided":
            ctx.dist("input/non-contiguous")
        if res["info"].get("wraps_both"):
            ctx.dist("adjoint/patch-wraps-both-axes")
        if case.get("probe_class") == "parametric" or case["kind"] == "variants":
            ctx.dist("variant/ProbeParametric")
        if case["kind"] == "variants":
            ctx.dist("variant/ObjectDIP-%s" % case["obj_type"])
        ctx.dist("shape/%s" % ("odd" if (shape[0] % 2 or shape[1] % 2) else "even") + ("-square" if shape[0] == shape[1] else "-nonsquare"))
        if "slices" in case and case["kind"] in ("pure_phase", "pipeline"):
            ctx.dist("slices/%d" % case["slices"])
        if "modes" in case:
            ctx.dist("modes/%d" % case["modes"])
        for key, what in res["fails"]:
            ctx.violation(key, what, {"case": _slim(case), "trace": res["info"].get("trace")}, found_input=True)
        for key, what in res.get("corr", []):
            ctx.cov["disagreements_checked"] += 1
            ctx.violation(key, what, {"case": _slim(case)}, found_input=bool(res["fails"]))
    ctx.log("oracle done")
    # correspondence
    exprs, owner = [], []
    for ci, res in enumerate(results):
        for item in res["coq"]:
            exprs.append(item)
            owner.append(ci)
    ctx.dist("coq/expressions", len(exprs))
    ctx.dist("coq/phase-expressions", sum(1 for it in exprs if it[3] == "turns"))
    if exprs:
        try:
            vals = _eval_exprs(ctx, "corr", exprs)
        except RuntimeError as e:
            ctx.violation("model-evaluation", "the Coq model could not be evaluated: %s" % str(e)[-600:], {"exprs": len(exprs)},
                          found_input=False)
            vals = None
        if vals is not None:
            pos = 0
            for ci, res in enumerate(results):
                k = len(res["coq"])
                if not k:
                    continue
                bad = _judge(ctx, cases[ci], res, vals[pos:pos + k])
                pos += k
                ctx.cov["traces_validated_against_impl"] += 1
                for key, what in bad:
                    ctx.cov["disagreements_checked"] += 1
                    ctx.violation(key, what, {"case": _slim(cases[ci])}, found_input=bool(res["fails"]))
    for c in cases[:3] + [c for c in cases if c["kind"] == "fproj"][:2] + [c for c in cases if c["kind"] == "pure_phase"][:1]:
        ctx.sample(c)
    ctx.log("done")


def replay(ctx: Ctx, path):
    d = json.loads(open(path).read())
    case = d.get("case")
    if not case:
        print("replay file has no case (broken obligation?):", d.get("what"))
        ok = ctx.require_proofs()
        print("proofs:", "ok" if ok else ctx._proof_problems)
        try:
            from ..c16_tie import run_tie
            ok2 = run_tie(ctx)
        except Exception as e:  # noqa
            print("translator tie could not run: %r" % (e,))
            ok2 = False
        print("translator tie:", "holds" if ok2 else ctx.cov.get("translator_tie", {}).get("problems"))
        return 0 if ok and ok2 else 1
    E = Env()
    case = dict(case)
    res = CASES[case["kind"]](E, case)
    print("case:", json.dumps(case))
    rc = 0
    for key, what in res["fails"]:
        print("ORACLE FAIL [%s]: %s" % (key, what))
        rc = 1
    for key, what in res.get("corr", []):
        print("CORRESPONDENCE FAIL [%s]: %s" % (key, what))
        rc = 1
    if res["coq"]:
        vals = _eval_exprs(ctx, "replay", res["coq"])
        for (label, _e, tol, kind), v in zip(res["coq"], vals):
            if kind == "turns":
                print("  model phases `%s`: %d x %d values floor(phase * 2^64)" % (label, len(v), len(v[0]) if v else 0))
                continue
            print("  model vs impl `%s`: %s (tol %.1g)" % (label, _pairs(v) if kind == "cmp" else v, tol))
        for key, what in _judge(ctx, case, res, vals):
            print("CORRESPONDENCE FAIL [%s]: %s" % (key, what))
            rc = 1
    if rc == 0:
        print("property holds on this case")
    return rc
