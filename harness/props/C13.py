"""C13 — image registration returns the applied shift with a consistent sign convention.

Theorems: coq/props/C13_Properties.v (model coq/model/C13_Model.v, proofs coq/proof/C13_Proofs*.v).

Tie to /repo (every run):
  oracle         the property text evaluated on the real NumPy and torch estimators: band-limited
                 images, exact integer (np.roll) and dyadic sub-pixel (exact Fourier phase ramp)
                 circular shifts anywhere in the periodic cell, odd/even/non-square shapes, every
                 upsampling factor in {1,2,3,4,8,16,64}, real/Fourier inputs and outputs, max_shift,
                 return_shifted_image; identical images; swapped images.
  histories      3-6 registrations re-using the same arrays / spectra / tensors (round 4); images with a large mean
  tie            harness/c13_tie.py: index arithmetic translated from the current source, proved equal to the model
  correspondence the Coq model is run (vm_compute) on the correlation array and on the upsampled
                 window captured from the implementation (monkey-patched dft_upsample /
                 dftUpsample_torch / upsampled_correlation_torch) and must return the
                 implementation's shift; its stage-1 output must equal the (x0, y0) handed to
                 dft_upsample, its upsampleCenter the one handed to dftUpsample_torch; and the
                 sample coordinates of the two upsampling kernels, MEASURED on the implementation
                 through their linear response to single Fourier modes, must equal the model's
                 np_coord / t_coord for every upsampling factor.
"""
from __future__ import annotations

import json
import math
from fractions import Fraction

import numpy as np

from ..common import Ctx, clist, cnat, copt, cq

LEVEL = "proof"
UPS = [1, 2, 3, 4, 8, 16, 64]
SHAPES = [(8, 8), (9, 9), (12, 16), (15, 20), (16, 16), (21, 13), (24, 24), (20, 31), (32, 32), (17, 17)]
TOL_EXACT_NP = 1e-9       # float64 rounding of the FFTs / parabolas (measured <= 1e-12)
TOL_EXACT_T = 2e-4        # torch builds its upsampling kernels in complex64 (python complex * float32 tensor):
                          # ~6e-8 relative noise in the window, divided by the peak curvature at the upsampled
                          # scale; measured <= 2e-5 pixel for up = 64
TOL_MODEL = 1e-6          # model (exact Q on 2^-40-quantised inputs) vs implementation (float64/32)

PRE = """From QV.lib Require Import Prelude.
From QV.model Require Import C13_Model.
From Coq Require Import QArith.
Local Close Scope Q_scope.
Definition show1 (r : option ((nat * nat) * (Q * Q))) :=
  match r with None => None
  | Some ((p, q), (x, y)) => Some [[Z.of_nat p; Z.of_nat q]; showq x; showq y] end.
Local Open Scope Z_scope.
"""


# --------------------------------------------------------------------------- images and shifts
def bl_image(seed: int, M: int, N: int) -> np.ndarray:
    """real band-limited image: random Hermitian spectrum with Gaussian-decaying amplitudes,
    strictly below Nyquist in both axes, small DC; built as an explicit cosine sum"""
    g = np.random.default_rng(seed)
    K1 = min((M - 1) // 2, 4)
    K2 = min((N - 1) // 2, 4)
    sig = g.uniform(1.2, 2.2)
    x = np.arange(M)[:, None]
    y = np.arange(N)[None, :]
    im = np.full((M, N), g.uniform(-0.2, 0.2))
    for kx in range(-K1, K1 + 1):
        for ky in range(-K2, K2 + 1):
            if (kx, ky) <= (0, 0):
                continue  # one of each +-k pair
            a = g.uniform(0.5, 1.0) * math.exp(-(kx * kx + ky * ky) / (2 * sig * sig))
            ph = g.uniform(0, 2 * np.pi)
            im = im + a * np.cos(2 * np.pi * (kx * x / M + ky * y / N) + ph)
    return im


def int_image(seed: int, M: int, N: int) -> np.ndarray:
    """small-integer image (exact integer correlations) with a smooth bump so the peak is clear"""
    g = np.random.default_rng(seed)
    return g.integers(-6, 7, size=(M, N)).astype(np.float64)


def make_image(kind: str, seed: int, M: int, N: int) -> np.ndarray:
    return bl_image(seed, M, N) if kind == "bl" else int_image(seed, M, N)


MEAN_RATIOS = [1.0, 1e1, 1e2, 1e3, 1e4, 1e5]      # image mean / image contrast (standard deviation)


def build_pair(case):
    """(ref, im): the image of the case and its circular translate.  `mean_ratio` r adds the constant
    r * std(image) (round 4: images with a large mean; the property is quantified over image contents with a
    unique correlation peak, and a constant does not change the correlation peak); with it the arrays are
    cast to the case's dtype BEFORE the integer roll, so the second image is the exact translate of the first"""
    M, N = case["M"], case["N"]
    ref = make_image(case.get("img", "bl"), case["seed"], M, N)
    ratio = case.get("mean_ratio", 0)
    if ratio:
        off = ratio * float(ref.std())
        ref = ref + (float(round(off)) if case.get("img") == "int" else off)
        dt = case.get("np_dtype" if case["est"] == "numpy" else "dtype", "float64")
        if dt == "float32":
            ref = ref.astype(np.float32)
    return ref, apply_shift(ref, case["shift"])


def build_args(case):
    """build_pair, and for a case marked `alias` whose two images are identical THE SAME OBJECT is handed over as
    both arguments (round 7; run_numpy / run_torch keep the identity, also for the spectra / tensors made from it)"""
    ref, im = build_pair(case)
    if case.get("alias") and ref.dtype == im.dtype and np.array_equal(ref, im):
        im = ref
    return ref, im


def dtype_eps(case) -> float:
    dt = case.get("np_dtype" if case["est"] == "numpy" else "dtype", "float64")
    if case["est"] == "torch" and dt != "float64":
        return 1.2e-7      # torch.fft promotes integer tensors to the default (single) precision
    return 1.2e-7 if dt in ("float32", "float16") else 2.3e-16


def is_int_shift(s) -> bool:
    return all(float(v).is_integer() for v in s)


def apply_shift(ref: np.ndarray, s) -> np.ndarray:
    """circular translation im[x] = ref[x - s]: np.roll for integers (bit exact), otherwise the
    exact Fourier phase ramp (ref is band-limited, so this is the unique band-limited translate)"""
    if is_int_shift(s):
        return np.roll(ref, (int(s[0]), int(s[1])), axis=(0, 1))
    M, N = ref.shape
    kx = np.fft.fftfreq(M)[:, None]
    ky = np.fft.fftfreq(N)[None, :]
    return np.real(np.fft.ifft2(np.fft.fft2(ref) * np.exp(-2j * np.pi * (kx * s[0] + ky * s[1]))))


def circ(d: float, n: int) -> float:
    """representative of d modulo n in [-n/2, n/2)"""
    return (d + 0.5 * n) % n - 0.5 * n


# --------------------------------------------------------------------------- running the implementation
def run_numpy(ref, im, up, ms=None, fft_in=False, rsi=False, fft_out=False):
    from quantem.core.utils.imaging_utils import cross_correlation_shift
    # `im is ref` (round 7: the caller registers an array against ITSELF) is kept: the same object is passed twice
    a = np.fft.fft2(ref) if fft_in else ref
    b = a if im is ref else (np.fft.fft2(im) if fft_in else im)
    with np.errstate(all="ignore"):
        out = cross_correlation_shift(a, b, upsample_factor=up, max_shift=ms, return_shifted_image=rsi,
                                      fft_input=fft_in, fft_output=fft_out)
    if rsi:
        sh, img = out
        return [float(sh[0]), float(sh[1])], np.asarray(img)
    return [float(out[0]), float(out[1])], None


def run_torch(ref, im, up, mode="real", dtype="float64"):
    import torch
    from quantem.core.utils import imaging_utils as iu
    td = torch.float64 if dtype == "float64" else torch.float32
    a = torch.tensor(np.ascontiguousarray(ref), dtype=td)
    b = a if im is ref else torch.tensor(np.ascontiguousarray(im), dtype=td)
    if mode == "real":
        r = iu.cross_correlation_shift_torch(a, b, upsample_factor=up)
        return [float(r[0]), float(r[1])], None
    # Fourier-space entry point: un-centred result
    Fa = torch.fft.fft2(a)
    r = iu.align_images_fourier_torch(Fa, Fa if b is a else torch.fft.fft2(b), up)
    M, N = ref.shape
    return [circ(float(r[0]), M), circ(float(r[1]), N)], None


def run_est(case, ref, im):
    """the estimator's answer; an exception raised by the implementation is part of its observable
    behaviour (reported by the oracle as a non-finite result with the message attached)"""
    try:
        if case["est"] == "numpy":
            return run_numpy(ref, im, case["up"], case.get("ms"), case.get("fft_in", False),
                             case.get("rsi", False), case.get("fft_out", False))
        return run_torch(ref, im, case["up"], case.get("mode", "real"), case.get("dtype", "float64"))
    except Exception as e:  # noqa: BLE001
        case["_raised"] = "%s: %s" % (type(e).__name__, str(e)[:200])
        return [float("nan"), float("nan")], None


# --------------------------------------------------------------------------- the property oracle
def tol_for(case) -> float:
    return _tol_base(case) + 4.0 * dtype_eps(case) * case.get("mean_ratio", 0)
    # a mean of r x contrast stored in a dtype of relative precision eps carries the image with relative
    # precision eps * r: "exact" is judged to that (measured on the repaired code: <= 0.3 eps r pixel)


def _tol_base(case) -> float:
    s = case["shift"]
    if is_int_shift(s):
        if case["est"] == "numpy":
            # numpy >= 2 keeps single precision in np.fft: float32 images give a complex64 correlation
            # (float16 is computed in single precision too; integer dtypes are promoted to float64)
            return TOL_EXACT_NP if case.get("np_dtype", "float64") not in ("float32", "float16") else 2e-3
        return TOL_EXACT_T if case.get("dtype", "float64") == "float64" else 2e-3
    # sub-pixel: one upsampled pixel; without upsampling the 3-point parabola's vertex lies within
    # half a pixel of the coarse peak (C13_parabola_within_half) on the side of the larger
    # neighbour, i.e. within 1/2 pixel of the true peak; torch rounds that to the half-pixel grid
    # for up <= 2, so min(1/up, 1/2) bounds every configuration
    return min(1.0 / case["up"], 0.5)


def up_class(case):
    return "%s-%s" % (case["est"], "up1" if case["up"] == 1 else
                      ("halfpixel" if case["est"] == "torch" and case["up"] == 2 else "upsampled"))


def oracle(case, ref, im, res, img, res_swap):
    """returns [(key, message)] for every clause of the property that fails on this case"""
    M, N = ref.shape
    s = case["shift"]
    bad = []
    cls = up_class(case)
    if "_raised" in case:
        return [("%s-raised" % cls, "the estimator raised %s (shape %s, shift %s, upsample_factor %d)"
                 % (case["_raised"], (M, N), s, case["up"]))]
    if not all(math.isfinite(v) for v in res):
        return [("%s-nonfinite" % cls, "returned shift %s is not finite" % (res,))]
    tol = tol_for(case)
    err = [abs(circ(res[0] + s[0], M)), abs(circ(res[1] + s[1], N))]
    case["_err_up"] = max(err) * case["up"]
    ident = (s[0] == 0 and s[1] == 0)
    if max(err) > tol and case.get("ms_kind") == "tight":
        bad.append(("%s-max-shift-neighbour-masked" % cls,
                    "max_shift=%r admits the applied translation %s (coarse-peak radius %.4g) but the returned "
                    "shift %s is not the expected %s within %.3g (shape %s, upsample_factor %d)"
                    % (case.get("ms"), s, admit_radius(case), res, [circ(-s[0], M), circ(-s[1], N)], tol,
                       (M, N), case["up"])))
    elif max(err) > tol:
        if ident:
            bad.append(("%s-identical-nonzero" % cls,
                        "identical images (shape %s, upsample_factor %d) give shift %s instead of (0, 0)"
                        % ((M, N), case["up"], res)))
        elif is_int_shift(s):
            bad.append(("%s-integer-shift-wrong" % cls,
                        "integer translation %s (shape %s, upsample_factor %d): returned %s, expected %s "
                        "(translating the second image by the returned shift must reproduce the first)"
                        % (s, (M, N), case["up"], res, [circ(-s[0], M), circ(-s[1], N)])))
        else:
            bad.append(("%s-subpixel-outside-one-upsampled-pixel" % cls,
                        "sub-pixel translation %s (shape %s, upsample_factor %d): returned %s, expected %s "
                        "within %.4g" % (s, (M, N), case["up"], res, [circ(-s[0], M), circ(-s[1], N)], tol)))
    rng_tol = 1e-6 if case["est"] == "numpy" else 1e-3
    if not (-M / 2 - rng_tol <= res[0] <= M / 2 + rng_tol and -N / 2 - rng_tol <= res[1] <= N / 2 + rng_tol):
        bad.append(("%s-not-centred" % cls, "returned shift %s outside [-n/2, n/2) for shape %s" % (res, (M, N))))
    # sign convention, evaluated directly: translate the second image by the returned shift
    if is_int_shift(s) and max(err) <= tol:
        t = (int(round(res[0])), int(round(res[1])))
        if not np.array_equal(np.roll(im, t, axis=(0, 1)), ref):
            bad.append(("%s-convention" % cls, "rolling the second image by the returned %s does not reproduce "
                        "the first" % (t,)))
    if img is not None:
        F_exp = np.fft.fft2(im) * np.exp(-2j * np.pi * (np.fft.fftfreq(M)[:, None] * res[0]
                                                         + np.fft.fftfreq(N)[None, :] * res[1]))
        F_ref = np.fft.fft2(ref)
        if case.get("fft_out"):
            got_F = np.asarray(img)
            shape_ok = got_F.shape == (M, N)
        else:
            shape_ok = np.asarray(img).shape == (M, N) and not np.iscomplexobj(img)
            got_F = np.fft.fft2(np.asarray(img)) if shape_ok else None
        scale = np.abs(F_ref).max()
        if not shape_ok:
            bad.append(("%s-aligned-image-type" % cls, "aligned image has the wrong shape/dtype"))
        else:
            d1 = np.abs(got_F - F_exp).max() / scale
            if d1 > 1e-9:
                bad.append(("%s-aligned-image-not-shifted-by-result" % cls,
                            "the returned image is not the second image translated by the returned shift "
                            "(rel. error %.3g)" % d1))
            # ... and it matches the reference as far as the shift error allows:
            # |F_k (e^{i k.e} - 1)| <= |F_k| 2 pi |k.e| / n
            kk = 2 * np.pi * (np.abs(np.fft.fftfreq(M))[:, None] * err[0] + np.abs(np.fft.fftfreq(N))[None, :] * err[1])
            bound = (np.abs(F_ref) * kk).max() / scale + 1e-9
            d2 = np.abs(got_F - F_ref).max() / scale
            if d2 > bound * 1.001 + (0 if max(err) <= tol else 1e9):
                bad.append(("%s-aligned-image-mismatch" % cls,
                            "the aligned image does not match the reference (rel. error %.3g, allowed %.3g)" % (d2, bound)))
    if res_swap is not None:
        if not all(math.isfinite(v) for v in res_swap):
            bad.append(("%s-swap-nonfinite" % cls, "swapped call returned %s" % (res_swap,)))
        else:
            d = [abs(circ(res[0] + res_swap[0], M)), abs(circ(res[1] + res_swap[1], N))]
            # integer shifts: exact negation; sub-pixel: each call is within tol of +-s, and away
            # from ties of the coarse/upsampled argmax the two results are mirror images
            stol = 2 * tol
            if max(d) > stol:
                bad.append(("%s-swap-not-negated" % cls,
                            "swapping the images gives %s, not the negative of %s (shape %s, shift %s, up %d)"
                            % (res_swap, res, (M, N), s, case["up"])))
    return bad


# --------------------------------------------------------------------------- case generation
def admit_radius(case) -> float:
    """radius of the farthest correlation pixel that can be the coarse peak of this case (the
    pixel(s) nearest to the true offset -shift): a max_shift above it admits the applied shift;
    the property says nothing about masks that exclude the peak"""
    M, N = case["M"], case["N"]
    ox, oy = circ(-case["shift"][0], M), circ(-case["shift"][1], N)
    cand = []
    for px in {math.floor(ox), math.ceil(ox)}:
        for py in {math.floor(oy), math.ceil(oy)}:
            cand.append(math.hypot(circ(px, M), circ(py, N)))
    return max(cand)


def pick_max_shift(r, case) -> float:
    """max_shift settings that admit the applied shift: TIGHT ones (the peak is admitted, one or
    more of the parabola's neighbours are masked) and roomy ones"""
    rad = admit_radius(case)
    kind = r.choice(["tight", "tight", "room", "room", "huge"])
    case["ms_kind"] = kind
    if kind == "tight":
        return rad + r.choice([0.05, 0.2, 0.5, 0.9])
    if kind == "room":
        return r.choice([rad + 2.5, rad + 2.5 + r.random() * 5, float(math.ceil(rad + 3))])
    return 64.0


def gen_cases(ctx: Ctx):
    r = ctx.rng
    cases = []

    def shift_of(kind, M, N):
        if kind == "zero":
            return [0.0, 0.0]
        if kind == "int":
            return [float(r.randint(-M, 2 * M)), float(r.randint(-N, 2 * N))]      # incl. beyond the cell
        if kind == "half-size":
            return [float(M // 2), float(r.randint(0, N - 1))] if r.random() < 0.5 else \
                [float(r.randint(0, M - 1)), float((N + 1) // 2)]
        if kind == "half-both":
            # correlation peak exactly on the half-size boundary of both axes (even sizes): the centred
            # cell is half open, so -n/2 is the value in range; +n/2 - ulp is what float rounding of the
            # refined peak may legitimately give (judged modulo the size, and |component| <= n/2)
            return [float(M // 2 if M % 2 == 0 else r.randint(0, M - 1)),
                    float(N // 2 if N % 2 == 0 else r.randint(0, N - 1))]
        if kind == "wrap":
            # offset -shift in [n/2 - 1, n/2 + 1): around the seam of the centred cell [-n/2, n/2)
            return [-(M / 2.0 + r.choice([-0.75, -0.25, 0.0, 0.125, 0.25, 0.375, 0.75])),
                    -(N / 2.0 + r.choice([-0.75, -0.25, 0.0, 0.125, 0.25, 0.375, 0.75]))]
        den = r.choice([2, 4, 8, 16, 64])
        return [r.randint(-M * den, M * den) / den, r.randint(-N * den, N * den) / den]

    def one(est, kind, up, shape=None, **kw):
        M, N = shape or r.choice(SHAPES)
        c = {"est": est, "img": "bl", "seed": r.randrange(1 << 30), "M": M, "N": N, "up": up,
             "shift": shift_of(kind, M, N), "kind": kind}
        if kind == "zero" and c["seed"] % 2 == 0:
            c["alias"] = True       # round 7: identical images as THE SAME OBJECT (build_args); odd seeds: an equal copy
        c.update(kw)
        return c

    # every (estimator, upsampling factor, shift kind) at least twice, then a random stream
    for est in ("numpy", "torch"):
        for up in UPS:
            for kind in ("zero", "int", "int", "half-size", "sub", "sub", "wrap"):
                cases.append(one(est, kind, up))
            cases.append(one(est, "wrap", up, r.choice([(9, 9), (15, 20), (21, 13), (17, 17)])))
    # the correlation peak exactly on the half-size boundary of both axes, every factor, both estimators
    for est in ("numpy", "torch"):
        for up in UPS:
            cases.append(one(est, "half-both", up, r.choice([(8, 8), (12, 16), (16, 16), (24, 24), (32, 32)]),
                             img=r.choice(["bl", "int"])))
    # max_shift that admits the applied shift but masks a neighbour of the peak, every factor
    for up in UPS:
        for kind in ("int", "sub", "zero"):
            c = one("numpy", kind, up)
            c["ms"] = admit_radius(c) + r.choice([0.05, 0.3, 0.9])
            c["ms_kind"] = "tight"
            c["rsi"] = kind == "int"
            cases.append(c)
    # identical images, every shape and factor (cheap; this clause is quantified over every factor)
    for shape in SHAPES:
        for up in UPS:
            cases.append(one("numpy", "zero", up, shape))
            cases[-1]["rsi"] = True                          # round 7: the aligned image of identical images is judged too
            cases[-1]["fft_out"] = (cases[-1]["seed"] // 2) % 2 == 0
            if up in (1, 3, 4, 16):
                cases.append(one("torch", "zero", up, shape))
    # round 4: images with a large mean (0 .. 1e5 x their contrast), float32 and float64, both estimators: the
    # zero-frequency term of the cross spectrum (N^2 mean^2) must not swamp the correlation peak
    for est in ("numpy", "torch"):
        for dt in ("float32", "float64"):
            for ratio in MEAN_RATIOS:
                for kind in ("zero", "int"):
                    c = one(est, kind, r.choice(UPS), mean_ratio=ratio)
                    c["np_dtype" if est == "numpy" else "dtype"] = dt
                    cases.append(c)
    n = ctx.budget(220, 9000)
    for _ in range(n):
        est = r.choice(["numpy", "numpy", "torch"])
        kind = r.choice(["int", "int", "sub", "sub", "sub", "half-size", "zero", "wrap"])
        up = r.choice(UPS)
        c = one(est, kind, up)
        if r.random() < 0.2:
            c["mean_ratio"] = r.choice(MEAN_RATIOS)
            if kind in ("int", "zero", "half-size") and r.random() < 0.5:
                c["np_dtype" if est == "numpy" else "dtype"] = "float32"
        if est == "numpy":
            c["fft_in"] = r.random() < 0.4
            c["rsi"] = r.random() < 0.6
            c["fft_out"] = c["rsi"] and r.random() < 0.5
            if r.random() < 0.4:
                c["ms"] = pick_max_shift(r, c)
        else:
            c["mode"] = r.choice(["real", "real", "fourier"])
            if "dtype" not in c:
                c["dtype"] = "float32" if (r.random() < 0.15 and not (c.get("mean_ratio") and kind in ("sub", "wrap"))) else "float64"
        if est == "numpy" and c.get("np_dtype") == "float32":
            c["rsi"] = c["fft_out"] = False       # the aligned-image clause is judged at float64 precision
        cases.append(c)
    return cases


def run_case(case):
    ref, im = build_args(case)
    res, img = run_est(case, ref, im)
    sw = dict(case)
    sw["rsi"] = False
    sw["fft_out"] = False
    res_swap, _ = run_est(sw, im, ref)
    if "_raised" in sw and "_raised" not in case:
        case["_raised"] = "(images swapped) " + sw["_raised"]
    return ref, im, res, img, res_swap


def public(case):
    return {k: v for k, v in case.items() if not k.startswith("_")}


def corpus_cases(histories=False, kind=None):
    """regression inputs that always run first: the concrete inputs of the two defects found by
    this check (both repaired in /repo) and the seam / half-size corner cases"""
    from ..common import VERIF
    out = []
    d = VERIF / "corpus" / "C13"
    for f in sorted(d.glob("*.json")) if d.is_dir() else []:
        try:
            rp = json.loads(f.read_text())
        except Exception:  # noqa: BLE001
            continue
        if kind is not None or rp.get("kind") == "dtype":
            if isinstance(rp.get("case"), dict) and rp.get("kind") == kind:
                out.append(dict(rp["case"]))
            continue
        if isinstance(rp.get("case"), dict) and (rp.get("kind") == "history") == histories:
            c = dict(rp["case"])
            if not histories:
                c["_corpus"] = f.name
            out.append(c)
    return out


def check_oracle(ctx: Ctx):
    corpus = corpus_cases()
    for c in corpus:
        ctx.dist("oracle/corpus")
    cases = corpus + gen_cases(ctx)
    worst = {}
    nbad = 0
    for case in cases:
        ref, im, res, img, res_swap = run_case(case)
        bad = oracle(case, ref, im, res, img, res_swap)
        cls = up_class(case)
        ctx.dist("oracle/%s/%s" % (cls, case["kind"]))
        ctx.dist("oracle/shape=%s" % ("square-even" if case["M"] == case["N"] and case["M"] % 2 == 0 else
                                      "square-odd" if case["M"] == case["N"] else "non-square"))
        ctx.dist("oracle/up=%d" % case["up"])
        if case["est"] == "numpy":
            ctx.dist("oracle/numpy-io/%s%s%s%s" % ("F" if case.get("fft_in") else "r",
                                                    "+img" if case.get("rsi") else "",
                                                    "(F)" if case.get("fft_out") else "",
                                                    ("+max_shift-" + case.get("ms_kind", "room")) if case.get("ms") else ""))
        else:
            ctx.dist("oracle/torch-io/%s/%s" % (case.get("mode", "real"), case.get("dtype", "float64")))
        if case.get("mean_ratio"):
            ctx.dist("oracle/mean=%gx-contrast/%s" % (case["mean_ratio"], case.get("np_dtype" if case["est"] == "numpy" else "dtype", "float64")))
            bad = [(k + "-large-mean", "[image mean = %g x its contrast, %s] %s" % (
                case["mean_ratio"], case.get("np_dtype" if case["est"] == "numpy" else "dtype", "float64"), m_)) for k, m_ in bad]
        else:
            ctx.dist("oracle/mean=small")
        if case["kind"] == "zero":
            ctx.dist("oracle/identical/%s" % ("same-object" if case.get("alias") else "equal-copy"))
        beyond = abs(case["shift"][0]) > case["M"] / 2 or abs(case["shift"][1]) > case["N"] / 2
        if beyond:
            ctx.dist("oracle/shift-beyond-half-size")
        ctx.count(("oracle", json.dumps(public(case), sort_keys=True)), nontrivial=case["kind"] != "zero" or case["up"] > 1)
        if "_err_up" in case and not is_int_shift(case["shift"]):
            worst[cls] = max(worst.get(cls, 0.0), case["_err_up"])
        for key, msg in bad:
            nbad += 1
            ctx.violation(key, msg, {"kind": "oracle", "case": public(case), "returned": res, "swapped": res_swap})
    ctx.cov["max_subpixel_error_in_upsampled_pixels"] = {k: round(v, 4) for k, v in worst.items()}
    ctx.sample({"kind": "oracle", "case": public(cases[len(cases) // 2])})
    ctx.log("oracle: %d cases, %d failed clauses; worst sub-pixel error (upsampled px): %s" % (len(cases), nbad, worst))


# --------------------------------------------------------------------------- capture
class Capture:
    """records the calls the estimators make to their upsampling helpers (arguments and results)"""

    def __init__(self):
        from quantem.core.utils import imaging_utils as iu
        self.iu = iu
        self.np_calls, self.t_calls, self.t_up_calls = [], [], []

    def __enter__(self):
        iu = self.iu
        self._orig = (iu.dft_upsample, iu.dftUpsample_torch, iu.upsampled_correlation_torch)
        o_np, o_t, o_tu = self._orig

        def dft_upsample(F, up, shift, *a, **k):
            out = o_np(F, up, shift, *a, **k)
            self.np_calls.append({"up": int(up), "shift": (float(shift[0]), float(shift[1])), "out": np.array(out)})
            return out

        def dftUpsample_torch(imageCorr, upsampleFactor, xyShift):
            out = o_t(imageCorr, upsampleFactor, xyShift)
            self.t_calls.append({"up": int(upsampleFactor), "center": (float(xyShift[0]), float(xyShift[1])),
                                 "out": out.detach().cpu().numpy().astype(np.float64)})
            return out

        def upsampled_correlation_torch(imageCorr, upsampleFactor, xyShift):
            self.t_up_calls.append({"up": int(upsampleFactor), "xy": (float(xyShift[0]), float(xyShift[1]))})
            return o_tu(imageCorr, upsampleFactor, xyShift)

        iu.dft_upsample, iu.dftUpsample_torch, iu.upsampled_correlation_torch = (
            dft_upsample, dftUpsample_torch, upsampled_correlation_torch)
        return self

    def __exit__(self, *a):
        iu = self.iu
        iu.dft_upsample, iu.dftUpsample_torch, iu.upsampled_correlation_torch = self._orig


# --------------------------------------------------------------------------- model expressions
def cz_list(a) -> str:
    return "[" + "; ".join(str(int(v)) for v in a) + "]%Z"


def quantise(a: np.ndarray, bits=40):
    """array -> integers z with a ~ z * unit (relative resolution 2^-bits of the largest entry)"""
    m = float(np.abs(a).max()) or 1.0
    unit = m / (1 << bits)
    return [int(round(float(v) / unit)) for v in np.asarray(a, dtype=np.float64).ravel()]


def exact_xcorr(ref, im):
    """circular cross-correlation cc[k,l] = sum_x ref[x+k] im[x], by the definition (xcorr_theorem),
    in exact integer arithmetic for integer images"""
    M, N = ref.shape
    a = ref.astype(np.int64)
    b = im.astype(np.int64)
    cc = np.zeros((M, N), dtype=np.int64)
    for k in range(M):
        ra = np.roll(a, -k, axis=0)
        for l in range(N):
            cc[k, l] = int((np.roll(ra, -l, axis=1) * b).sum())
    return cc


def fr(x: float) -> Fraction:
    return Fraction(*float(x).as_integer_ratio())


def to_frac(v):
    """(num, den) printed by showq -> Fraction"""
    return Fraction(int(v[0]), int(v[1]))


def window_fun(W, loc_ints):
    return "(fun _ _ => arr %s 1%%positive %s)" % (cnat(W), cz_list(loc_ints))


def du_of(up):
    return (3 * up + 1) // 2


# --------------------------------------------------------------------------- measured sample coordinates
def measure_np_coords(M, N, up, shift):
    """sample positions (mod M, mod N) of dft_upsample(., up, shift), measured through its response
    to the single Fourier modes e_(1,0), e_(0,1) (and i times them): local = Re sum F exp(2 pi i f x / n)"""
    from quantem.core.utils.imaging_utils import dft_upsample
    out = []
    for axis, n in ((0, M), (1, N)):
        F = np.zeros((M, N), dtype=np.complex128)
        idx = (1, 0) if axis == 0 else (0, 1)
        F[idx] = 1.0
        c = np.asarray(dft_upsample(F, up, shift))
        F[idx] = -1j
        s_ = np.asarray(dft_upsample(F, up, shift))
        mid = c.shape[1 - axis] // 2
        cv = c[:, mid] if axis == 0 else c[mid, :]
        sv = s_[:, mid] if axis == 0 else s_[mid, :]
        # the other axis only contributes exp(0) = 1 for this mode, so any column will do
        out.append(((np.arctan2(sv, cv) * n / (2 * np.pi)) % n, np.hypot(sv, cv)))
    return out


def measure_t_coords(M, N, up, center):
    """same for dftUpsample_torch (called on conj(cc), result conjugated):
    out = Re sum X exp(-2 pi i f (a - ctr) / (n up))"""
    import torch
    from quantem.core.utils.imaging_utils import dftUpsample_torch
    out = []
    ctr = torch.tensor([center[0], center[1]], dtype=torch.float64)
    for axis, n in ((0, M), (1, N)):
        X = torch.zeros((M, N), dtype=torch.complex128)
        idx = (1, 0) if axis == 0 else (0, 1)
        X[idx] = 1.0
        c = dftUpsample_torch(X, up, ctr).numpy()
        X[idx] = 1j
        s_ = dftUpsample_torch(X, up, ctr).numpy()
        cv = c[:, 0] if axis == 0 else c[0, :]
        sv = s_[:, 0] if axis == 0 else s_[0, :]
        out.append(((np.arctan2(sv, cv) * n / (2 * np.pi)) % n, np.hypot(sv, cv)))
    return out


# --------------------------------------------------------------------------- correspondence
def gen_corr_cases(ctx: Ctx):
    r = ctx.rng
    cases = []
    shapes = [(6, 6), (7, 9), (8, 5), (9, 12), (10, 10), (11, 11), (12, 7)]
    ups_val = [1, 2, 3, 4, 8]

    def add(est, img, kind, up, shape=None, ms=False):
        M, N = shape or r.choice(shapes)
        if kind == "int":
            s = [float(r.randint(-M, 2 * M)), float(r.randint(-N, 2 * N))]
        elif kind == "zero":
            s = [0.0, 0.0]
        else:
            # dyadic sub-pixel shifts, but not exact half-pixels: there two correlation pixels tie
            # (to rounding) and which one a first-maximum argmax picks is not determined by the
            # exact model (the oracle stream does include them)
            den = r.choice([4, 8, 16])

            def draw(n):
                while True:
                    k = r.randint(-n * den, n * den)
                    if (2 * k) % den != 0:
                        return k / den
            s = [draw(M), draw(N)]
        c = {"est": est, "img": img, "seed": r.randrange(1 << 30), "M": M, "N": N, "up": up, "shift": s, "kind": kind}
        if kind == "zero" and c["seed"] % 2 == 0:
            c["alias"] = True       # round 7: the implementation is run on ONE object passed twice; the model is a function of values
        if ms:
            rad = admit_radius(c)
            if r.random() < 0.5:
                c["ms"] = float(math.floor(rad + 3)) + r.choice([0.0, 0.5])
            else:   # tight: admits the peak, masks neighbours (dyadic, so exact in the model)
                c["ms"] = math.floor((rad + r.choice([0.0625, 0.25, 0.75])) * 1024 + 1) / 1024.0
                c["ms_kind"] = "tight"
        cases.append(c)

    for est in ("numpy", "torch"):
        for up in ups_val + ([16] if not ctx.quick else []):
            for kind in ("zero", "int", "int", "sub"):
                add(est, "int" if kind != "sub" else "bl", kind, up)
    for up in (1, 2, 4):
        for kind in ("int", "sub"):
            add("numpy", "bl", kind, up, ms=True)
            cases[-1]["ms"] = math.floor((admit_radius(cases[-1]) + 0.25) * 1024 + 1) / 1024.0
            cases[-1]["ms_kind"] = "tight"
    for _ in range(ctx.budget(32, 800)):
        est = r.choice(["numpy", "torch"])
        kind = r.choice(["int", "int", "sub", "sub", "zero"])
        add(est, "int" if (kind != "sub" and r.random() < 0.7) else "bl", kind, r.choice(ups_val),
            ms=(est == "numpy" and r.random() < 0.3))
        if r.random() < 0.3:
            cases[-1]["mean_ratio"] = r.choice([1.0, 1e1, 1e2, 1e3])     # float64: the model is exact
    return cases


def check_correspondence(ctx: Ctx, cases=None):
    cases = gen_corr_cases(ctx) if cases is None else cases
    exprs, meta = [], []
    for case in cases:
        M, N, up = case["M"], case["N"], case["up"]
        ref, im = build_args(case)
        with Capture() as cap:
            res, _ = run_est(case, ref, im)
        # the correlation array, exactly as the implementation forms it (same numpy calls: the zero-frequency
        # bin of the cross spectrum is set to 0 before the inverse transform); for integer images the
        # model is given the defining sum (the cross-correlation theorem) and removes the mean itself
        # (zero_dc; C13_zero_frequency_bin_is_a_constant), and the two must agree
        spec = np.fft.fft2(ref) * np.conj(np.fft.fft2(im))
        spec[0, 0] = 0
        cc_impl = np.real(np.fft.ifft2(spec))
        if case["img"] == "int" and is_int_shift(case["shift"]):
            cci = exact_xcorr(ref, im)
            if np.abs((cci - cci.mean()) - cc_impl).max() > 1e-7 * max(1.0, np.abs(cci).max()):
                ctx.violation("xcorr-theorem-on-implementation",
                              "ifft2(F_ref conj F_im with the zero-frequency bin removed) differs from sum_x ref[x+k] im[x] "
                              "minus its mean", {"kind": "corr", "case": public(case)})
            srt = np.sort(cci.ravel())
            if srt[-1] == srt[-2]:
                continue  # no unique correlation peak: outside the property's quantifier
            ccf = "(zero_dc %s %s (arr %s 1%%positive %s))" % (cnat(M), cnat(N), cnat(N), cz_list([int(v) for v in cci.ravel()]))
        else:
            ccf = "(arr %s 1%%positive %s)" % (cnat(N), cz_list(quantise(cc_impl)))
        m = {"case": case, "res": res, "what": []}
        if case["est"] == "numpy":
            ms = case.get("ms")
            msq = copt(None if ms is None else fr(ms), cq)
            if up > 1:
                if len(cap.np_calls) != 1:
                    ctx.violation("numpy-upsample-call-correspondence", "dft_upsample called %d times" % len(cap.np_calls),
                                  {"kind": "corr", "case": public(case)}, found_input=False)
                    continue
                call = cap.np_calls[0]
                W = 2 * du_of(up) + 1
                if call["out"].shape != (W, W):
                    m["shape_bad"] = call["out"].shape
                    loc = "(fun _ _ _ _ => 0%Q)"
                else:
                    loc = window_fun(W, quantise(call["out"]))
                m["x0y0"] = call["shift"]
            else:
                loc = "(fun _ _ _ _ => 0%Q)"
            exprs.append("(show1 (np_stage1 %s %s %s %s), showqq (np_shift %s %s %s %s %s %s))" % (
                cnat(M), cnat(N), msq, ccf, cnat(M), cnat(N), msq, cnat(up), ccf, loc))
        else:
            if up > 2:
                if len(cap.t_calls) != 1 or len(cap.t_up_calls) != 1:
                    ctx.violation("torch-upsample-call-correspondence", "dftUpsample_torch called %d times" % len(cap.t_calls),
                                  {"kind": "corr", "case": public(case)}, found_input=False)
                    continue
                call = cap.t_calls[0]
                W = du_of(up)
                if call["out"].shape != (W, W):
                    m["shape_bad"] = call["out"].shape
                    loc = "(fun _ _ _ _ => 0%Q)"
                else:
                    loc = window_fun(W, quantise(call["out"]))
                m["half"] = cap.t_up_calls[0]["xy"]
                m["center"] = call["center"]
            else:
                loc = "(fun _ _ _ _ => 0%Q)"
            exprs.append(
                "(let h := torch_half %s %s %s in [showq (fst (snd h)); showq (snd (snd h)); "
                "showq (t_center %s (t_round %s (fst (snd h)))); showq (t_center %s (t_round %s (snd (snd h))))], "
                "showqq (torch_shift %s %s %s %s %s))" % (
                    cnat(M), cnat(N), ccf, cnat(up), cnat(up), cnat(up), cnat(up),
                    cnat(M), cnat(N), cnat(up), ccf, loc))
        meta.append(m)
    vals = ctx.coq_eval("corr", PRE, exprs, shard=12)
    nd = 0
    for m, v in zip(meta, vals):
        case, res = m["case"], m["res"]
        M, N, up = case["M"], case["N"], case["up"]
        problems = []
        if "shape_bad" in m:
            problems.append("window shape %s" % (m["shape_bad"],))
        if case["est"] == "numpy":
            st1, fin = v
            if up > 1 and st1 is not None:
                x0m = [float(to_frac(st1[1][1])), float(to_frac(st1[1][2]))]
                d = [abs(circ(x0m[0] - m["x0y0"][0], M)), abs(circ(x0m[1] - m["x0y0"][1], N))]
                if max(d) > TOL_MODEL:
                    problems.append("(x0, y0) handed to dft_upsample: impl %s model %s" % (m["x0y0"], x0m))
        else:
            hf, fin = v
            if up > 2:
                half_m = [float(to_frac(hf[0])), float(to_frac(hf[1]))]
                ctr_m = [float(to_frac(hf[2])), float(to_frac(hf[3]))]
                if max(abs(half_m[0] - m["half"][0]), abs(half_m[1] - m["half"][1])) > TOL_MODEL:
                    problems.append("half-pixel estimate: impl %s model %s" % (m["half"], half_m))
                if max(abs(ctr_m[0] - m["center"][0]), abs(ctr_m[1] - m["center"][1])) > 1e-4:
                    problems.append("upsampleCenter: impl %s model %s" % (m["center"], ctr_m))
        if fin is None:
            if all(math.isfinite(x) for x in res):
                problems.append("model: non-finite, impl: %s" % (res,))
            mres = None
        else:
            mres = [float(to_frac(fin[1][0])), float(to_frac(fin[1][1]))]  # Some [[n;d];[n;d]]
            tol = TOL_MODEL if case["est"] == "numpy" else TOL_EXACT_T
            if not all(math.isfinite(x) for x in res) or max(abs(circ(mres[0] - res[0], M)), abs(circ(mres[1] - res[1], N))) > tol:
                problems.append("returned shift: impl %s model %s" % (res, mres))
            else:
                # the representative in [-n/2, n/2) too (C13_centre_wrap), away from the seam where
                # float rounding may legitimately pick the other end
                for ax, n in ((0, M), (1, N)):
                    if abs(abs(mres[ax]) - n / 2.0) > 1e-3 and abs(mres[ax] - res[ax]) > tol:
                        problems.append("centred representative, axis %d: impl %r model %r" % (ax, res[ax], mres[ax]))
        ctx.cov["traces_validated_against_impl"] += 1
        ctx.dist("corr/%s/%s/%s%s%s" % (up_class(case), case["kind"], case["img"], "/large-mean" if case.get("mean_ratio") else "",
                                        "/same-object" if case.get("alias") else ""))
        ctx.count(("corr", json.dumps(public(case), sort_keys=True)), nontrivial=case["kind"] != "zero" or up > 1)
        if problems:
            nd += 1
            ctx.cov["disagreements_checked"] += 1
            ref, im = build_pair(case)
            obad = oracle(dict(case), ref, im, res, None, None)
            ctx.violation("%s-shift-correspondence" % up_class(case),
                          "model and implementation disagree (%s) on %s" % ("; ".join(problems), public(case)),
                          {"kind": "corr", "case": public(case), "impl": res, "model": mres, "oracle": [b[1] for b in obad]},
                          found_input=bool(obad))
    if meta:
        ctx.sample({"kind": "corr", "case": public(meta[len(meta) // 2]["case"]), "impl": meta[len(meta) // 2]["res"]})
    ctx.log("shift correspondence: %d cases, %d disagreements" % (len(meta), nd))
    return nd


def check_coordinates(ctx: Ctx):
    """the sample coordinates of the two upsampling kernels, measured on the implementation, vs
    np_coord / t_coord (+ t_center), for every upsampling factor"""
    r = ctx.rng
    exprs, meta = [], []
    shapes = [(5, 7), (8, 8), (9, 16), (16, 11), (12, 12), (31, 20)]
    for up in [2, 3, 4, 5, 8, 16, 64]:
        for rep in range(ctx.budget(3, 12)):
            M, N = r.choice(shapes)
            # x0 as the estimator produces it: in [0, n), arbitrary fraction (dyadic so exact in Q)
            x0 = r.randrange(0, M * 64) / 64.0 if rep else 0.0
            y0 = r.randrange(0, N * 1024) / 1024.0 if rep else 0.0
            W = 2 * du_of(up) + 1
            exprs.append("(map (fun a => showq (np_coord %s %s a)) (seq 0%%nat %s), map (fun a => showq (np_coord %s %s a)) (seq 0%%nat %s))"
                         % (cnat(up), cq(fr(x0)), cnat(W), cnat(up), cq(fr(y0)), cnat(W)))
            meta.append(("numpy", M, N, up, (x0, y0), W))
        if up > 2:
            for rep in range(ctx.budget(3, 12)):
                M, N = r.choice(shapes)
                # the half-pixel estimate handed to upsampled_correlation_torch
                hx = r.randrange(0, 2 * M) / 2.0 if rep else 0.0
                hy = r.randrange(0, 2 * N) / 2.0 if rep else 0.0
                W = du_of(up)
                exprs.append(
                    "(let xs := t_round %s %s in let ys := t_round %s %s in "
                    "([showq (t_center %s xs); showq (t_center %s ys)], "
                    "map (fun a => showq (t_coord %s (t_center %s xs) a)) (seq 0%%nat %s), "
                    "map (fun a => showq (t_coord %s (t_center %s ys) a)) (seq 0%%nat %s), "
                    "map (fun a => showq (xs + inject_Z (Z.of_nat a - Z.of_nat (t_gs %s)) / qN %s)%%Q) (seq 0%%nat %s)))"
                    % (cnat(up), cq(fr(hx)), cnat(up), cq(fr(hy)), cnat(up), cnat(up),
                       cnat(up), cnat(up), cnat(W), cnat(up), cnat(up), cnat(W), cnat(up), cnat(up), cnat(W)))
                meta.append(("torch", M, N, up, (hx, hy), W))
    vals = ctx.coq_eval("coords", PRE, exprs + [GEOM_EXPR], shard=8)
    geom_vals = vals.pop()          # the model's window geometry for every factor 1..64 (check_every_factor)
    nd = 0
    for (est, M, N, up, xy, W), v in zip(meta, vals):
        problems = []
        if est == "numpy":
            meas = measure_np_coords(M, N, up, xy)
            for axis, n in ((0, M), (1, N)):
                model = np.array([float(to_frac(q)) for q in v[axis]])
                got, amp = meas[axis]
                if got.shape != model.shape:
                    problems.append("axis %d: window of %d samples, model %d" % (axis, got.shape[0], model.shape[0]))
                elif np.abs(amp - 1).max() > 1e-9 or np.abs((got - model + n / 2) % n - n / 2).max() > 1e-7:
                    problems.append("axis %d: measured sample positions %s..., model (x0 + (a - du)/up) %s..." % (
                        axis, np.round(got[:4], 4).tolist(), np.round(model[:4] % n, 4).tolist()))
            key = "numpy-window-coordinates-correspondence"
        else:
            import torch
            from quantem.core.utils import imaging_utils as iu
            # the centre the implementation computes for this half-pixel estimate
            with Capture() as cap:
                cc0 = torch.ones((M, N), dtype=torch.complex128)
                iu.upsampled_correlation_torch(cc0, up, torch.tensor([xy[0], xy[1]], dtype=torch.float64))
            ctr_impl = cap.t_calls[0]["center"]
            ctr_model = (float(to_frac(v[0][0])), float(to_frac(v[0][1])))
            if max(abs(ctr_impl[0] - ctr_model[0]), abs(ctr_impl[1] - ctr_model[1])) > 1e-4:
                problems.append("upsampleCenter impl %s model %s" % (ctr_impl, ctr_model))
            meas = measure_t_coords(M, N, up, ctr_impl)
            for axis, n in ((0, M), (1, N)):
                model = np.array([float(to_frac(q)) for q in v[1 + axis]])
                got, amp = meas[axis]
                if got.shape != model.shape:
                    problems.append("axis %d: window of %d samples, model %d" % (axis, got.shape[0], model.shape[0]))
                elif np.abs(amp - 1).max() > 1e-6 or np.abs((got - model + n / 2) % n - n / 2).max() > 1e-4:
                    problems.append("axis %d: measured sample positions %s..., model %s..." % (
                        axis, np.round(got[:4], 4).tolist(), np.round(model[:4] % n, 4).tolist()))
            # and t_coord is xs + (a - gs)/up (checked in Coq for all inputs; here on the values)
            if [to_frac(q) for q in v[1]] != [to_frac(q) for q in v[3]]:
                problems.append("t_coord != xs + (a - gs)/up")
            key = "torch-window-coordinates-correspondence"
        ctx.cov["traces_validated_against_impl"] += 1
        ctx.dist("coords/%s/up=%d" % (est, up))
        ctx.count(("coords", est, M, N, up, xy), nontrivial=True)
        if problems:
            nd += 1
            ctx.cov["disagreements_checked"] += 1
            # the property on a concrete input of this configuration: identical images
            case = {"est": est, "img": "bl", "seed": 12345 + up, "M": max(M, 8), "N": max(N, 8), "up": up,
                    "shift": [0.0, 0.0], "kind": "zero"}
            ref = make_image("bl", case["seed"], case["M"], case["N"])
            res, _ = run_est(case, ref, ref.copy())
            obad = oracle(dict(case), ref, ref, res, None, None)
            ctx.violation(key, "the upsampling kernel does not sample the correlation where the model "
                          "(C13_upsample_samples_interpolant) says: %s [shape %s, up %d, peak estimate %s]"
                          % ("; ".join(problems), (M, N), up, xy),
                          {"kind": "oracle", "case": public(case), "returned": res, "oracle": [b[1] for b in obad]},
                          found_input=bool(obad))
    ctx.log("window coordinates: %d configurations, %d disagreements" % (len(meta), nd))
    return geom_vals


# --------------------------------------------------------------------------- round 3: dtype / memory-layout variants
NP_VARIANTS = ["f32", "f32-mixed", "int16", "fortran", "strided", "negstride", "stack-view", "fft-strided"]
T_VARIANTS = ["transposed", "strided", "stack-view", "f32-transposed", "f32-stack-view"]


def np_variant_arrays(variant, ref, im):
    """(a, b, fft_input) equal in value to (ref, im) but with another dtype / memory layout"""
    M, N = ref.shape
    if variant == "f32":
        return ref.astype(np.float32), im.astype(np.float32), False
    if variant == "f32-mixed":
        return ref, im.astype(np.float32), False
    if variant == "int16":
        return ref.astype(np.int16), im.astype(np.int16), False
    if variant == "fortran":
        return np.asfortranarray(ref), np.asfortranarray(im), False
    if variant == "strided":
        big_a = np.full((2 * M, 3 * N), 7.25)
        big_b = np.full((2 * M, 3 * N), -3.5)
        big_a[::2, ::3] = ref
        big_b[::2, ::3] = im
        return big_a[::2, ::3], big_b[::2, ::3], False
    if variant == "negstride":
        return ref[::-1, ::-1].copy()[::-1, ::-1], im[::-1, ::-1].copy()[::-1, ::-1], False
    if variant == "stack-view":
        st = np.stack([np.full((M, N), 1.5), ref, im], axis=-1)       # images interleaved along the last axis
        return st[..., 1], st[..., 2], False
    if variant == "fft-strided":
        Fa = np.asfortranarray(np.fft.fft2(ref))
        Fb = np.asfortranarray(np.fft.fft2(im))
        return Fa, Fb, True
    raise ValueError(variant)


def t_variant_tensors(variant, ref, im):
    import torch
    td = torch.float32 if variant.startswith("f32") else torch.float64
    v = variant[4:] if variant.startswith("f32-") else variant
    if v == "transposed":
        return torch.tensor(np.ascontiguousarray(ref.T), dtype=td).T, torch.tensor(np.ascontiguousarray(im.T), dtype=td).T
    if v == "strided":
        M, N = ref.shape
        big_a = torch.full((2 * M, 2 * N), 7.25, dtype=td)
        big_b = torch.full((2 * M, 2 * N), -3.5, dtype=td)
        big_a[::2, ::2] = torch.tensor(ref, dtype=td)
        big_b[::2, ::2] = torch.tensor(im, dtype=td)
        return big_a[::2, ::2], big_b[::2, ::2]
    if v == "stack-view":
        st = torch.tensor(np.stack([ref, im], axis=-1), dtype=td)
        return st[..., 0], st[..., 1]
    raise ValueError(variant)


def run_variant(case, ref, im):
    """the estimator on the variant arrays; same conventions as run_est"""
    from quantem.core.utils import imaging_utils as iu
    v = case["variant"]
    try:
        if case["est"] == "numpy":
            a, b, fft_in = np_variant_arrays(v, ref, im)
            with np.errstate(all="ignore"):
                out = iu.cross_correlation_shift(a, b, upsample_factor=case["up"], fft_input=fft_in)
            return [float(out[0]), float(out[1])]
        a, b = t_variant_tensors(v, ref, im)
        assert not (a.is_contiguous() and b.is_contiguous())
        out = iu.cross_correlation_shift_torch(a, b, upsample_factor=case["up"])
        return [float(out[0]), float(out[1])]
    except AssertionError:
        raise
    except Exception as e:  # noqa: BLE001
        case["_raised"] = "%s: %s" % (type(e).__name__, str(e)[:200])
        return [float("nan"), float("nan")]


def check_variants(ctx: Ctx):
    """float32 / integer dtypes and non-contiguous inputs: the property text evaluated on the result (tolerance
    of the dtype the implementation computes in), and for integer shifts agreement with the contiguous
    float64 call on the same data"""
    r = ctx.rng
    nbad = 0
    todo = [("numpy", v) for v in NP_VARIANTS] + [("torch", v) for v in T_VARIANTS]
    extra = ctx.budget(26, 600)
    todo = todo + [r.choice(todo) for _ in range(extra)]
    for est, variant in todo:
        M, N = r.choice(SHAPES)
        up = r.choice(UPS)
        kind = r.choice(["int", "int", "sub", "zero", "half-size"]) if variant != "int16" else r.choice(["int", "zero"])
        if kind == "int":
            s = [float(r.randint(-M, 2 * M)), float(r.randint(-N, 2 * N))]
        elif kind == "zero":
            s = [0.0, 0.0]
        elif kind == "half-size":
            s = [float(M // 2), float(r.randint(0, N - 1))]
        else:
            den = r.choice([4, 8, 16])
            s = [r.randint(-M * den, M * den) / den, r.randint(-N * den, N * den) / den]
        case = {"est": est, "img": "int" if variant == "int16" else "bl", "seed": r.randrange(1 << 30), "M": M, "N": N,
                "up": up, "shift": s, "kind": kind, "variant": variant}
        if est == "numpy" and variant in ("f32", "f32-mixed"):
            case["np_dtype"] = "float32"
        if est == "torch" and variant.startswith("f32"):
            case["dtype"] = "float32"
        bad = variant_case(case)
        ctx.dist("variant/%s/%s" % (est, variant))
        ctx.count(("variant", json.dumps(public(case), sort_keys=True)), nontrivial=True)
        for key, msg in bad:
            nbad += 1
            ctx.violation(key, msg, {"kind": "variant", "case": public(case)})
    ctx.log("dtype / memory-layout variants: %d cases, %d failed clauses" % (len(todo), nbad))


def variant_case(case):
    M, N = case["M"], case["N"]
    ref = make_image(case["img"], case["seed"], M, N)
    im = apply_shift(ref, case["shift"])
    res = run_variant(case, ref, im)
    bad = [("%s-variant-%s" % (k, case["variant"]), "[input variant %s] %s" % (case["variant"], m))
           for k, m in oracle(case, ref, im, res, None, None)]
    if not bad and is_int_shift(case["shift"]):
        plain = {k: v for k, v in case.items() if k not in ("variant", "np_dtype", "dtype")}
        base, _ = run_est(plain, ref, im)
        tol = tol_for(case)
        if all(math.isfinite(v) for v in base) and max(abs(circ(res[0] - base[0], M)), abs(circ(res[1] - base[1], N))) > 2 * tol:
            bad.append(("%s-variant-%s-differs-from-contiguous" % (up_class(case), case["variant"]),
                        "the same image data as %s input gives %s, as contiguous float64 arrays %s (shape %s, shift %s, up %d)"
                        % (case["variant"], res, base, (M, N), case["shift"], case["up"])))
    return bad


# --------------------------------------------------------------------------- round 3: every factor 1..64
GEOM_EXPR = ("map (fun up => [Z.of_nat (np_win up); Z.of_nat (du up); Z.of_nat (t_win up); "
             "Z.of_nat (t_gs up)]) (seq 1%nat 64%nat)")


def check_every_factor(ctx: Ctx, geom_vals):
    """'Identical images give a zero shift for every upsampling factor' and the window geometry
    (du = ceil(1.5 up), 2 du + 1 samples; torch: ceil(1.5 up) samples, centre floor(./2)) for EVERY factor
    1..64, the geometry compared with the Coq model's du / np_win / t_win / t_gs"""
    import torch
    from quantem.core.utils import imaging_utils as iu
    r = ctx.rng
    nbad = 0
    vals = geom_vals
    for up in range(1, 65):
        npw, du_m, tw, tgs = [int(x) for x in vals[up - 1]]
        problems = []
        if up > 1:
            loc = np.asarray(iu.dft_upsample(np.ones((3, 2), dtype=np.complex128), up, (0.0, 0.0)))
            if loc.shape != (npw, npw):
                problems.append("dft_upsample window %s, model (2 du + 1 = %d)^2" % (loc.shape, npw))
        if up > 2:
            with Capture() as cap:
                iu.upsampled_correlation_torch(torch.ones((3, 2), dtype=torch.complex128), up,
                                               torch.tensor([0.0, 0.0], dtype=torch.float64))
            call = cap.t_calls[0] if cap.t_calls else None
            if call is None or call["out"].shape != (tw, tw):
                problems.append("dftUpsample_torch window %s, model ceil(1.5 up) = %d" % (None if call is None else call["out"].shape, tw))
            elif max(abs(call["center"][0] - tgs), abs(call["center"][1] - tgs)) > 1e-9:
                problems.append("upsampleCenter for a zero estimate %s, model floor(ceil(1.5 up)/2) = %d" % (call["center"], tgs))
        ctx.cov["traces_validated_against_impl"] += 1
        ctx.count(("geom", up), nontrivial=up > 1)
        # the clause itself, one fresh image and shape per factor and estimator
        obad = []
        for est in ("numpy", "torch"):
            M, N = r.choice(SHAPES)
            case = {"est": est, "img": "bl", "seed": r.randrange(1 << 30), "M": M, "N": N, "up": up,
                    "shift": [0.0, 0.0], "kind": "zero"}
            ref = make_image("bl", case["seed"], M, N)
            if case["seed"] % 2 == 0:
                case["alias"] = True                         # the same object as both arguments
            if est == "numpy":
                case["rsi"], case["fft_out"] = True, (case["seed"] // 2) % 2 == 0
            res, img_ = run_est(case, ref, ref if case.get("alias") else ref.copy())
            ob = oracle(case, ref, ref, res, img_, None)
            ctx.dist("every-factor/%s/%s" % (est, "same-object" if case.get("alias") else "equal-copy"))
            ctx.count(("every-factor", json.dumps(public(case), sort_keys=True)), nontrivial=up > 1)
            for key, msg in ob:
                nbad += 1
                obad.append(msg)
                ctx.violation(key, msg, {"kind": "oracle", "case": public(case), "returned": res})
        if problems:
            nbad += 1
            ctx.cov["disagreements_checked"] += 1
            ctx.violation("window-geometry-correspondence",
                          "upsample_factor %d: %s" % (up, "; ".join(problems)),
                          {"kind": "geom", "up": up, "oracle": obad}, found_input=bool(obad))
    ctx.log("every factor 1..64: identical images + window geometry, %d failed clauses" % nbad)


# --------------------------------------------------------------------------- round 3: the window of identical images
def check_identical_window(ctx: Ctx):
    """C13_identical_window_le_centre_* / the symmetry used by C13_identical_zero_*_derived, observed on the
    implementation: the window the kernels compute for two identical images is bounded by its centre sample
    and is point symmetric about it (torch, even window: where the mirrored index is in range)"""
    r = ctx.rng
    nbad = 0
    n = ctx.budget(14, 200)
    for i in range(n):
        est = "numpy" if i % 2 == 0 else "torch"
        up = r.choice([2, 3, 4, 5, 8, 16] if est == "numpy" else [3, 4, 5, 6, 7, 8, 16])
        M, N = r.choice(SHAPES)
        img = r.choice(["bl", "bl", "int"])
        case = {"est": est, "img": img, "seed": r.randrange(1 << 30), "M": M, "N": N, "up": up,
                "shift": [0.0, 0.0], "kind": "zero"}
        ref = make_image(img, case["seed"], M, N)
        if case["seed"] % 2 == 0:
            case["alias"] = True                             # the same object as both arguments
        with Capture() as cap:
            res, _ = run_est(case, ref, ref if case.get("alias") else ref.copy())
        calls = cap.np_calls if est == "numpy" else cap.t_calls
        problems = []
        if len(calls) != 1:
            problems.append("%d upsampling calls" % len(calls))
        else:
            loc = calls[0]["out"]
            W = loc.shape[0]
            c = du_of(up) if est == "numpy" else du_of(up) // 2
            # the window is placed on the stage-1 estimate, which is 0 up to rounding: allow its noise
            # (float64: 1e-9 of the peak; torch kernels are complex64: 3e-6)
            eps = (1e-9 if est == "numpy" else 3e-6) * abs(loc[c, c])
            if loc.max() > loc[c, c] + eps:
                a, b = np.unravel_index(int(np.argmax(loc)), loc.shape)
                problems.append("sample (%d,%d) = %.9g exceeds the centre sample (%d,%d) = %.9g" % (a, b, loc[a, b], c, c, loc[c, c]))
            for a in range(W):
                for b in range(W):
                    a2, b2 = 2 * c - a, 2 * c - b
                    if 0 <= a2 < W and 0 <= b2 < W and abs(loc[a, b] - loc[a2, b2]) > 10 * eps:
                        problems.append("not point symmetric: [%d,%d] = %.9g, [%d,%d] = %.9g" % (a, b, loc[a, b], a2, b2, loc[a2, b2]))
                        break
                else:
                    continue
                break
        ctx.cov["traces_validated_against_impl"] += 1
        ctx.dist("identical-window/%s/up=%d" % (est, up))
        ctx.dist("identical-window/%s" % ("same-object" if case.get("alias") else "equal-copy"))
        ctx.count(("identical-window", json.dumps(public(case), sort_keys=True)), nontrivial=True)
        if problems:
            nbad += 1
            ctx.cov["disagreements_checked"] += 1
            obad = oracle(dict(case), ref, ref, res, None, None)
            ctx.violation("%s-identical-window-correspondence" % up_class(case),
                          "the upsampled window of two identical images (shape %s, up %d): %s" % ((M, N), up, "; ".join(problems)),
                          {"kind": "oracle", "case": public(case), "returned": res, "oracle": [b[1] for b in obad]},
                          found_input=bool(obad))
    ctx.log("window of identical images: %d cases, %d disagreements" % (n, nbad))


# --------------------------------------------------------------------------- round 3: the callers
def compact_image(seed, M, N):
    """zero background, a few Gaussian blobs around the middle: translating it by a few pixels inside the
    frame is the same as translating it circularly"""
    g = np.random.default_rng(seed)
    rr, cc = np.mgrid[0:M, 0:N]
    im = np.zeros((M, N))
    for _ in range(4):
        y0, x0 = g.uniform(M * 0.4, M * 0.6), g.uniform(N * 0.4, N * 0.6)
        sy, sx = g.uniform(1.0, 2.0), g.uniform(1.0, 2.0)
        im += g.uniform(0.5, 1.0) * np.exp(-((rr - y0) ** 2 / (2 * sy * sy) + (cc - x0) ** 2 / (2 * sx * sx)))
    # exactly zero outside the central box: 8 pixels of empty margin on every side (the callers' cases move
    # it by at most 4), so np.roll never wraps anything around
    m = 8
    im[:m, :] = 0.0
    im[-m:, :] = 0.0
    im[:, :m] = 0.0
    im[:, -m:] = 0.0
    return im


def quiet():
    """the callers print progress bars on stderr"""
    import contextlib
    import io
    return contextlib.redirect_stderr(io.StringIO())


def caller_tomography(case):
    """tomography/utils.cross_correlation_align_stack: each image is registered against the previous ALIGNED
    image and moved with scipy.ndimage.shift(img, shift=returned): the moved image must reproduce the reference"""
    from quantem.tomography.utils import cross_correlation_align_stack
    M, N = case["M"], case["N"]
    base = compact_image(case["seed"], M, N)
    stack = np.stack([np.roll(base, (int(d[0]), int(d[1])), axis=(0, 1)) for d in case["shifts"]])
    with quiet():
        new, pred = cross_correlation_align_stack(base, stack)
    bad = []
    scale = float(np.abs(base).max())
    for k, d in enumerate(case["shifts"]):
        p = [float(pred[k][0]), float(pred[k][1])]
        if max(abs(p[0] + d[0]), abs(p[1] + d[1])) > 1e-6:
            bad.append(("caller-tomography-align-stack-shift",
                        "cross_correlation_align_stack: image %d is the reference translated by %s, predicted shift %s "
                        "(expected %s: translating the image by it reproduces the reference)" % (k, d, p, [-d[0], -d[1]])))
        err = float(np.abs(np.asarray(new[k]) - base).max()) / scale
        if err > 1e-5:
            bad.append(("caller-tomography-align-stack-image",
                        "cross_correlation_align_stack: aligned image %d (translation %s, predicted shift %s) differs "
                        "from the reference by %.3g of its maximum" % (k, d, p, err)))
    return bad


def caller_direct_ptycho(case):
    """direct_ptycho_utils: _compute_reference_shifts / _compute_pairwise_shifts + _synchronize_shifts feed
    _fourier_shift_stack inside align_vbf_stack_multiscale: the aligned stack must reproduce the reference
    (reference mode) resp. image 0 (pairwise mode, gauge t_0 = 0)"""
    import torch
    from quantem.diffractive_imaging import direct_ptycho_utils as dpu
    M, N, up, mode = case["M"], case["N"], case["up"], case["mode"]
    base = bl_image(case["seed"], M, N)
    ds = case["shifts"]
    imgs = [apply_shift(base, d) for d in ds]
    td = torch.float64 if case.get("dtype", "float64") == "float64" else torch.float32
    vbf = torch.tensor(np.stack(imgs), dtype=td)
    mask = torch.zeros((4, 4), dtype=torch.bool)
    for k in range(len(ds)):
        mask[k // 2 if k < 4 else 2, k % 2 if k < 4 else k - 4] = True
    ii, jj = torch.where(mask)
    assert ii.numel() == len(ds)
    ref_t = torch.tensor(base, dtype=td) if mode == "reference" else None
    with quiet():
        gshift, aligned = dpu.align_vbf_stack_multiscale(vbf, mask, ii, jj, bin_factors=(1,), upsample_factor=up,
                                                         reference=ref_t, verbose=False)
    gshift = gshift.detach().cpu().numpy().astype(np.float64)
    aligned = aligned.detach().cpu().numpy().astype(np.float64)
    target = base if mode == "reference" else imgs[0]
    d0 = [0.0, 0.0] if mode == "reference" else ds[0]
    integer = all(is_int_shift(d) for d in ds)
    tol = 5e-3 if integer else 1.0 / up + 5e-3
    bad = []
    scale = float(np.abs(base).max())
    F = np.fft.fft2(base)
    for k, d in enumerate(ds):
        want = [circ(d0[0] - d[0], M), circ(d0[1] - d[1], N)]
        e = [abs(circ(gshift[k][0] - want[0], M)), abs(circ(gshift[k][1] - want[1], N))]
        if max(e) > tol:
            bad.append(("caller-direct-ptycho-%s-shift" % mode,
                        "align_vbf_stack_multiscale (%s mode, upsample_factor %d): image %d is the base translated by %s, "
                        "computed shift %s, expected %s within %.3g" % (mode, up, k, d, gshift[k].tolist(), want, tol)))
            continue
        # the aligned image vs the target, as far as the shift error allows (same bound as the oracle's)
        kk = 2 * np.pi * (np.abs(np.fft.fftfreq(M))[:, None] * e[0] + np.abs(np.fft.fftfreq(N))[None, :] * e[1])
        # (+ 2e-3: the callers keep the shifts in a float32 tensor and may compute in float32)
        bound = float((np.abs(F) * kk).sum()) / (M * N) / scale + 2e-3
        err = float(np.abs(aligned[k] - target).max()) / scale
        if err > bound * 1.01:
            bad.append(("caller-direct-ptycho-%s-image" % mode,
                        "align_vbf_stack_multiscale (%s mode): aligned image %d (translation %s, shift %s) differs from "
                        "the %s by %.3g of its maximum (allowed %.3g)" % (mode, k, d, gshift[k].tolist(),
                                                                         "reference" if mode == "reference" else "first image", err, bound)))
    return bad


def caller_drift(case):
    """imaging/drift.DriftCorrection.align_translation: the measured shift of image k against the running
    reference is added to its knots; afterwards the re-warped images must coincide"""
    import quantem.imaging.drift as D
    M, N, up = case["M"], case["N"], case["up"]
    base = compact_image(case["seed"], M, N)
    ds = case["shifts"]
    imgs = [np.roll(base, (int(d[0]), int(d[1])), axis=(0, 1)) for d in ds]
    with quiet():
        dc = D.DriftCorrection.from_data([im.copy() for im in imgs], scan_direction_degrees=[case["angle"]] * len(ds))
        dc.preprocess(pad_fraction=0.25, pad_value=0.0, kde_sigma=0.5, number_knots=case["K"], show_merged=False,
                      show_images=False)
        w0 = np.array(dc.images_warped.array, dtype=np.float64)
        dc.align_translation(upsample_factor=up, show_merged=False)
        w1 = np.array(dc.images_warped.array, dtype=np.float64)
    scale = float(np.abs(w0[0]).max())
    bad = []
    for k in range(1, len(ds)):
        before = float(np.abs(w0[k] - w0[0]).max()) / scale
        after = float(np.abs(w1[k] - w1[0]).max()) / float(np.abs(w1[0]).max())
        if after > 5e-3:
            bad.append(("caller-drift-align-translation",
                        "DriftCorrection.align_translation (scan direction %r deg, upsample_factor %d): image %d is image 0 "
                        "translated by %s; after the alignment the warped images still differ by %.3g of the maximum "
                        "(before: %.3g)" % (case["angle"], up, k, [ds[k][0] - ds[0][0], ds[k][1] - ds[0][1]], after, before)))
    return bad


CALLERS = {"tomography": caller_tomography, "direct-ptycho": caller_direct_ptycho, "drift": caller_drift}


def gen_caller_cases(ctx: Ctx):
    r = ctx.rng
    cases = []

    def small_shifts(n, lim, first_zero=False, frac=False):
        out = []
        for k in range(n):
            if first_zero and k == 0:
                out.append([0.0, 0.0])
            elif frac:
                den = r.choice([4, 8])
                out.append([r.randint(-lim * den, lim * den) / den, r.randint(-lim * den, lim * den) / den])
            else:
                out.append([float(r.randint(-lim, lim)), float(r.randint(-lim, lim))])
        if all(d == [0.0, 0.0] for d in out):
            out[-1] = [1.0, -2.0]
        return out

    for _ in range(ctx.budget(5, 60)):
        M, N = r.choice([(32, 40), (33, 41), (40, 32), (36, 36), (31, 44)])
        cases.append({"caller": "tomography", "seed": r.randrange(1 << 30), "M": M, "N": N,
                      "shifts": small_shifts(r.randint(1, 4), 4)})
    for i in range(ctx.budget(8, 80)):
        M, N = r.choice([(16, 16), (20, 24), (21, 17), (24, 24), (15, 20)])
        mode = "reference" if i % 2 == 0 else "pairwise"
        frac = mode == "reference" and r.random() < 0.4
        cases.append({"caller": "direct-ptycho", "seed": r.randrange(1 << 30), "M": M, "N": N, "mode": mode,
                      "up": r.choice([1, 2, 3, 4, 8]), "dtype": r.choice(["float64", "float64", "float32"]),
                      # differences between any two images stay below half the size (the pairwise graph
                      # synchronisation needs consistent, un-wrapped relative shifts)
                      "shifts": small_shifts(r.randint(2, 6), min(M, N) // 4 - 1, frac=frac)})
    for _ in range(ctx.budget(5, 50)):
        M, N = r.choice([(32, 40), (33, 41), (32, 32), (24, 30), (30, 30)])
        cases.append({"caller": "drift", "seed": r.randrange(1 << 30), "M": M, "N": N,
                      "angle": r.choice([0, 90, 180, 270]), "up": r.choice([1, 2, 4, 8, 16]), "K": r.choice([1, 2]),
                      "shifts": small_shifts(r.randint(2, 3), 3, first_zero=True)})
    return cases


def check_callers(ctx: Ctx):
    """the sign convention through every caller named by the anchors: what each caller does with the returned
    shift must be 'translate the second image by it to reproduce the first'"""
    nbad = 0
    cases = gen_caller_cases(ctx)
    for case in cases:
        bad = CALLERS[case["caller"]](case)
        ctx.dist("caller/%s%s" % (case["caller"], ("/" + case["mode"]) if "mode" in case else ""))
        ctx.count(("caller", json.dumps(case, sort_keys=True)), nontrivial=True)
        for key, msg in bad:
            nbad += 1
            ctx.violation(key, msg, {"kind": "caller", "case": case})
    if cases:
        ctx.sample({"kind": "caller", "case": cases[len(cases) // 2]})
    ctx.log("callers (drift / tomography / direct ptychography): %d cases, %d failed clauses" % (len(cases), nbad))


def check_entry_points(ctx: Ctx):
    """cross_correlation_shift_torch is align_images_fourier_torch on the two spectra, centred: the two
    entry points must agree on the same images (batch of pairs taken from one stack tensor)"""
    import torch
    from quantem.core.utils import imaging_utils as iu
    r = ctx.rng
    nbad = 0
    n = ctx.budget(10, 150)
    for _ in range(n):
        M, N = r.choice(SHAPES)
        up = r.choice(UPS)
        seed = r.randrange(1 << 30)
        s = [float(r.randint(-M, M)), float(r.randint(-N, N))] if r.random() < 0.5 else \
            [r.randint(-8 * M, 8 * M) / 8, r.randint(-8 * N, 8 * N) / 8]
        ref = bl_image(seed, M, N)
        st = torch.tensor(np.stack([ref, apply_shift(ref, s)]))
        a = iu.cross_correlation_shift_torch(st[0], st[1], upsample_factor=up)
        G = torch.fft.fft2(st)                                  # both spectra from one batched transform
        b = iu.align_images_fourier_torch(G[0], G[1], up)
        ok_type = isinstance(b, torch.Tensor) and tuple(b.shape) == (2,) and isinstance(a, torch.Tensor) and tuple(a.shape) == (2,)
        case = {"est": "torch", "img": "bl", "seed": seed, "M": M, "N": N, "up": up, "shift": s,
                "kind": "int" if is_int_shift(s) else "sub", "mode": "fourier"}
        ctx.dist("entry-points/up=%d" % up)
        ctx.count(("entry", json.dumps(case, sort_keys=True)), nontrivial=True)
        if not ok_type:
            nbad += 1
            ctx.violation("torch-entry-point-return-type", "the torch estimators must return a tensor of two shifts; got %r / %r"
                          % (type(a), type(b)), {"kind": "oracle", "case": case})
            continue
        d = max(abs(circ(float(a[0]) - float(b[0]), M)), abs(circ(float(a[1]) - float(b[1]), N)))
        if d > 1e-6:
            nbad += 1
            ctx.violation("torch-entry-points-disagree",
                          "cross_correlation_shift_torch gives %s, align_images_fourier_torch on the spectra of the same images %s "
                          "(shape %s, shift %s, up %d)" % (a.tolist(), b.tolist(), (M, N), s, up), {"kind": "oracle", "case": case})
    ctx.log("torch entry points: %d cases, %d failed clauses" % (n, nbad))


# --------------------------------------------------------------------------- round 4: call histories on the same arrays
EDIT_HOW = ["copyto", "assign", "rows", "arith", "out"]


def _far(a, b, M, N) -> bool:
    """two applied shifts that no tolerance of the oracle can confuse (>= 1 pixel apart in the periodic cell)"""
    return max(abs(circ(a[0] - b[0], M)), abs(circ(a[1] - b[1], N))) >= 1.0


def gen_history(r, edits=False):
    """one pair of images and a sequence of registrations that all RE-USE the same input objects (the two
    real arrays / their two spectra; the two tensors / their two spectra), in every fft_input /
    return_shifted_image / fft_output combination, either image in the role of the second argument.
    edits=True (round 6): between two calls the caller may OVERWRITE THE CONTENTS of an array it passed before,
    in place (the object stays the same: a pre-allocated frame buffer that is refilled, a reference that is
    updated): slot 0 (first image), slot 1 (second image) or both (a new image pair), real array and spectrum
    alike; the following calls are judged on the NEW contents"""
    M, N = r.choice(SHAPES)
    est = r.choice(["numpy", "numpy", "torch"])
    kind = r.choice(["int", "int", "sub"])
    if kind == "int":
        s = [float(r.randint(-M, 2 * M)), float(r.randint(-N, 2 * N))]
        if circ(s[0], M) == 0 and circ(s[1], N) == 0:
            s[0] += 1.0          # a history on identical images cannot tell a corrupted input from a clean one
    else:
        den = r.choice([4, 8, 16])
        s = [r.randint(-M * den, M * den) / den, r.randint(-N * den, N * den) / den]
        if abs(circ(s[0], M)) < 1 and abs(circ(s[1], N)) < 1:
            s[0] += 2.0
    calls = []
    p_fourier = 0.45 if edits else 0.65
    for _ in range(r.randint(4, 8) if edits else r.randint(3, 6)):
        c = {"up": r.choice(UPS), "swap": r.random() < (0.4 if edits else 0.3)}
        if est == "numpy":
            c["fft_in"] = r.random() < p_fourier
            c["rsi"] = r.random() < 0.65
            c["fft_out"] = c["rsi"] and r.random() < 0.5
        else:
            c["mode"] = r.choice(["real", "fourier", "fourier"] if not edits else ["real", "real", "fourier"])
        calls.append(c)
    if est == "numpy" and not edits:   # every such history has the combination that hands the caller's spectra over and asks for the image
        calls[0].update({"fft_in": True, "rsi": True, "fft_out": r.random() < 0.5})
    if edits:
        cur = s
        nedit = 0
        for i in range(1, len(calls)):
            if r.random() < 0.6 or (i == len(calls) - 1 and nedit == 0):
                ek = r.choice(["int", "int", "sub", "zero"])
                for _try in range(50):
                    if ek == "zero":
                        new = [0.0, 0.0]
                    elif ek == "int":
                        new = [float(r.randint(-M, 2 * M)), float(r.randint(-N, 2 * N))]
                    else:
                        den = r.choice([4, 8, 16])
                        new = [r.randint(-M * den, M * den) / den, r.randint(-N * den, N * den) / den]
                    if _far(new, cur, M, N) and (ek == "zero" or _far(new, [0.0, 0.0], M, N)):
                        break
                    if ek == "zero":
                        ek = "int"     # the pair is identical already: overwrite with a translated copy instead
                else:
                    continue
                e = {"slot": r.choice([0, 0, 1, 1, 2]), "how": r.choice(EDIT_HOW), "kind": ek, "shift": new}
                if e["slot"] == 2:
                    e["seed"] = r.randrange(1 << 30)
                calls[i]["edit"] = e
                cur = new
                nedit += 1
    return {"est": est, "img": "bl", "seed": r.randrange(1 << 30), "M": M, "N": N, "shift": s, "kind": kind,
            "calls": calls}


def _overwrite(target, new, how):
    """the caller overwrites the CONTENTS of an array / tensor it owns, in place; the object stays the same"""
    if isinstance(target, np.ndarray):
        new = np.asarray(new).astype(target.dtype)
        if how == "copyto":
            np.copyto(target, new)
        elif how == "assign":
            target[...] = new
        elif how == "rows":
            for i in range(target.shape[0]):
                target[i] = new[i]
        elif how == "arith":                  # in-place arithmetic update (values are finite: 0 * x = 0)
            target *= 0
            target += new
        else:
            np.add(new, 0, out=target)
    else:
        import torch
        new = torch.as_tensor(new).to(target.dtype)
        if how == "copyto":
            target.copy_(new)
        elif how == "assign":
            target[...] = new
        elif how == "rows":
            for i in range(target.shape[0]):
                target[i] = new[i]
        elif how == "arith":
            target.mul_(0).add_(new)
        else:
            torch.add(new, 0, out=target)


def history_case(hist):
    """runs the history on ONE set of input objects; every call is judged by the property oracle on its own
    (returned shift = the applied translation, aligned image matches), on the contents the caller's arrays are
    SUPPOSED to have at that call (private copies; an in-place overwrite by the caller updates them).
    Returns [(key, msg, call index)]"""
    from quantem.core.utils import imaging_utils as iu
    M, N = hist["M"], hist["N"]
    base = {"est": hist["est"], "img": hist["img"], "seed": hist["seed"], "M": M, "N": N, "shift": hist["shift"],
            "kind": hist["kind"], "up": 1}
    ref, im = build_pair(base)
    pristine = [ref.copy(), im.copy()]
    shift = list(hist["shift"])
    kind = hist["kind"]
    if hist["est"] == "numpy":
        objs = {"real": (ref, im), "fourier": (np.fft.fft2(ref), np.fft.fft2(im))}
    else:
        import torch
        ta, tb = torch.tensor(ref), torch.tensor(im)
        objs = {"real": (ta, tb), "fourier": (torch.fft.fft2(ta), torch.fft.fft2(tb))}
    bad = []
    nedits = 0
    for i, c in enumerate(hist["calls"]):
        e = c.get("edit")
        if e:
            # the caller refills its buffers: slot 1 := the translate of slot 0 by the new shift, slot 0 := the
            # translate of slot 1 by minus the new shift, both := a new image and its translate
            shift, kind = list(e["shift"]), e["kind"]
            if e["slot"] == 2:
                pristine[0] = make_image(hist["img"], e["seed"], M, N)
                pristine[1] = apply_shift(pristine[0], shift)
                slots = (0, 1)
            elif e["slot"] == 1:
                pristine[1] = apply_shift(pristine[0], shift)
                slots = (1,)
            else:
                pristine[0] = apply_shift(pristine[1], [-shift[0], -shift[1]])
                slots = (0,)
            for k in slots:
                _overwrite(objs["real"][k], pristine[k], e["how"])
                _overwrite(objs["fourier"][k], np.fft.fft2(pristine[k]), e["how"])
            nedits += 1
        case = dict(base)
        case.update({k: v for k, v in c.items() if k not in ("swap", "edit")})
        case["shift"], case["kind"] = list(shift), kind
        first, second = (pristine[0], pristine[1]) if not c["swap"] else (pristine[1], pristine[0])
        if c["swap"]:
            case["shift"] = [-shift[0], -shift[1]]
        img = None
        try:
            if hist["est"] == "numpy":
                a, b = objs["fourier" if c["fft_in"] else "real"]
                if c["swap"]:
                    a, b = b, a
                with np.errstate(all="ignore"):
                    out = iu.cross_correlation_shift(a, b, upsample_factor=c["up"], return_shifted_image=c["rsi"],
                                                     fft_input=c["fft_in"], fft_output=c["fft_out"])
                if c["rsi"]:
                    out, img = out
                    img = np.array(img)
                res = [float(out[0]), float(out[1])]
            else:
                a, b = objs[c["mode"]]
                if c["swap"]:
                    a, b = b, a
                if c["mode"] == "real":
                    out = iu.cross_correlation_shift_torch(a, b, upsample_factor=c["up"])
                    res = [float(out[0]), float(out[1])]
                else:
                    out = iu.align_images_fourier_torch(a, b, c["up"])
                    res = [circ(float(out[0]), M), circ(float(out[1]), N)]
        except Exception as e_:  # noqa: BLE001
            case["_raised"] = "%s: %s" % (type(e_).__name__, str(e_)[:200])
            res = [float("nan"), float("nan")]
        for k, m_ in oracle(case, first, second, res, img, None):
            what = "arrays" if hist["est"] == "numpy" else "tensors"
            where = ("call %d of %d on the same input %s" % (i + 1, len(hist["calls"]), what)) if not nedits else (
                "call %d of %d on the same input %s, whose contents the caller has overwritten in place %d time(s) since "
                "the first call (last: %s)" % (i + 1, len(hist["calls"]), what, nedits, _last_edit(hist["calls"][:i + 1])))
            bad.append((("history-" if not nedits else "history-after-overwrite-") + k, "%s (%s): %s" % (
                where, ", ".join("%s=%r" % kv for kv in sorted(c.items()) if kv[0] != "edit"), m_), i))
        if bad:
            break           # later calls of a broken history add nothing
    return bad


def _last_edit(calls):
    for j in range(len(calls) - 1, -1, -1):
        e = calls[j].get("edit")
        if e:
            return "before call %d, %s, %s, new applied shift %s" % (
                j + 1, {0: "first image", 1: "second image", 2: "both images (new image pair)"}[e["slot"]], e["how"], e["shift"])
    return "none"


def check_histories(ctx: Ctx):
    """'returns the applied translation' holds for EVERY call: also for the 2nd .. n-th registration that is handed
    the very same arrays / spectra / tensors as an earlier one (a caller that registers one spectrum against several
    references, at several factors, with and without the aligned image), and (round 6) for a call on an array whose
    CONTENTS the caller has overwritten in place since it was passed before (pre-allocated frame buffers refilled
    for the next pair, a reference that is updated): the expected shift is that of the new contents"""
    r = ctx.rng
    n_plain = ctx.budget(36, 900)
    n_edit = ctx.budget(60, 1500)
    nbad = ncalls = nedits = 0
    mid = []
    fixed = corpus_cases(histories=True)      # histories found by this check on seeded changes: always run first
    for j in range(-len(fixed), n_plain + n_edit):
        edited = j >= n_plain or (j < 0 and any(c.get("edit") for c in fixed[j]["calls"]))
        hist = fixed[j] if j < 0 else gen_history(r, edits=edited)
        if j < 0:
            ctx.dist("history/corpus")
        bad = history_case(hist)
        ncalls += len(hist["calls"])
        ctx.dist("history/%s/%s/len=%d" % ("overwritten-in-place" if edited else "same-contents", hist["est"], len(hist["calls"])))
        prev_real = None
        for c in hist["calls"]:
            e = c.get("edit")
            if e:
                nedits += 1
                ctx.dist("history-overwrite/%s/%s/%s/new-shift=%s" % (
                    hist["est"], {0: "first-image", 1: "second-image", 2: "both-new-image"}[e["slot"]], e["how"], e["kind"]))
            tag = "/after-overwrite" if e else ""
            if hist["est"] == "numpy":
                ctx.dist("history-call/numpy/%s%s%s%s%s" % ("F" if c["fft_in"] else "r", "+img" if c["rsi"] else "",
                                                              "(F)" if c["fft_out"] else "", "/swapped" if c["swap"] else "", tag))
                real = not c["fft_in"]
            else:
                ctx.dist("history-call/torch/%s%s%s" % (c["mode"], "/swapped" if c["swap"] else "", tag))
                real = c["mode"] == "real"
            if edited and real:
                # consecutive real-space calls with the same object in the role of the reference, whose contents were
                # overwritten in between (and the other combinations), as a measured share
                if prev_real is not None:
                    touched = prev_real["dirty"] | ({0, 1} if e and e["slot"] == 2 else ({e["slot"]} if e else set()))
                    ref_slot = 1 if c["swap"] else 0
                    ctx.dist("history-real-pair/%s/%s-reference/%s" % (
                        hist["est"], "same" if prev_real["swap"] == c["swap"] else "other",
                        "reference-overwritten" if ref_slot in touched else
                        ("moving-overwritten" if touched else "untouched")))
                prev_real = {"swap": c["swap"], "dirty": set()}
            elif edited and prev_real is not None and e:
                prev_real["dirty"] |= {0, 1} if e["slot"] == 2 else {e["slot"]}
        ctx.count(("history", json.dumps(hist, sort_keys=True)), nontrivial=True)
        if j == n_plain // 2 or j == n_plain + n_edit // 2:
            mid.append(hist)
        for key, msg, i in bad:
            nbad += 1
            ctx.violation(key, msg, {"kind": "history", "case": hist, "failing_call": i})
    for h in mid:
        ctx.sample({"kind": "history", "case": h})
    ctx.log("call histories on the same arrays: %d histories (%d with in-place overwrites of the caller's arrays, %d overwrites), "
            "%d calls, %d failed clauses" % (n_plain + n_edit + len(fixed), n_edit, nedits, ncalls, nbad))


# --------------------------------------------------------------------------- round 7: aliasing between the two arguments
ALIAS_FORMS = {"real": ["same-object", "identical-views", "array-and-view", "overlapping-views"],
               "fourier": ["same-object", "identical-views", "array-and-view", "inplace-spectrum"]}
ALIAS_VIEWS = {"numpy": ["slice", "view", "ellipsis", "reshape"], "torch": ["slice", "view", "detach", "from_numpy"]}
NP_FLAGS = [(False, False), (True, False), (True, True), (False, True)]      # (return_shifted_image, fft_output)


def _view_of(x, how, M, N):
    """another OBJECT on the same memory, same shape and contents"""
    if isinstance(x, np.ndarray):
        return {"slice": lambda: x[:], "view": lambda: x.view(), "ellipsis": lambda: x[...],
                "reshape": lambda: x.reshape(M, N)}[how]()
    import torch
    return {"slice": lambda: x[:], "view": lambda: x.view(M, N), "detach": lambda: x.detach(),
            "from_numpy": lambda: torch.from_numpy(x.numpy())}[how]()


def alias_objects(case):
    """(a, b, ref, im, shift): the two ARGUMENT objects, which share memory, the private copies of what they hold
    (images, real space) and the applied translation im[x] = ref[x - shift].
      same-object        f(x, x)
      identical-views    two distinct view objects of one buffer (x[:], x.view(), x[...], reshape; torch: detach, from_numpy)
      array-and-view     the buffer itself and a view of all of it (either role)
      overlapping-views  two windows of one (2M, 2N) buffer that holds the image periodically continued: the window at
                         offset p holds the image rolled by -p, so the windows are integer translates of each other
                         (offsets equal: identical contents) and overlap in memory
      inplace-spectrum   the caller transformed its complex image buffer IN PLACE (fft2(c, out=c)) and hands over the
                         spectrum and the buffer it was computed from: two names of one object"""
    M, N = case["M"], case["N"]
    est, dom, form = case["est"], case["dom"], case["form"]
    base = make_image(case.get("img", "bl"), case["seed"], M, N)
    if est == "torch":
        import torch
    if form == "overlapping-views":
        big = np.tile(base, (2, 2))
        big = big if est == "numpy" else torch.tensor(big)
        (p0, p1), (q0, q1) = case["offs"]
        a, b = big[p0:p0 + M, p1:p1 + N], big[q0:q0 + M, q1:q1 + N]
        ref, im = np.roll(base, (-p0, -p1), axis=(0, 1)), np.roll(base, (-q0, -q1), axis=(0, 1))
        return a, b, ref, im, [float(p0 - q0), float(p1 - q1)]
    if form == "inplace-spectrum":
        if est == "numpy":
            c = base.astype(np.complex128)
            F = np.fft.fft2(c, out=c)
        else:
            c = torch.tensor(base).to(torch.complex128)
            F = torch.fft.fft2(c, out=c)
        return F, c, base, base.copy(), [0.0, 0.0]
    x = np.array(base) if est == "numpy" else torch.tensor(base)
    if dom == "fourier":
        x = np.fft.fft2(x) if est == "numpy" else torch.fft.fft2(x)
    v = case.get("views", ["slice", "view"])
    if form == "same-object":
        a = b = x
    elif form == "identical-views":
        a, b = _view_of(x, v[0], M, N), _view_of(x, v[1], M, N)
    else:
        a, b = x, _view_of(x, v[1], M, N)
        if v[0] == "second":
            a, b = b, a
    return a, b, base, base.copy(), [0.0, 0.0]


def _alias_call(case, a, b, c):
    """one call on the argument objects a, b; returns (shift, aligned image or None, raised or None)"""
    from quantem.core.utils import imaging_utils as iu
    M, N = case["M"], case["N"]
    try:
        if case["est"] == "numpy":
            with np.errstate(all="ignore"):
                out = iu.cross_correlation_shift(a, b, upsample_factor=c["up"], max_shift=c.get("ms"),
                                                 return_shifted_image=c["rsi"], fft_input=case["dom"] == "fourier",
                                                 fft_output=c["fft_out"])
            img = None
            if c["rsi"]:
                out, img = out
                img = np.array(img)
            return [float(out[0]), float(out[1])], img, None
        if case["dom"] == "real":
            out = iu.cross_correlation_shift_torch(a, b, upsample_factor=c["up"])
            return [float(out[0]), float(out[1])], None, None
        out = iu.align_images_fourier_torch(a, b, c["up"])
        return [circ(float(out[0]), M), circ(float(out[1]), N)], None, None
    except Exception as e:  # noqa: BLE001
        return [float("nan"), float("nan")], None, "%s: %s" % (type(e).__name__, str(e)[:200])


def _spectrum_like(case, arr):
    """a fresh, unshared argument holding the image `arr` in the domain / library of the case"""
    if case["est"] == "numpy":
        return np.fft.fft2(arr) if case["dom"] == "fourier" else np.array(arr)
    import torch
    t = torch.tensor(np.ascontiguousarray(arr))
    return torch.fft.fft2(t) if case["dom"] == "fourier" else t


def alias_case(case):
    """every clause on calls whose two arguments share memory.  Returns [(key, msg, step)].
      step 'aliased'  the call f(a, b): shift = the applied translation (zero for identical contents), aligned image =
                      the second image translated by it = the reference, in the requested domain; the call with the
                      roles exchanged f(b, a) negates the shift
      step 'again'    the same two objects once more with another factor / output combination (every call is covered)
      step 'later'    one of the two objects registered against a fresh, unshared translate of what it is supposed to
                      hold: 'returns the applied translation' for that later call is how a modified input shows"""
    M, N = case["M"], case["N"]
    a, b, ref, im, shift = alias_objects(case)
    kind = "zero" if (circ(shift[0], M) == 0 and circ(shift[1], N) == 0) else "int"
    base = {"est": case["est"], "M": M, "N": N, "img": case.get("img", "bl"), "seed": case["seed"]}
    bad = []

    def judge(step, c, first, second, s, k, res, img, raised, res_swap=None):
        oc = dict(base, up=c["up"], shift=list(s), kind=k, fft_out=c.get("fft_out", False))
        if c.get("ms") is not None:
            oc["ms"], oc["ms_kind"] = c["ms"], c.get("ms_kind", "room")
        if raised:
            oc["_raised"] = raised
        for key, msg in oracle(oc, first, second, res, img, res_swap):
            what = {"aliased": "the two arguments share memory (%s)" % case["form"],
                    "again": "second call on the same two arguments, which share memory (%s)" % case["form"],
                    "later": "later call on one of two arguments that were passed together before and share memory (%s), "
                             "against a fresh translate" % case["form"]}[step]
            bad.append(("aliased-arguments-%s-%s%s" % (case["form"], "" if step == "aliased" else step + "-call-", key),
                        "%s [%s %s-space inputs, %s]: %s" % (what, case["est"], case["dom"],
                                                            ", ".join("%s=%r" % kv for kv in sorted(c.items())), msg), step))

    c = case["call"]
    res, img, raised = _alias_call(case, a, b, c)
    res_swap = None
    if a is not b and not raised:
        res_swap, _, r2 = _alias_call(case, b, a, dict(c, rsi=False, fft_out=False))
        if r2:
            raised = "(roles exchanged) " + r2
    judge("aliased", c, ref, im, shift, kind, res, img, raised, res_swap)
    if not bad and case.get("again"):
        c2 = case["again"]
        first, second, s2, x, y = (ref, im, shift, a, b) if not c2.get("swap") else (im, ref, [-shift[0], -shift[1]], b, a)
        res2, img2, raised2 = _alias_call(case, x, y, c2)
        judge("again", {k_: v for k_, v in c2.items() if k_ != "swap"}, first, second, s2, kind, res2, img2, raised2)
    if not bad and case.get("later"):
        c3 = dict(case["later"])
        role, s3 = c3.pop("role"), c3.pop("shift")
        k3 = c3.pop("kind")
        obj, held = ((a, ref), (b, im))[c3.pop("which")]
        if role == 0:       # the shared object is the reference, a fresh translate of its contents the second image
            second = apply_shift(held, s3)
            res3, img3, raised3 = _alias_call(case, obj, _spectrum_like(case, second), c3)
            judge("later", c3, held, second, s3, k3, res3, img3, raised3)
        else:               # the shared object is the second image: it is the translate by -s3 of the fresh reference
            first = apply_shift(held, s3)
            res3, img3, raised3 = _alias_call(case, _spectrum_like(case, first), obj, c3)
            judge("later", c3, first, held, [-s3[0], -s3[1]], k3, res3, img3, raised3)
    return bad


def gen_alias_cases(ctx: Ctx):
    r = ctx.rng
    cases = []

    def call_of(est, M, N, shift, flags=None):
        c = {"up": r.choice(UPS)}
        if est == "numpy":
            c["rsi"], c["fft_out"] = flags if flags is not None else r.choice(NP_FLAGS)
            if r.random() < 0.25:
                tmp = {"M": M, "N": N, "shift": shift}
                c["ms"] = pick_max_shift(r, tmp)
                c["ms_kind"] = tmp["ms_kind"]
        return c

    def one(est, dom, form, flags=None, up=None):
        M, N = r.choice(SHAPES)
        case = {"est": est, "dom": dom, "form": form, "img": r.choice(["bl", "bl", "bl", "int"]), "seed": r.randrange(1 << 30),
                "M": M, "N": N}
        shift = [0.0, 0.0]
        if form == "overlapping-views":
            p = [r.randint(0, M), r.randint(0, N)]
            q = p[:] if r.random() < 0.15 else [r.randint(0, M), r.randint(0, N)]      # equal offsets: identical windows
            case["offs"] = [p, q]
            shift = [float(p[0] - q[0]), float(p[1] - q[1])]
        elif form == "identical-views":
            case["views"] = [r.choice(ALIAS_VIEWS[est]), r.choice(ALIAS_VIEWS[est])]
        elif form == "array-and-view":
            case["views"] = [r.choice(["first", "second"]), r.choice(ALIAS_VIEWS[est])]    # which role the buffer itself takes
        case["call"] = call_of(est, M, N, shift, flags)
        if up is not None:
            case["call"]["up"] = up
        if r.random() < 0.6:
            case["again"] = dict(call_of(est, M, N, shift), swap=r.random() < 0.4)
            case["again"].pop("ms", None)
            case["again"].pop("ms_kind", None)
        # the later call: an integer or dyadic sub-pixel translate, at least one pixel away from 'no shift'
        k3 = r.choice(["int", "int", "sub"])
        for _ in range(50):
            if k3 == "int":
                s3 = [float(r.randint(-M, 2 * M)), float(r.randint(-N, 2 * N))]
            else:
                den = r.choice([4, 8, 16])
                s3 = [r.randint(-M * den, M * den) / den, r.randint(-N * den, N * den) / den]
            if _far(s3, [0.0, 0.0], M, N):
                break
        else:
            s3, k3 = [1.0, 0.0], "int"
        if case["img"] == "int" and k3 == "sub":
            s3, k3 = [float(round(s3[0])) + 1.0, float(round(s3[1]))], "int"     # integer images are not band limited
        later = call_of(est, M, N, s3)
        later.pop("ms", None)
        later.pop("ms_kind", None)
        later.update({"role": r.randint(0, 1), "which": r.randint(0, 1), "shift": s3, "kind": k3})
        case["later"] = later
        return case

    # every (library, domain, form, output combination) once, every factor on the same object with the aligned image
    for est in ("numpy", "torch"):
        for dom in ("real", "fourier"):
            for form in ALIAS_FORMS[dom]:
                for flags in (NP_FLAGS if est == "numpy" else [None]):
                    cases.append(one(est, dom, form, flags))
    for up in UPS:
        for dom in ("real", "fourier"):
            cases.append(one("numpy", dom, "same-object", (True, up % 2 == 0), up))
            cases.append(one("torch", dom, "same-object", None, up))
    for _ in range(ctx.budget(70, 1000)):
        est = r.choice(["numpy", "numpy", "torch"])
        dom = r.choice(["real", "real", "fourier"])
        cases.append(one(est, dom, r.choice(ALIAS_FORMS[dom])))
    return cases


def check_aliasing(ctx: Ctx):
    """the property is stated for 'an image and a circularly translated copy' / 'identical images': nothing in it
    requires the two ARGUMENTS to be separate objects or separate memory.  A caller that registers a frame against
    itself, two windows of one periodically continued buffer, a buffer and a view of it, or the spectrum it computed
    in place is inside the quantifier; every clause is judged on such calls (alias_case)."""
    cases = gen_alias_cases(ctx)
    nbad = ncalls = 0
    for case in cases:
        bad = alias_case(case)
        ncalls += 1 + (case["form"] not in ("same-object", "inplace-spectrum")) + ("again" in case) + ("later" in case)
        contents = "identical" if case["form"] != "overlapping-views" or case["offs"][0] == case["offs"][1] else "translated"
        ctx.dist("alias/%s/%s/%s" % (case["est"], case["dom"], case["form"]))
        ctx.dist("alias-contents/%s" % contents)
        c = case["call"]
        if case["est"] == "numpy":
            ctx.dist("alias-call/numpy/%s%s%s%s" % ("F" if case["dom"] == "fourier" else "r", "+img" if c["rsi"] else "",
                                                      "(F)" if c["fft_out"] else "", "+max_shift" if c.get("ms") else ""))
        ctx.dist("alias-call/up=%d" % c["up"])
        ctx.count(("alias", json.dumps(case, sort_keys=True)), nontrivial=True)
        for key, msg, step in bad:
            nbad += 1
            ctx.violation(key, msg, {"kind": "alias", "case": case, "failing_step": step})
    ctx.sample({"kind": "alias", "case": cases[len(cases) // 2]})
    ctx.log("aliasing between the two arguments: %d cases, %d calls, %d failed clauses" % (len(cases), ncalls, nbad))


# --------------------------------------------------------------------------- entry points
# --------------------------------------------------------------------------- round 8: the dtype the pixel values are stored in
# The property is stated on the two IMAGES (their pixel values), not on the container type: detector counts arrive as
# uint8 / uint16 / int16 / int32, processed stacks as float16 / float32 / float64.  The same integer VALUES are stored in
# every dtype that holds them exactly; every clause is judged on each (shift, aligned image = reference in the requested
# domain, swap negates) and against the float64 run on the same values.  The aligned image may come back in any dtype:
# VALUES are compared, to the rounding of the precision the estimator computes in.
DT_FAMILIES = {                 # value family -> (low, high, dtypes that hold every value of it exactly)
    "counts8": (0, 255, ["uint8", "uint16", "int16", "int32", "float16", "float32", "float64"]),
    "signed11": (-1000, 1000, ["int16", "int32", "float16", "float32", "float64"]),      # background-subtracted counts
    "counts16": (0, 60000, ["uint16", "int32", "float32", "float64"]),
}
NP_DTYPES = ["uint8", "uint16", "int16", "int32", "float16", "float32", "float64"]
T_DTYPES = ["uint8", "uint16", "int16", "int32", "float32", "float64"]     # torch.fft has no float16 kernels on the CPU
IMG_RTOL = {"exact": 1e-9, "single": 1e-4}     # aligned-image values, relative to max |reference| (measured: 4e-15 / 6e-8)


def counts_image(seed: int, M: int, N: int, family: str) -> np.ndarray:
    """integer-valued image (float64 container): smooth periodic blobs + per-pixel integer noise (unique
    correlation peak: no translate reproduces the noise), values inside the family's range"""
    lo, hi, _ = DT_FAMILIES[family]
    g = np.random.default_rng(seed)
    x = np.arange(M)[:, None]
    y = np.arange(N)[None, :]
    im = np.zeros((M, N))
    for _ in range(5):
        cx, cy = g.uniform(0, M), g.uniform(0, N)
        w = g.uniform(1.5, 3.5)
        dx = (x - cx + M / 2) % M - M / 2
        dy = (y - cy + N / 2) % N - N / 2
        im += g.uniform(0.3, 1.0) * np.exp(-(dx ** 2 + dy ** 2) / (2 * w * w))
    span = hi - lo
    im = np.floor(im / im.max() * 0.75 * span) + g.integers(0, int(0.25 * span) + 1, size=(M, N))
    return np.clip(im + lo, lo, hi).astype(np.float64)


def dt_single(case, dt=None) -> bool:
    """does the estimator compute in single precision for this storage dtype?"""
    dt = dt or case["dt"]
    return dt in ("float16", "float32") if case["est"] == "numpy" else dt != "float64"


def dt_run(case, ref64, im64, dt, rsi=None):
    """the estimator on the values of (ref64, im64) stored as dtype `dt`; same conventions as run_est"""
    rsi = case.get("rsi", False) if rsi is None else rsi
    same = im64 is ref64
    try:
        if case["est"] == "numpy":
            from quantem.core.utils.imaging_utils import cross_correlation_shift
            a = ref64.astype(dt)
            b = a if same else im64.astype(dt)
            assert np.array_equal(a.astype(np.float64), ref64) and np.array_equal(b.astype(np.float64), im64)
            with np.errstate(all="ignore"):
                out = cross_correlation_shift(a, b, upsample_factor=case["up"], max_shift=case.get("ms"),
                                              return_shifted_image=rsi, fft_output=bool(rsi and case.get("fft_out")))
            if rsi:
                return [float(out[0][0]), float(out[0][1])], np.asarray(out[1]), None
            return [float(out[0]), float(out[1])], None, None
        import torch
        from quantem.core.utils import imaging_utils as iu
        td = getattr(torch, dt)
        a = torch.tensor(ref64).to(td)
        b = a if same else torch.tensor(im64).to(td)
        assert np.array_equal(a.to(torch.float64).numpy(), ref64) and np.array_equal(b.to(torch.float64).numpy(), im64)
        M, N = ref64.shape
        if case.get("mode", "real") == "real":
            r = iu.cross_correlation_shift_torch(a, b, upsample_factor=case["up"])
            return [float(r[0]), float(r[1])], None, None
        Fa = torch.fft.fft2(a)
        r = iu.align_images_fourier_torch(Fa, Fa if b is a else torch.fft.fft2(b), case["up"])
        return [circ(float(r[0]), M), circ(float(r[1]), N)], None, None
    except AssertionError:
        raise
    except Exception as e:  # noqa: BLE001
        return [float("nan"), float("nan")], None, "%s: %s" % (type(e).__name__, str(e)[:200])


def dtype_case(case):
    """[(key, message)] for every clause that fails when the values of the case are stored as case['dt']"""
    M, N, dt = case["M"], case["N"], case["dt"]
    ref = counts_image(case["seed"], M, N, case["family"])
    im = apply_shift(ref, case["shift"])
    if case.get("alias") and np.array_equal(ref, im):
        im = ref
    oc = dict(case)
    oc["np_dtype" if case["est"] == "numpy" else "dtype"] = dt
    res, img, raised = dt_run(oc, ref, im, dt)
    res_swap, _, raised_sw = dt_run(oc, im, ref, dt, rsi=False)
    if raised or raised_sw:
        oc["_raised"] = raised or ("(images swapped) " + raised_sw)
    cls = up_class(case)
    tag = "%s-dtype-%s" % (cls, dt)
    where = "[%s pixel values in %s stored as %s, shape %s, shift %s, upsample_factor %d%s]" % (
        case["family"], list(DT_FAMILIES[case["family"]][:2]), dt, (M, N), case["shift"], case["up"],
        (", max_shift %r" % case["ms"]) if case.get("ms") else "")
    bad = [("%s-dtype-%s" % (k, dt), "%s %s" % (where, m)) for k, m in oracle(oc, ref, im, res, None, res_swap)]
    case["_res"], case["_swap"] = res, res_swap
    if bad:
        return bad
    tol = tol_for(oc)
    rtol = IMG_RTOL["single" if dt_single(case) else "exact"]
    F_ref = np.fft.fft2(ref)

    def image_values(got):
        """(values as complex/float64 array, what it is compared with, scale) or None when the type is wrong"""
        if got is None:
            return None
        got = np.asarray(got)
        if got.shape != (M, N) or (not case.get("fft_out") and np.iscomplexobj(got)) or got.dtype.kind not in "biufc":
            return None
        if case.get("fft_out"):
            return got.astype(np.complex128), F_ref, float(np.abs(F_ref).max())
        return got.astype(np.float64), ref, max(float(np.abs(ref).max()), 1.0)

    vals = None
    if case.get("rsi"):
        vals = image_values(img)
        if vals is None:
            bad.append((tag + "-aligned-image-type", "%s the aligned image is not a %s array of the image shape"
                        % (where, "complex" if case.get("fft_out") else "real")))
        else:
            got, want, scale = vals
            d = float(np.abs(got - want).max())
            if not d <= rtol * scale:
                i = np.unravel_index(int(np.argmax(np.abs(got - want))), got.shape)
                bad.append((tag + "-aligned-image-differs-from-reference",
                            "%s the returned shift %s is the applied translation, but the aligned image (%s, returned as %s) "
                            "differs from the reference by %.3g (allowed %.3g) on %d of %d samples, e.g. at %s: %r instead of %r"
                            % (where, res, "spectrum" if case.get("fft_out") else "real space", np.asarray(img).dtype, d,
                               rtol * scale, int((np.abs(got - want) > rtol * scale).sum()), got.size,
                               tuple(int(v) for v in i), got[i].item(), want[i].item())))
    # the same values as float64: same shift, same aligned image
    if dt != "float64":
        b_res, b_img, b_raised = dt_run(oc, ref, im, "float64")
        if not b_raised and all(math.isfinite(v) for v in b_res):
            b_tol = tol_for(dict(oc, **{"np_dtype" if case["est"] == "numpy" else "dtype": "float64"}))
            dsh = max(abs(circ(res[0] - b_res[0], M)), abs(circ(res[1] - b_res[1], N)))
            if dsh > tol + b_tol:
                bad.append((tag + "-shift-differs-from-float64",
                            "%s returned %s, the same values as float64 give %s" % (where, res, b_res)))
            if vals is not None and b_img is not None:
                got, _, scale = vals
                d = float(np.abs(got - np.asarray(b_img)).max())
                if not d <= rtol * scale:
                    bad.append((tag + "-aligned-image-differs-from-float64",
                                "%s the aligned image differs by %.3g (allowed %.3g) from the one the same values give "
                                "as float64" % (where, d, rtol * scale)))
    return bad


def gen_dtype_cases(ctx: Ctx):
    r = ctx.rng
    cases = []

    def one(est, dt, kind, **kw):
        M, N = r.choice(SHAPES)
        fam = r.choice([f for f, (_, _, dts) in DT_FAMILIES.items() if dt in dts])
        if kind == "zero":
            s = [0.0, 0.0]
        elif kind == "half-size":
            s = [float(M // 2), float(r.randint(0, N - 1))] if r.random() < 0.5 else [float(r.randint(0, M - 1)), float((N + 1) // 2)]
        else:
            s = [float(r.randint(-M, 2 * M)), float(r.randint(-N, 2 * N))]          # incl. beyond half the size / the cell
            if s[0] % M == 0 and s[1] % N == 0:
                s[0] += 1.0
        c = {"est": est, "dt": dt, "family": fam, "seed": r.randrange(1 << 30), "M": M, "N": N, "up": r.choice(UPS),
             "shift": s, "kind": kind}
        if kind == "zero" and c["seed"] % 2 == 0:
            c["alias"] = True
        c.update(kw)
        return c

    # every (estimator, dtype, identical | integer translate, output domain / entry point) once, then a random stream
    for dt in NP_DTYPES:
        for kind in ("zero", "int"):
            cases.append(one("numpy", dt, kind, rsi=True, fft_out=False))
            cases.append(one("numpy", dt, kind, rsi=True, fft_out=True))
    for dt in T_DTYPES:
        for kind in ("zero", "int"):
            for mode in ("real", "fourier"):
                cases.append(one("torch", dt, kind, mode=mode))
    for _ in range(ctx.budget(110, 2000)):
        est = r.choice(["numpy", "numpy", "torch"])
        dt = r.choice(NP_DTYPES if est == "numpy" else T_DTYPES)
        c = one(est, dt, r.choice(["int", "int", "int", "zero", "half-size"]))
        if est == "numpy":
            c["rsi"] = r.random() < 0.75
            c["fft_out"] = c["rsi"] and r.random() < 0.35
            if r.random() < 0.25:
                c["ms"] = pick_max_shift(r, c)
        else:
            c["mode"] = r.choice(["real", "real", "fourier"])
        cases.append(c)
    return cases


def check_dtypes(ctx: Ctx):
    import torch
    nbad = 0
    cases = corpus_cases(kind="dtype") + gen_dtype_cases(ctx)
    worst = {}
    for case in cases:
        if case["est"] == "torch" and not hasattr(torch, case["dt"]):
            ctx.dist("dtype/torch/%s/not-in-this-torch" % case["dt"])
            continue
        bad = dtype_case(case)
        ctx.dist("dtype/%s/%s" % (case["est"], case["dt"]))
        ctx.dist("dtype-values/%s" % case["family"])
        ctx.dist("dtype-shift/%s" % case["kind"])
        if case["est"] == "numpy":
            ctx.dist("dtype-call/numpy/r%s%s%s" % ("+img" if case.get("rsi") else "", "(F)" if case.get("fft_out") else "",
                                                    ("+max_shift-" + case.get("ms_kind", "room")) if case.get("ms") else ""))
        else:
            ctx.dist("dtype-call/torch/%s" % case.get("mode", "real"))
        ctx.count(("dtype", json.dumps(public(case), sort_keys=True)), nontrivial=True)
        for key, msg in bad:
            nbad += 1
            ctx.violation(key, msg, {"kind": "dtype", "case": public(case), "returned": case.get("_res"),
                                     "swapped": case.get("_swap")})
    if cases:
        c = next((c for c in cases if c["est"] == "numpy" and c.get("rsi") and c["dt"] in ("uint16", "int16")), cases[0])
        ctx.sample({"kind": "dtype", "case": public(c), "returned": c.get("_res"), "swapped": c.get("_swap")})
    ctx.log("storage dtypes (uint8 / uint16 / int16 / int32 / float16 / float32 / float64 holding the same values): "
            "%d cases, %d failed clauses" % (len(cases), nbad))


def run(ctx: Ctx):
    ctx.hash_sources("core/utils/imaging_utils.py",
                     ["dft_upsample", "cross_correlation_shift", "cross_correlation_shift_torch",
                      "align_images_fourier_torch", "upsampled_correlation_torch", "dftUpsample_torch"])
    ctx.cov["rule"] = (
        "oracle cases: (estimator numpy|torch, band-limited image seed, shape from 10 odd/even/non-square shapes, "
        "shift kind zero|integer anywhere in [-n, 2n]|half the size|dyadic sub-pixel (denominators 2..64) anywhere in "
        "the cell|around the seam -n/2 of the centred cell, upsample_factor in {1,2,3,4,8,16,64}, fft_input, "
        "return_shifted_image, fft_output, max_shift tight (admits the peak, masks a neighbour)|roomy|huge | "
        "torch entry point real/Fourier, dtype); each is also run with the images swapped. Correspondence cases: "
        "integer-valued and band-limited images on 7 small shapes, the Coq model fed with the exact (integer) or "
        "2^-40-quantised correlation array and the captured upsampled window; coordinate cases: (shape, factor, peak "
        "estimate) with the kernel's sample positions measured from its response to single Fourier modes. A case is "
        "distinct by its full parameter tuple, non-trivial unless it is an identical-image case without upsampling. "
        "Round 3: the peak exactly on the half-size boundary of both axes (every factor, both estimators, band-limited and "
        "integer images); EVERY factor 1..64: identical images on a fresh shape/image per factor and estimator + the window "
        "geometry (sizes, torch centre) against the Coq model's du / np_win / t_win / t_gs; dtype / memory-layout variants "
        "(numpy float32, mixed, int16, Fortran order, strided, negative strides, last-axis stack views, Fortran-ordered "
        "spectra; torch transposed / strided / stack views in float64 and float32) judged by the same oracle and, for integer "
        "shifts, against the contiguous float64 call; torch real vs Fourier entry point on pairs from one stack tensor; the "
        "three callers named by the anchors (tomography cross_correlation_align_stack, direct-ptychography "
        "align_vbf_stack_multiscale in reference and pairwise mode, DriftCorrection.align_translation for scan directions "
        "0/90/180/270) on stacks of translated copies: what each caller does with the returned shift must reproduce the "
        "reference; the upsampled window of identical images must be bounded by and point symmetric about its centre sample "
        "(the statement of C13_identical_window_le_centre_*). Round 4: images with a mean of 1 .. 1e5 x their contrast (standard "
        "deviation) in float32 and float64, identical and integer-rolled copies, both estimators (80 fixed cases + 20 % of the random "
        "stream; sub-pixel shifts of such images in float64 only); call histories: one pair of images, 3-6 registrations that all "
        "re-use the same two real arrays / two spectra / two tensors, every fft_input / return_shifted_image / fft_output combination "
        "(the first call always hands the caller's spectra over and asks for the aligned image), either image as the second "
        "argument, every call judged by the oracle on its own; the index arithmetic of the six functions is translated from the "
        "current source and proved equal to the model (translator_tie). Round 6: call histories in which the CALLER overwrites the "
        "contents of an array / spectrum / tensor it passed before, in place, between two calls (60 histories of 4-8 calls per quick "
        "run in addition to the 36 without overwrites; an overwrite before a call with probability 0.6, at least one per history): "
        "the first image := the translate of the second by minus a new shift, the second image := the translate of the first by a "
        "new shift, or both := a new image and its translate; by np.copyto / a[...] = / row by row / in-place arithmetic / out= "
        "(torch: copy_, a[...] =, rows, mul_.add_, out=); real array and its spectrum are both refreshed; the new shift is zero "
        "(identical images), integer or dyadic sub-pixel and at least one pixel away from the previous one; roles alternate (40 % "
        "of the calls take the arrays in the other order); every call is judged on the contents at the time of that call "
        "(input_distribution history-overwrite/..., history-real-pair/... = consecutive real-space calls by whether the same object "
        "is the reference and whether it was overwritten in between). Round 7: ALIASING between the two arguments (check_aliasing, "
        "138 cases / ~430 calls per quick run, 1000 + 68 cases thorough): the very same object as both arguments, two distinct view "
        "objects of one buffer (x[:], x.view(), x[...], reshape; torch: x[:], view, detach, from_numpy of the same memory), a buffer "
        "and a view of all of it in either role, two overlapping windows of one (2M, 2N) buffer holding the periodically continued "
        "image (integer translates of each other by the offset difference, anywhere in [-n, n]; equal offsets = identical "
        "contents), and the spectrum a caller computed IN PLACE (fft2(c, out=c)) together with the buffer it was computed from; "
        "NumPy and torch, real-space and Fourier-space inputs, every return_shifted_image / fft_output combination at least once "
        "per (library, domain, form), every factor in {1,2,3,4,8,16,64} on the same object with the aligned image, max_shift in "
        "25 % of the NumPy calls; judged per case: the aliased call (shift, aligned image in the requested domain, roles exchanged "
        "negate), in 60 % a second call on the same two objects with other options, and a LATER call that registers one of the "
        "two objects against a fresh unshared translate (integer or sub-pixel, >= 1 px) of what it is supposed to hold. In the "
        "oracle stream, the every-factor block, the identical-window block and the correspondence cases, identical images are "
        "handed over as ONE object when the image seed is even and as an equal copy when it is odd (input_distribution "
        "oracle/identical/..., every-factor/.../same-object, alias/...); the fixed identical-image grid (10 shapes x 7 factors) and the "
        "every-factor block now request the aligned image (real / Fourier output alternating). Round 8: the DTYPE the pixel values "
        "are stored in (check_dtypes, 162 cases per quick run = 12 % of the evaluations, 2052 thorough): integer-valued count images "
        "(periodic blobs + per-pixel integer noise) of three value families - 0..255, -1000..1000, 0..60000 - stored in every dtype "
        "that holds the values exactly: uint8 / uint16 / int16 / int32 / float16 / float32 / float64 NumPy arrays and uint8 / uint16 / "
        "int16 / int32 / float32 / float64 torch tensors (real and Fourier entry point); identical images (one object or an equal "
        "copy), integer translations anywhere in [-n, 2n], half the size; every factor in {1,2,3,4,8,16,64}; NumPy calls with the "
        "aligned image in real space (55 %) or as a spectrum (25 %), max_shift in 25 %; every (library, dtype, identical | "
        "translated, output domain | entry point) at least once. Judged per case: returned shift = applied translation, rolling the "
        "second image by it reproduces the first, swapped call negates, aligned image = reference in VALUE in the requested domain "
        "(whatever dtype comes back; 1e-9 of max |reference| when computed in float64, 1e-4 when computed in single precision), and "
        "shift and aligned image agree with the float64 run on the same values (input_distribution dtype/..., dtype-values/..., "
        "dtype-shift/..., dtype-call/...).")
    ctx.assumptions += [
        "numpy.fft / torch.fft compute the DFT (fft2/ifft2) to float precision; np.roll is an exact circular shift",
        "the upsampled window values are an oracle input of the model (captured from the implementation); what is "
        "compared for the window is WHERE it samples (measured through the kernels' linear response) and every "
        "arithmetic step that consumes it",
        "sub-pixel accuracy (<= 1/upsample_factor) is validated on the implementation for band-limited images with "
        "Gaussian-decaying spectra; C13_subpixel_accuracy_partial only proves 'position of the largest window sample "
        "+ at most half an upsampled pixel'",
        "torch builds its upsampling kernels in complex64: 'exact' for the torch estimator with upsample_factor > 2 "
        "means within 2e-4 pixel (float64 images) / 2e-3 (float32 images)",
        "max_shift settings in the quantified domain are those that admit the applied shift (radius of the coarse-peak "
        "pixel < max_shift); masks that exclude the peak are outside the claim",
        "swap clause for sub-pixel shifts is checked up to twice the accuracy tolerance (each call is within tolerance "
        "of +-shift); exactly for integer shifts, modulo the size at the half-size seam",
        "numpy >= 2 keeps single precision in np.fft: float32 images are registered through a complex64 correlation, "
        "'exact' then means 2e-3 pixel (as for torch float32); integer dtypes are promoted to float64",
        "a peak exactly on the half-size boundary (even size) is judged modulo the size and |component| <= n/2: the model "
        "returns -n/2 (C13_centre_wrap, half-open cell); float rounding of the refined peak may give +n/2 - ulp",
        "caller cases stay inside what the callers can represent: integer translations of an image that is exactly zero "
        "in an 8 pixel margin (tomography: scipy.ndimage.shift is not periodic; drift: padded canvas), pairwise graph "
        "synchronisation only with un-wrapped relative shifts (all differences below half the size); scipy.ndimage.shift "
        "with an integer shift reproduces the samples (interpolating spline), gaussian_filter / bilinear splat are "
        "translation equivariant for integer knot offsets",
        "an image whose mean is r times its contrast, stored in a dtype of relative precision eps, carries its content with "
        "relative precision eps r: 'exact' for such images allows 4 eps r pixel in addition (measured on the repaired code: at most "
        "0.3 eps r); the aligned-image clause is judged for float64 inputs only",
        "a call history is inside the quantifier: the property speaks about every call, also the 2nd..n-th one that is handed the "
        "same arrays; histories use a non-zero applied shift of at least one pixel so that a corrupted input cannot pass as correct",
        "an array the caller overwrites in place between two calls is, for the next call, an input like any other: the property is "
        "stated per call on the images passed to it, so the expected shift of a call after an overwrite is that of the NEW contents; "
        "the caller keeps an image and its spectrum consistent (both are refreshed by an overwrite)",
        "the property is stated on the two IMAGES (an image and its translate / identical images), not on how the caller stores "
        "them: arguments that are the same object, views of one buffer or overlapping windows of one buffer are inside the "
        "quantifier, and every clause is judged on them with the same tolerances as on separate arrays; 'the inputs are not "
        "modified' is judged only through a later registration that uses one of them (its shift / aligned image)",
        "the property is stated on pixel VALUES: the same integer values stored as uint8 / uint16 / int16 / int32 / float16 / "
        "float32 / float64 are the same image; an aligned image may be returned in any numeric dtype and is compared by value to the "
        "rounding of the precision the estimator computes in (NumPy: float16 / float32 inputs in single precision, integer dtypes "
        "promoted to float64; torch: everything but float64 in single precision); torch.fft has no float16 kernels on the CPU, so "
        "float16 tensors are outside what the torch estimators accept",
        "hypotheses of the round-3 theorems that are premises on the image content, not checked on inputs: no_self_overlap "
        "(no integer translate reproduces the image) and np_/t_offsets_distinct (no translate by the sub-pixel offset of a "
        "non-centre window sample reproduces it); re additive / positive / definite and E unit-modulus are satisfiable "
        "together with the earlier hypotheses (Example C13_nonvacuous_cs_setting)",
    ]
    ctx.cov["trusted_base"] += [
        "Coq 8.16.1 kernel incl. vm_compute (used to run the model); no native_compute",
        "hand-written model coq/model/C13_Model.v tied to /repo by this correspondence run",
        "harness/props/C13.py (generators, exact Fourier shift, quantisation, monkey-patch capture, Python->Coq printers), harness/common.py",
        "section hypotheses of lib/DFT.v / proof/C13_Proofs_DFT.v, explicit premises of the closed theorems: root of "
        "unity + orthogonality per axis, re (conj z) == re z, the character E with E(z/N) = w(-z) (all satisfiable "
        "together: Example C13_nonvacuous_setting); hypotheses on the image content: unique autocorrelation peak, and for "
        "upsampling that the window has its unique maximum at the centre sample with equal neighbours (win_centred)",
    ]
    ctx.hash_sources("imaging/drift.py", ["DriftCorrection.align_translation"])
    ctx.hash_sources("tomography/utils.py", ["cross_correlation_align_stack"])
    ctx.hash_sources("diffractive_imaging/direct_ptycho_utils.py",
                     ["_synchronize_shifts", "_compute_pairwise_shifts", "_compute_reference_shifts",
                      "_fourier_shift_stack", "align_vbf_stack_multiscale"])
    ctx.proofs_or_violation()
    # round 4: the index arithmetic the model transcribes by hand, translated from the CURRENT source and proved
    # equal to the model's definitions (harness/c13_tie.py + coq/gen_proofs/C13_GenProofs.v / C13_GenProperties.v)
    try:
        from ..c13_tie import run_tie
        run_tie(ctx)
    except Exception as e:  # noqa: BLE001
        ctx.broken_obligation = "; ".join(filter(None, [ctx.broken_obligation, "index-arithmetic tie could not run: %r" % (e,)]))
    check_oracle(ctx)
    check_histories(ctx)
    check_variants(ctx)
    check_entry_points(ctx)
    check_callers(ctx)
    check_identical_window(ctx)
    geom_vals = check_coordinates(ctx)
    check_every_factor(ctx, geom_vals)
    check_correspondence(ctx)
    check_aliasing(ctx)       # draws from ctx.rng after every earlier stage (their streams are unchanged)
    check_dtypes(ctx)         # round 8, last for the same reason


def replay(ctx: Ctx, path):
    rp = json.loads(open(path).read())
    case = rp.get("case")
    if rp.get("kind") == "geom":
        print("window geometry of upsample_factor %r: re-run ./check C13 (all factors 1..64 are compared on every run)" % rp.get("up"))
        return 1
    if not case:
        print("nothing to replay in", path, "- re-run ./check C13")
        return 0
    if rp.get("kind") == "history":
        print("history:", case)
        bad = history_case(dict(case))
        for k, msg, i in bad:
            print("FAILS [%s]: %s" % (k, msg))
        if not bad:
            print("property holds for every call of this history")
        return 1 if bad else 0
    if rp.get("kind") == "alias":
        print("arguments that share memory:", case)
        bad = alias_case(dict(case))
        for k, msg, step in bad:
            print("FAILS [%s]: %s" % (k, msg))
        if not bad:
            print("property holds for every call of this case")
        return 1 if bad else 0
    if rp.get("kind") in ("caller", "variant", "dtype"):
        print("case:", case)
        bad = (CALLERS[case["caller"]](dict(case)) if rp["kind"] == "caller" else
               variant_case(dict(case)) if rp["kind"] == "variant" else dtype_case(dict(case)))
        for k, msg in bad:
            print("FAILS [%s]: %s" % (k, msg))
        if not bad:
            print("property holds on this case")
        return 1 if bad else 0
    ref, im, res, img, res_swap = run_case(dict(case))
    bad = oracle(dict(case), ref, im, res, img, res_swap)
    M, N = case["M"], case["N"]
    print("case:", case)
    print("expected shift (translate the second image by it to get the first):",
          [circ(-case["shift"][0], M), circ(-case["shift"][1], N)])
    print("implementation returned:", res, " swapped:", res_swap)
    for k, msg in bad:
        print("FAILS [%s]: %s" % (k, msg))
    if not bad:
        print("property holds on this case")
    nd = 0
    if rp.get("kind") == "corr":
        # both sides: the Coq model on the correlation array / window of this very case
        print("model vs implementation on this case:")
        nd = check_correspondence(ctx, [dict(case)])
        if not nd:
            print("model and implementation agree on this case")
    return 1 if (bad or nd) else 0
