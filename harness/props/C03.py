"""C03 — Dataset containers stay coherent under any history of operations.
Theorems: coq/props/C03_Properties.v (over coq/model/C03_Model.v) and the translator tie
coq/gen_proofs/C03_GenProperties.v (harness/translate_C03.py, harness/c03_tie.py).  Audit: harness/props/C03.audit.md.
Tie: operation sequences (corpus, bounded-exhaustive over an instantiated alphabet, seeded random
to depth 12) are executed on real quantem Dataset objects and on the model; after every step
the error class, class/shape/data/origin/sampling/units of the touched datasets and the aliasing
relation between all live datasets are compared, at the end every dataset.  Independently of the
model, the four clauses of the property are evaluated directly on the real objects (oracle)."""
from __future__ import annotations

import itertools
import json
from fractions import Fraction

import numpy as np

from .. import c03_tie
from .. import impl_C03 as M
from ..common import VERIF, Ctx

Q = Fraction
UNITS = ["nm", "A", "mrad", "px", "s", "A^-1", "", "a b"]
ORIG = [Q(0), Q(1), Q(-2), Q(1, 2), Q(-3, 4), Q(5), Q(3, 2), Q(10), Q(1024), Q(-1, 1024)]
SAMP = [Q(1), Q(2), Q(1, 2), Q(1, 4), Q(3), Q(3, 2), Q(5, 4), Q(1, 8), Q(100), Q(1, 1024)]
DTS = ["i8", "f8", "f8", "f4", "c16", "i4", "c8"]
# narrow integer storage (detector frames): 30% of the generated arrays; 75% of those with values at the top (signed:
# also the bottom) of the dtype's range, so that block sums / padded constants / means leave the range of the stored dtype
NARROW = ["u1", "u1", "i1", "u2", "u2", "i2", "u4", "i4"]


def gen_data(r, shape, small_base):
    """-> (dtype code, base): the array is base, base+1, ... (row-major) in that dtype; every value representable"""
    if r.random() >= 0.3:
        return r.choice(DTS), small_base
    dt = r.choice(NARROW)
    n = int(np.prod(shape)) if len(shape) else 1
    info = np.iinfo(M.DTYPES[dt])
    x = r.random()
    if x < 0.6 or (x < 0.75 and info.min == 0):
        return dt, max(int(info.min), int(info.max) - n + 1 - r.randint(0, 2))
    if x < 0.75:
        return dt, int(info.min) + r.randint(0, 2)
    return dt, min(small_base, max(0, int(info.max) - n + 1))
PAD_KW = [{"mode": "edge"}, {"constant_values": 2}, {"mode": "wrap"}]


# ------------------------------------------------------------------------------------------
# generators (all randomness from ctx.rng)


def gen_shape(r, ndim, cap=120):
    for _ in range(50):
        sh = [r.choice([1, 1, 2, 2, 2, 3, 3, 4, 5] + ([6, 8, 16] if ndim <= 2 else [])) for _ in range(ndim)]
        if int(np.prod(sh)) <= cap:
            return sh
    return [1] * ndim


def gen_num(r, n, pool, wrong=0.08, setter=False):
    """origin / sampling argument: None (keyword omitted), scalar, list of the right (8%: wrong)
    length; 12%: other spellings of the same thing (tuple, ndarray, NumPy scalar, nested list that
    flattens to the right length) and malformed values (None, str, bool, dict, non-numeric or
    ragged lists) whose error class the model predicts; 15% of the lists are integer-typed"""
    x = r.random()
    if x < 0.33 and not setter:
        return None
    if x < 0.48:
        return ["s", r.choice(pool)]
    ints = [q for q in pool if q.denominator == 1]
    pick = (lambda: r.choice(ints)) if r.random() < 0.15 else (lambda: r.choice(pool))
    ln = n if r.random() > wrong else max(0, n + r.choice([-1, 1]))
    if x < (0.88 if setter else 0.95):
        return ["l", [pick() for _ in range(ln)]]
    y = r.random()
    if y < 0.12:
        return ["x", "tuple", [pick() for _ in range(ln)]]
    if y < 0.24:
        return ["x", "nd", [pick() for _ in range(ln)]]
    if y < 0.34:
        return ["x", "nps", pick()]
    if y < 0.5:
        rows = r.choice([1, ln]) if ln else 1
        flat = [pick() for _ in range(ln)]
        w = ln // rows if rows else 0
        ll = [flat[i * w:(i + 1) * w] for i in range(rows)]
        return ["x", r.choice(["nested", "nd2"]), ll]
    if y < 0.6:
        ll = [[pick() for _ in range(k)] for k in r.choice([[2, 1], [1, 2], [1, 2, 1], [n, max(0, n - 1)]])]
        if len(set(len(row) for row in ll)) == 1:
            ll[0] = ll[0] + [pick()]
        return ["x", "nested", ll]                       # ragged
    if y < 0.72:
        return ["x", "nonnum", ln, r.randrange(4)]
    if y < 0.8:
        return ["x", "str"]
    if y < 0.88:
        return ["x", "bool"]
    if y < 0.94 and setter:
        return ["x", "none"]
    return ["x", "other", r.randrange(4)]


def gen_units(r, n, wrong=0.08, setter=False):
    x = r.random()
    if x < 0.33 and not setter:
        return None
    if x < 0.48:
        return ["s", r.choice(UNITS)]
    ln = n if r.random() > wrong else max(0, n + r.choice([-1, 1]))
    if x < (0.88 if setter else 0.95):
        return ["l", [r.choice(UNITS) for _ in range(ln)]]
    y = r.random()
    if y < 0.3:
        return ["x", "tuple", [r.choice(UNITS) for _ in range(ln)]]
    if y < 0.6:
        return ["x", "ints", [r.randint(-3, 12) for _ in range(ln)]]
    return ["x", "other", r.randrange(5 if setter else 4) + (0 if setter else 1)]


def gen_from_array(r, counter, ndim=None, cls=None):
    cls = cls or r.choice(["Generic", "Generic", "D2", "D3", "D4", "D4stem", "D4stem"])
    k = {"D2": 2, "D3": 3, "D4": 4, "D4stem": 4}.get(cls)
    if ndim is None:
        if k is None:
            ndim = r.choice([1, 2, 3, 4, 5])
        else:
            ndim = k if r.random() < 0.8 else r.choice([k - 1, k - 1, k + 1])
    eff = ndim if k is None else max(k, ndim)
    shape = gen_shape(r, ndim)
    dt, base = gen_data(r, shape, 10 * counter + 1)
    op = {"k": "from_array", "cls": cls, "shape": shape, "dt": dt,
          "base": base, "origin": gen_num(r, eff, ORIG), "sampling": gen_num(r, eff, SAMP),
          "units": gen_units(r, eff)}
    if r.random() < 0.12:
        op["aslist"] = True
    return op


def gen_from_shape(r, counter):
    """Dataset2d/3d/4d/4dstem.from_shape (constant float32 array; wrong dimensionality 20%)"""
    op = gen_from_array(r, counter, cls=r.choice(["D2", "D3", "D4", "D4stem"]))
    op["k"] = "from_shape"
    op["fill"] = r.choice([0, 0, 1, -2, 7])
    del op["dt"], op["base"]
    return op


DET_Q = [Q(0), Q(1, 2), Q(1), Q(3, 2), Q(2), Q(-1, 2), Q(5, 2)]


def gen_detector(r, n2, n3, mal):
    x = r.random()
    if mal:
        if x < 0.5:
            return ["bad", r.randrange(5)]
        sh = r.choice([[n2 + 1, n3], [n3, n2 + 1], [n2 * n3], [n2, n3, 1]])
        return ["mask", sh, [r.random() < 0.5 for _ in range(int(np.prod(sh)))]]
    if x < 0.4:
        return ["mask", [n2, n3], [r.random() < 0.5 for _ in range(n2 * n3)]]
    if x < 0.7:
        return ["circle", r.choice(DET_Q), r.choice(DET_Q), r.choice(DET_Q)]
    return ["annular", r.choice(DET_Q), r.choice(DET_Q), r.choice(DET_Q), r.choice(DET_Q)]


def gen_axes(r, n, malformed):
    x = r.random()
    if x < 0.45:
        return None
    if x < 0.6:
        return r.randrange(n) if not malformed else r.choice([-1, n, -n - 1])
    k = r.randint(1, n)
    ax = r.sample(range(n), k)
    if r.random() < 0.5:
        ax.sort()
    if malformed:
        y = r.random()
        if y < 0.4:
            ax[r.randrange(len(ax))] = r.choice([-1, -n])      # negative axis
        elif y < 0.7:
            ax.append(ax[0])                                   # repeated axis
        else:
            ax[r.randrange(len(ax))] = n + r.randint(0, 1)     # out of range
    return ax


def n_axes(ax, n):
    return n if ax is None else 1 if isinstance(ax, int) else len(ax)


def gen_index(r, shape):
    n = len(shape)
    mal = r.random() < 0.07
    m = r.choice([n, n, n, max(0, n - 1), max(0, n - 2), r.randint(0, n)])
    if mal and r.random() < 0.3:
        m = n + 1
    use_ell = r.random() < 0.3 and m <= n
    if use_ell and m == n and r.random() < 0.7:
        m = max(0, m - r.randint(0, 2))
    ell_pos = r.randint(0, m) if use_ell else None
    list_len = r.choice([1, 2, 2, 3])
    p_list = r.choice([0.0, 0.0, 0.15, 0.3, 0.5])
    # which axis each item addresses
    axes_before = list(range(0, ell_pos if use_ell else m))
    axes_after = list(range(n - (m - ell_pos), n)) if use_ell else []
    items = []
    for pos, ax in enumerate(axes_before + axes_after):
        ln = shape[ax] if ax < n else 2
        x = r.random()
        if x < p_list:
            ll = list_len if r.random() < 0.85 else r.choice([0, 1, list_len + 1])
            if ln == 0:
                lst = [0] * ll if mal else []
            else:
                lst = [r.randint(-ln, ln - 1) for _ in range(ll)]
                if mal and lst and r.random() < 0.5:
                    lst[0] = ln + 1
            items.append(["l", lst])
        elif x < p_list + (1 - p_list) * 0.4:
            if ln == 0:
                items.append(["s", None, None, None])
            else:
                k = r.randint(-ln, ln - 1)
                if mal and r.random() < 0.4:
                    k = r.choice([ln, -ln - 1])
                items.append(["i", k])
        else:
            a = r.choice([None, None, r.randint(-ln - 1, ln + 1)])
            b = r.choice([None, None, r.randint(-ln - 1, ln + 1)])
            c = r.choice([None, None, None, 1, 2, 2, -1, -2, 3])
            if mal and r.random() < 0.3:
                c = 0
            items.append(["s", a, b, c])
    if use_ell:
        items.insert(ell_pos, ["e"])
        if mal and r.random() < 0.3:
            items.append(["e"])
    return items


def spell(r, op):
    """25%: the same arguments of pad / crop / bin / fourier_resample written with NumPy scalars,
    lists instead of tuples, or a float axis"""
    if r.random() < 0.25:
        op["aform"] = r.choice(["np", "list", "float"])
    return op


def gen_op(r, impl, counter, depth_left):
    live = impl.live
    cands = [i for i, d in enumerate(live) if d.array.ndim >= 1]
    if not cands or (len(live) < 3 and r.random() < 0.15):
        return gen_from_array(r, counter)
    t = r.choice(cands + cands[-2:])          # bias to recent datasets
    d = live[t]
    shape = list(d.array.shape)
    n = len(shape)
    size = int(np.prod(shape))
    mal = r.random() < 0.08
    kinds = (["getitem"] * 20 + ["pad"] * 7 + ["crop"] * 8 + ["bin"] * 8 + ["fourier"] * 6 + ["copy"] * 4 +
             ["set_origin"] * 3 + ["set_sampling"] * 3 + ["set_units"] * 3 + ["set_array"] * 3 +
             ["set_array_from"] * 2 + ["from_ds"] * 2 + ["set_name", "set_signal_units"] + ["from_array"] * 2 +
             ["from_shape"])
    cn = M.cls_name(d)
    if cn == "D4stem":
        kinds = kinds + ["dp"] * 8 + ["virt"] * 8
    elif cn == "D3":
        kinds = kinds + ["to_d2"] * 4
    elif r.random() < 0.004:
        kinds = ["dp", "virt"]                 # the methods do not exist there: AttributeError
    k = r.choice(kinds)
    if size > 300 and k in ("pad", "fourier"):
        k = r.choice(["crop", "bin", "getitem"])
    ip = r.random() < 0.5
    if k == "from_array":
        return gen_from_array(r, counter)
    if k == "from_shape":
        return gen_from_shape(r, counter)
    if k == "from_ds":
        return {"k": k, "cls": r.choice(["Generic", "D2", "D3", "D4", "D4stem", M.cls_name(d)]), "t": t}
    if k == "copy":
        return {"k": k, "t": t, "cca": r.random() < 0.75}
    if k == "to_d2":
        return {"k": k, "t": t}
    if k in ("set_name", "set_signal_units"):
        return {"k": k, "t": t, "val": r.randrange(len(M.NAME_VALUES))}
    if k == "dp":
        red = r.choice(["mean", "max", "median"])
        if n == 4 and (shape[0] * shape[1] == 0 or (np.iscomplexobj(d.array) and red != "mean")):
            red = "mean" if shape[0] * shape[1] else None     # NaN / complex ordering: not encoded
        if red is None:
            return {"k": "copy", "t": t}
        return norm_dp(d, {"k": k, "t": t, "red": red, "how": r.choice(["get", "get", "attach", "prop"])})
    if k == "virt":
        n2, n3 = (shape[2], shape[3]) if n == 4 else (2, 2)
        return {"k": k, "t": t, "det": gen_detector(r, n2, n3, mal), "attach": r.random() < 0.4}
    if k in ("set_origin", "set_sampling"):
        return {"k": k, "t": t, "v": gen_num(r, n, ORIG if k == "set_origin" else SAMP, wrong=0.15, setter=True)}
    if k == "set_units":
        return {"k": k, "t": t, "v": gen_units(r, n, wrong=0.15, setter=True)}
    if k == "set_array":
        nd = n if r.random() < 0.75 else max(1, n + r.choice([-1, -1, 1]))
        shape_new = gen_shape(r, nd)
        dt, base = gen_data(r, shape_new, 10 * counter + 3)
        return {"k": k, "t": t, "shape": shape_new, "dt": dt, "base": base, "aslist": r.random() < 0.15}
    if k == "set_array_from":
        return {"k": k, "t": t, "src": r.choice(cands)}
    if k == "pad":
        x = r.random()
        if mal and r.random() < 0.5:
            spec = r.choice([["none"], ["both"], ["int", -1], ["pairs", [[1, 1]] * (n + 1)], ["shape", [3] * (n + 1)]])
        elif x < 0.25:
            spec = ["int", r.randint(0, 2)]
        elif x < 0.4:
            spec = ["pair", r.randint(0, 2), r.randint(0, 2)]
        elif x < 0.65:
            spec = ["pairs", [[r.randint(0, 2), r.randint(0, 2)] for _ in range(n if r.random() < 0.85 else 1)]]
        else:
            spec = ["shape", [max(0, s + r.randint(-2, 3)) for s in shape]]
        return spell(r, {"k": k, "t": t, "spec": spec, "ip": ip})
    if k == "crop":
        ax = gen_axes(r, n, mal and r.random() < 0.6)
        na = n_axes(ax, n)
        if mal and r.random() < 0.4:
            na = max(0, na + r.choice([-1, 1]))
        w = []
        axl = list(range(n)) if ax is None else [ax] if isinstance(ax, int) else ax
        for j in range(na):
            ln = shape[axl[j] % n] if j < len(axl) and -n <= axl[j] < n else 3
            b = r.randint(0, max(0, ln - 1)) if r.random() < 0.85 else -r.randint(1, 2)   # slice(before, after)
            a = r.choice([0, 0, r.randint(max(b, 0), ln + 1), -r.randint(0, 2)])
            w.append([b, a])
        return spell(r, {"k": k, "t": t, "w": w, "axes": ax, "ip": ip})
    if k == "bin":
        ax = gen_axes(r, n, mal and r.random() < 0.6)
        na = n_axes(ax, n)
        x = r.random()
        if mal and r.random() < 0.4:
            f = r.choice(["bad", 0, -1, [2] * (na + 1)])
        elif x < 0.5:
            f = r.choice([1, 2, 2, 3])
        else:
            f = [r.choice([1, 2, 2, 3, 4]) for _ in range(na)]
        return spell(r, {"k": k, "t": t, "f": f, "axes": ax, "mean": r.random() < 0.35, "ip": ip,
                         "rsp": r.choice([0, 0, 0, 1, 2])})
    if k == "fourier":
        ax = gen_axes(r, n, mal and r.random() < 0.5)
        na = n_axes(ax, n)
        x = r.random()
        if x < 0.5:
            outs = [r.randint(1, 6) for _ in range(na)]
            if mal and r.random() < 0.4:
                outs = r.choice([outs + [2], [0] * na])
            spec = ["out", outs]
        elif x < 0.75:
            spec = ["fac", r.choice([Q(1, 2), Q(3, 2), Q(2), Q(3, 4), Q(5, 4), Q(1), Q(1, 4)])]
        else:
            spec = ["facs", [r.choice([Q(1, 2), Q(3, 2), Q(2), Q(1), Q(5, 2)]) for _ in range(
                na if not (mal and r.random() < 0.4) else na + 1)]]
        return spell(r, {"k": k, "t": t, "spec": spec, "axes": ax, "ip": ip})
    op = {"k": "getitem", "t": t, "idx": gen_index(r, shape)}
    x = r.random()
    if x < 0.3:
        op["form"] = r.choice(["np", "tuple", "bare"])
    return op


# --- instantiated alphabet for the bounded-exhaustive part: each entry maps the current real
# state to an operation (targets: the newest dataset `-1` or the seed `0`)
def _tgt(impl, which):
    return len(impl.live) - 1 if which == -1 else 0


def _mk(kind, which=-1, **kw):
    def f(impl, counter):
        t = _tgt(impl, which)
        d = impl.live[t]
        n = d.array.ndim
        op = {"k": kind, "t": t}
        for k, v in kw.items():
            op[k] = v(n, list(d.array.shape)) if callable(v) else v
        if kind == "set_array":
            op["base"] = 10 * counter + 3
        return norm_dp(d, op)
    f.label = "%s@%d %s" % (kind, which, {k: (v if not callable(v) else "f") for k, v in kw.items()})
    return f


def alphabet(full: bool):
    S_ = lambda a=None, b=None, c=None: ["s", a, b, c]  # noqa: E731
    A = [
        _mk("getitem", idx=[["i", 0]]),
        _mk("getitem", idx=[["e"], ["i", -1]]),
        _mk("getitem", idx=[S_(1, None, None), ["e"]]),
        _mk("getitem", idx=[S_(None, None, 2)]),
        _mk("getitem", idx=[["e"], S_(None, None, -1)]),
        _mk("getitem", idx=[["l", [0, 0]]]),
        _mk("getitem", idx=[["e"], ["l", [0, -1]]]),
        _mk("getitem", idx=[["i", 0], ["e"], ["l", [0, 0]]]),          # separated advanced indices
        _mk("getitem", idx=[["l", [0, 0]], ["l", [0, -1]]]),           # two lists
        _mk("getitem", idx=[S_(None, None, None), ["i", 0], ["l", [0]]]),
        _mk("getitem", which=0, idx=[S_(None, 1, None)]),
        _mk("copy"),
        _mk("copy", which=0),
        _mk("set_origin", v=["s", Q(3, 2)]),
        _mk("set_sampling", v=lambda n, sh: ["l", [Q(i + 1, 2) for i in range(n)]]),
        _mk("set_units", v=lambda n, sh: ["l", [UNITS[i % len(UNITS)] for i in range(n)]]),
        _mk("set_array", shape=lambda n, sh: [2] * n, dt="f8"),
        _mk("set_array_from", src=0),
        _mk("pad", spec=["int", 1], ip=True),
        _mk("pad", spec=["int", 1], ip=False),
        _mk("pad", spec=lambda n, sh: ["shape", [s + 1 for s in sh]], ip=True),
        _mk("crop", w=lambda n, sh: [[1, 0]] + [[0, 0]] * (n - 1), axes=None, ip=True),
        _mk("crop", w=lambda n, sh: [[0, -1]] * n, axes=None, ip=False),
        _mk("crop", w=[[0, 1]], axes=0, ip=True),
        _mk("bin", f=2, axes=None, mean=False, ip=True),
        _mk("bin", f=2, axes=None, mean=False, ip=False),
        _mk("bin", f=[2], axes=[0], mean=True, ip=True),
        _mk("fourier", spec=["fac", Q(3, 2)], axes=None, ip=True),
        _mk("fourier", spec=["fac", Q(3, 2)], axes=None, ip=False),
        _mk("fourier", spec=["out", [2]], axes=0, ip=True),
    ]
    if full:
        A += [
            _mk("getitem", idx=[["i", -1], S_(None, None, -2)]),
            _mk("getitem", idx=[["l", [-1, 0]], S_(None, None, None), ["i", 0]]),
            _mk("getitem", idx=[S_(0, 0, None)]),
            _mk("getitem", idx=[["l", []]]),
            _mk("from_ds", cls="Generic"),
            _mk("from_ds", cls="D3"),
            _mk("set_units", v=["s", "nm"]),
            _mk("set_name"),
            _mk("pad", spec=["pair", 0, 2], ip=False),
            _mk("crop", w=[[0, 1]], axes=[-1], ip=False),
            _mk("bin", f=3, axes=[-1], mean=False, ip=True),
            _mk("bin", f=[2, 1], axes=[0, 0], mean=False, ip=False),
            _mk("fourier", spec=["out", [3]], axes=[-1], ip=False),
            # subclass-specific operations (an AttributeError where the class has no such method)
            _mk("to_d2"),
            _mk("dp", red="mean", how="get"),
            _mk("dp", red="max", how="attach"),
            _mk("dp", red="median", how="prop"),
            _mk("virt", det=lambda n, sh: ["mask", sh[2:4] if n == 4 else [2, 2],
                                           [(i % 3) != 1 for i in range(int(np.prod(sh[2:4])) if n == 4 else 4)]],
                attach=True),
            _mk("virt", det=["circle", Q(1), Q(1, 2), Q(1)], attach=False),
            _mk("virt", det=["annular", Q(1), Q(1), Q(1, 2), Q(3, 2)], attach=True),
            _mk("virt", det=["bad", 1], attach=False),
            # unusual spellings and malformed setter arguments
            _mk("set_origin", v=lambda n, sh: ["x", "nd", [Q(i) for i in range(n)]]),
            _mk("set_origin", v=["x", "none"]),
            _mk("set_sampling", v=lambda n, sh: ["x", "nested", [[Q(2)] * n]]),
            _mk("set_sampling", v=["x", "str"]),
            _mk("set_sampling", v=lambda n, sh: ["x", "nonnum", n, 1]),
            _mk("set_units", v=["x", "other", 0]),
            _mk("set_units", v=lambda n, sh: ["x", "ints", list(range(n))]),
            _mk("set_signal_units", val=1),
            _mk("copy", cca=False),
            _mk("bin", f=2, axes=0, mean=True, ip=True, aform="np", rsp=1),
            _mk("crop", w=[[1, 0]], axes=0, ip=False, aform="float"),
            _mk("fourier", spec=["out", [2]], axes=[0], ip=True, aform="list"),
            _mk("pad", spec=["pair", 1, 0], ip=True, aform="np"),
            _mk("set_array", shape=lambda n, sh: [2] * n, dt="i4", aslist=True),
            _mk("getitem", idx=[["i", -1], S_(None, None, -1)], form="np"),
            _mk("getitem", idx=[["l", [0, -1]]], form="bare"),
        ]
    return A


def norm_dp(d, op):
    """keep a get_dp_* operation inside what is encoded: complex data only with the mean reducer
    (NumPy orders complex numbers lexicographically), the cached property only when nothing is
    attached (the attached state has its own oracle)"""
    if op["k"] == "dp":
        if d.array.ndim != 4 or (np.iscomplexobj(d.array) and op["red"] != "mean"):
            op["red"] = "mean"
        if op["how"] == "prop" and hasattr(d, "_dp_" + op["red"]):
            op["how"] = "get"
    return op


# narrow-dtype sweep (oracle only): every flagged operation, in both variants, on data stored narrower than what NumPy
# computes in (block sums -> 64-bit accumulator, means / FFT -> float64 / float32, bool -> int64)
NARROW_DTS = ["u1", "i1", "u2", "i2", "u4", "i4", "f2", "f4", "c8", "b1"]
NARROW_SHAPES = [[6], [4, 6], [5, 4], [2, 4, 3], [2, 2, 4, 2], [1, 3, 1, 2, 2]]


def narrow_ops(shape):
    n = len(shape)
    return [
        ({"k": "pad", "spec": ["int", 1]}, None),
        ({"k": "pad", "spec": ["pairs", [[i % 2, 1] for i in range(n)]]}, {"mode": "edge"}),
        ({"k": "pad", "spec": ["shape", [s + 1 + i % 2 for i, s in enumerate(shape)]]}, {"constant_values": 2}),
        ({"k": "pad", "spec": ["pair", 1, 0]}, {"mode": "wrap"}),
        ({"k": "pad", "spec": ["int", 1]}, {"mode": "mean"}),
        ({"k": "crop", "w": [[1 if s > 1 else 0, 0] for s in shape], "axes": None}, None),
        ({"k": "crop", "w": [[0, -1 if shape[-1] > 1 else 0]], "axes": [-1]}, None),
        ({"k": "bin", "f": 2, "axes": None, "mean": False}, None),
        ({"k": "bin", "f": [2], "axes": [n - 1], "mean": False}, None),
        ({"k": "bin", "f": [3], "axes": [-1], "mean": False, "rsp": 1}, None),
        ({"k": "bin", "f": [2, 1][:n], "axes": [n - 1, 0][:n], "mean": False}, None),
        ({"k": "bin", "f": 2, "axes": None, "mean": True}, None),
        ({"k": "bin", "f": [2], "axes": 0, "mean": True}, None),
        ({"k": "fourier", "spec": ["fac", Q(3, 2)], "axes": None}, None),
        ({"k": "fourier", "spec": ["out", [2]], "axes": [-1]}, None),
        ({"k": "fourier", "spec": ["fac", Q(1, 2)], "axes": 0}, None),
    ]


# index sweep: Ellipsis in every position, negative steps, length-1 axes, 1..5 dimensions
SWEEP_SHAPES = {1: [3], 2: [1, 3], 3: [2, 1, 3], 4: [2, 1, 1, 2], 5: [1, 2, 1, 2, 1]}
SWEEP_ITEMS = [["i", 0], ["i", -1], ["s", None, None, -1], ["s", None, None, -2], ["s", 1, None, 2],
               ["s", None, None, None], ["s", -1, None, -1], ["l", [0, -1]], ["l", [0]]]


def sweep_indices(nd):
    """every tuple of at most min(nd, 3) items, without and with an Ellipsis in every position
    (also where it stands for no axis at all)"""
    out = []
    for m in range(0, min(nd, 3) + 1):
        for combo in itertools.product(SWEEP_ITEMS, repeat=m):
            out.append(list(combo))
            for pos in range(m + 1):
                out.append(list(combo[:pos]) + [["e"]] + list(combo[pos:]))
    return out


def sweep_seed(nd):
    sh = SWEEP_SHAPES[nd]
    cls = {2: "D2", 3: "D3", 4: "D4stem"}.get(nd, "Generic")
    return {"k": "from_array", "cls": cls, "shape": sh, "dt": "i8", "base": 1,
            "origin": ["l", [Q(i + 1) for i in range(nd)]], "sampling": ["l", [Q(1, i + 1) for i in range(nd)]],
            "units": ["l", ["u%d" % i for i in range(nd)]]}


SEEDS = [
    {"k": "from_array", "cls": "D3", "shape": [2, 3, 4], "dt": "f8", "base": 1,
     "origin": ["l", [Q(1), Q(2), Q(3)]], "sampling": ["l", [Q(1, 2), Q(1, 4), Q(2)]], "units": ["l", ["a", "b", "c"]]},
    {"k": "from_array", "cls": "D4stem", "shape": [2, 2, 3, 2], "dt": "i8", "base": 1,
     "origin": ["l", [Q(0), Q(1), Q(-2), Q(1, 2)]], "sampling": ["l", [Q(1), Q(2), Q(1, 2), Q(3)]],
     "units": ["l", ["nm", "nm", "mrad", "A^-1"]]},
    {"k": "from_array", "cls": "Generic", "shape": [3, 1, 2, 2, 2], "dt": "c16", "base": 1,
     "origin": None, "sampling": ["s", Q(1, 2)], "units": None},
    {"k": "from_array", "cls": "D2", "shape": [4, 3], "dt": "f4", "base": 1,
     "origin": ["l", [Q(5), Q(-3, 4)]], "sampling": ["l", [Q(3), Q(5, 4)]], "units": ["l", ["px", "s"]]},
    {"k": "from_array", "cls": "Generic", "shape": [5], "dt": "f8", "base": 1,
     "origin": ["s", Q(1)], "sampling": ["s", Q(2)], "units": ["s", "s"]},
    # integer-typed origin AND sampling arrays (int64): every flagged operation in both variants
    {"k": "from_array", "cls": "D2", "shape": [4, 3], "dt": "i8", "base": 1,
     "origin": ["l", [Q(2), Q(-1)]], "sampling": ["x", "nps", Q(3)], "units": ["x", "tuple", ["nm", "nm"]]},
    {"k": "from_shape", "cls": "D4stem", "shape": [2, 3, 2, 2], "fill": 1,
     "origin": ["x", "nd", [Q(0), Q(1), Q(2), Q(3)]], "sampling": ["s", Q(2)], "units": None},
    # narrow integer storage with values at the top / bottom of the dtype's range (uint8 230..253, int16 -32768..):
    # every block sum, mean and padded constant leaves the stored dtype
    {"k": "from_array", "cls": "D2", "shape": [4, 6], "dt": "u1", "base": 230,
     "origin": ["l", [Q(1, 2), Q(-1)]], "sampling": ["l", [Q(1, 4), Q(2)]], "units": ["l", ["nm", "A"]]},
    {"k": "from_array", "cls": "D3", "shape": [2, 4, 3], "dt": "i2", "base": -32768,
     "origin": None, "sampling": ["s", Q(1, 2)], "units": ["s", "px"]},
]


# ------------------------------------------------------------------------------------------
# one sequence on the implementation, with the direct oracle


def run_impl(makers, counter0=0):
    """makers: callables (impl, counter) -> op.  Returns the record of the run."""
    impl = M.Impl()
    ops, steps, bad = [], [], []
    queue = []
    mi = 0
    while queue or mi < len(makers):
        if not queue:
            op = makers[mi](impl, counter0 + mi)
            mi += 1
            if op is None:
                break
            queue = M.expand_op(impl, op)
        op = queue.pop(0)
        si = len(ops)
        ops.append(op)
        live_before = list(impl.live)
        snaps = [M.snapshot(d) for d in live_before]
        t = op.get("t")
        cal = [np.asarray(live_before[t].origin).dtype.kind, np.asarray(live_before[t].sampling).dtype.kind] \
            if t is not None else []
        src_obs = None
        if op["k"] == "getitem":
            src_obs = M.observe(live_before[t])
            src_obs["data"] = src_obs["data"].copy()
        flagged = op["k"] in ("pad", "crop", "bin", "fourier")
        if flagged:
            v = M.oracle_inplace_eq_copy(live_before[t], op)
            if v:
                bad.append((si, v[0], v[1]))
            if op["k"] == "pad":      # further np.pad keyword arguments (oracle only)
                v = M.oracle_inplace_eq_copy(live_before[t], op, PAD_KW[(si + len(op["spec"])) % len(PAD_KW)])
                if v:
                    bad.append((si, v[0], v[1]))
        err, new = impl.apply(op)
        in_place_target = t if (err is None and new is None and t is not None) else None
        # clause 3: the source (and every other live dataset) is bit-identical afterwards
        for i, (d, sn) in enumerate(zip(live_before, snaps)):
            if i == in_place_target:
                continue
            if M.snapshot(d) != sn:
                key = "source-modified" if i == t else "other-dataset-modified"
                bad.append((si, key, "%s changed dataset %d (%s)" % (M.op_str(op), i,
                                                                      "its source" if i == t else "not its target")))
        # clause 1
        for i, d in enumerate(impl.live):
            v = M.coherent(d)
            if v:
                bad.append((si, v[0], "after %s dataset %d: %s" % (M.op_str(op), i, v[1])))
        # clause 2
        if op["k"] == "getitem":
            v = M.oracle_getitem(src_obs, op["idx"], err, impl.live[new] if new is not None else None)
            if v:
                bad.append((si, v[0], v[1]))
        if op["k"] == "copy" and err is None:
            s_, c_ = live_before[t], impl.live[new]
            if not M.same_dataset(s_, c_):
                bad.append((si, "copy-differs", "copy() of dataset %d differs from it" % t))
            if np.shares_memory(s_.array, c_.array) or s_.units is c_.units or np.shares_memory(
                    np.asarray(s_.origin), np.asarray(c_.origin)) or np.shares_memory(
                    np.asarray(s_.sampling), np.asarray(c_.sampling)):
                bad.append((si, "copy-aliases-source", "copy() of dataset %d shares memory with it" % t))
        if op["k"] in ("dp", "virt") and err is None and new is not None:
            v = M.oracle_reduction(live_before[t], op, impl.live[new])
            if v:
                bad.append((si, v[0], v[1]))
        steps.append({
            "int_cal": "i" in cal or "u" in cal,
            "err": err, "new": new, "t": t,
            "t_obs": M.observe(impl.live[t]) if (t is not None and err is None) else None,
            "new_obs": M.observe(impl.live[new]) if new is not None else None,
            "alias": M.alias_of(impl.live), "tainted": impl.tainted,
        })
    final = [M.observe(d) for d in impl.live]
    return {"ops": ops, "steps": steps, "final": final, "fr": impl.fr_table, "bad": bad, "tainted": impl.tainted}


# ------------------------------------------------------------------------------------------
# comparison with the model's trace


def q_close(a: Fraction, b: Fraction, scale: Fraction):
    return a == b or abs(a - b) <= Fraction(1, 10 ** 9) * max(1, scale)


def cmp_obs(io, mo, tol):
    """impl observation vs model tuple -> None or a description of the difference"""
    cls, shape, flat, origin, sampling, units = mo
    origin = [Fraction(a, b) for a, b in origin]
    sampling = [Fraction(a, b) for a, b in sampling]
    if M.CLS_CODE.get(io["cls"]) != cls:
        return "class %s vs model code %s" % (io["cls"], cls)
    if io["shape"] != list(shape):
        return "shape %s vs model %s" % (io["shape"], list(shape))
    codes = M.encode(io["data"])
    if len(codes) != len(flat):
        return "data length %d vs model %d" % (len(codes), len(flat))
    for i, (c, m) in enumerate(zip(codes, flat)):
        if c != m:
            (cr, ci), (mr, mi) = M.decode(c), M.decode(m)
            if abs(cr - mr) > tol or abs(ci - mi) > tol:
                return "data[%d] = %s vs model %s (fixed-point codes, scale 2^20)" % (i, (cr, ci), (mr, mi))
    mq = [Fraction(x) for x in list(origin) + list(sampling)]
    scale = max([abs(x) for x in mq] + [Fraction(1)])
    if len(io["origin"]) != len(origin) or any(not q_close(a, Fraction(b), scale) for a, b in zip(io["origin"], origin)):
        return "origin %s vs model %s" % ([str(x) for x in io["origin"]], [str(x) for x in origin])
    if len(io["sampling"]) != len(sampling) or any(
            not q_close(a, Fraction(b), scale) for a, b in zip(io["sampling"], sampling)):
        return "sampling %s vs model %s" % ([str(x) for x in io["sampling"]], [str(x) for x in sampling])
    if io["units"] != list(units):
        return "units %s vs model %s" % (io["units"], list(units))
    return None


def compare(rec, mv):
    """rec: run_impl record; mv: parsed `run_show` value.  Returns None or (step, what)."""
    trace, final = mv
    if len(trace) != len(rec["steps"]):
        return -1, "trace length %d vs %d" % (len(trace), len(rec["steps"]))
    for si, (st, mt) in enumerate(zip(rec["steps"], trace)):
        code, tobs, nobs, alias = mt
        tol = M.TOL if st["tainted"] else 0
        want = 0 if st["err"] is None else M.ERR_CODE[st["err"]]
        if code != want:
            return si, "%s: implementation %s, model %s" % (
                M.op_str(rec["ops"][si]), st["err"] or "succeeds",
                {0: "succeeds", 1: "TypeErr", 2: "ValueErr", 3: "IndexErr", 4: "OtherErr"}[code])
        if st["err"] is None:
            if st["t"] is not None:
                d = cmp_obs(st["t_obs"], tobs[0], tol) if tobs else "model has no target"
                if d:
                    return si, "%s: target dataset %d: %s" % (M.op_str(rec["ops"][si]), st["t"], d)
            if (st["new"] is not None) != bool(nobs):
                return si, "%s: new dataset on one side only" % M.op_str(rec["ops"][si])
            if nobs:
                d = cmp_obs(st["new_obs"], nobs[0], tol)
                if d:
                    return si, "%s: returned dataset: %s" % (M.op_str(rec["ops"][si]), d)
        ma, mr, mc, mu = alias
        ia = st["alias"]
        if ia["cal_shares_memory"]:
            return si, "%s: two calibration arrays share memory" % M.op_str(rec["ops"][si])
        for nm, iv, mvv in (("array identity", ia["arr"], ma), ("array buffer (root)", ia["root"], mr),
                            ("origin/sampling arrays", ia["cal"], mc), ("units lists", ia["units"], mu)):
            if M.canon(iv) != M.canon(list(mvv)):
                return si, "%s: aliasing of %s: implementation %s, model %s" % (
                    M.op_str(rec["ops"][si]), nm, M.canon(iv), M.canon(list(mvv)))
    if len(final) != len(rec["final"]):
        return len(trace), "number of datasets %d vs model %d" % (len(rec["final"]), len(final))
    tol = M.TOL if rec["tainted"] else 0
    for i, (io, mo) in enumerate(zip(rec["final"], final)):
        d = cmp_obs(io, mo, tol)
        if d:
            return len(trace), "final state, dataset %d: %s" % (i, d)
    return None


# ------------------------------------------------------------------------------------------


def fixed(ops):
    return [(lambda impl, c, op=op: op) for op in ops]


def minimal_getitem_case(rec, si):
    """[from_array(same shape and calibration as the source), getitem] if it still fails"""
    op = rec["ops"][si]
    seq = fixed(rec["ops"][:si])
    r0 = run_impl(seq)
    src = r0["final"][op["t"]]
    if len(src["origin"]) != len(src["shape"]) or len(src["units"]) != len(src["shape"]):
        return None
    ops = [{"k": "from_array", "cls": src["cls"], "shape": src["shape"], "dt": "f8", "base": 0,
            "origin": ["l", src["origin"]], "sampling": ["l", src["sampling"]], "units": ["l", src["units"]]},
           {"k": "getitem", "t": 0, "idx": op["idx"]}]
    try:
        r = run_impl(fixed(ops))
    except Exception:  # noqa: BLE001
        return None
    return ops if r["bad"] else None


def shrink(rec, si, key):
    """neutralise earlier operations that are not needed for the failure (handles stay valid)"""
    ops = list(rec["ops"][:si + 1])
    for j in range(len(ops) - 1):
        if ops[j]["k"] in ("from_array", "from_shape", "from_ds", "copy", "getitem", "set_name", "set_signal_units",
                           "dp", "virt") or "t" not in ops[j]:
            continue
        if not ops[j].get("ip", True):
            continue
        trial = ops[:j] + [{"k": "set_name", "t": ops[j]["t"]}] + ops[j + 1:]
        try:
            r = run_impl(fixed(trial))
        except Exception:  # noqa: BLE001
            continue
        if any(k == key and s == si for s, k, _ in r["bad"]):
            ops = trial
    return ops


def report_oracle(ctx: Ctx, rec, origin):
    for si, key, what in rec["bad"]:
        ops = None
        if rec["ops"][si]["k"] == "getitem":
            ops = minimal_getitem_case(rec, si)
        if ops is None:
            ops = shrink(rec, si, key)
        ctx.violation(key, what, {"kind": "sequence", "ops": M.jsonable(ops), "origin": origin})


def check_batch(ctx: Ctx, name, recs, origin):
    """fast path: one exact fingerprint per sequence computed on both sides; sequences whose
    fingerprints differ (float rounding after mean / Fourier resampling, or a real difference)
    are re-evaluated with everything printed and compared value by value with the tolerances"""
    # sequences in which the implementation produced non-finite data (np.mean over a zero-length axis after a
    # crop to nothing -> NaN) have no fixed-point code: zero-length axes are outside the property's quantifier
    # ("shapes incl. length-1 axes"), such a sequence is counted and not compared
    hashes, kept = [], []
    for r in recs:
        try:
            hashes.append(M.record_hash(r))
            kept.append(r)
        except (ValueError, OverflowError):
            ctx.dist("outside-domain/non-finite-data-after-zero-length-axis")
    recs = kept
    if not recs:
        return 0
    exprs = [M.seq_expr(r["ops"], r["fr"], "run_hash") for r in recs]
    vals = ctx.coq_eval(name, M.PRE, exprs, shard=max(8, min(100, len(exprs) // 16 + 1)))
    slow = [rec for rec, hi, h in zip(recs, hashes, vals) if hi != h]
    ctx.cov["traces_validated_against_impl"] += len(recs)
    ctx.dist("compare/exact-fingerprint", len(recs) - len(slow))
    ctx.dist("compare/value-by-value", len(slow))
    nd = 0
    if slow:
        full = ctx.coq_eval(name + "_full", M.PRE, [M.seq_expr(r["ops"], r["fr"]) for r in slow],
                            shard=max(2, min(40, len(slow) // 16 + 1)))
        for rec, mv in zip(slow, full):
            d = compare(rec, mv)
            if d:
                nd += 1
                ctx.cov["disagreements_checked"] += 1
                si, what = d
                ops = rec["ops"][:si + 1] if si >= 0 else rec["ops"]
                ctx.violation(
                    "sequence-correspondence",
                    "model and implementation disagree (the C03 theorems no longer speak about this code): " + what,
                    {"kind": "sequence", "ops": M.jsonable(ops), "origin": origin},
                    found_input=bool(rec["bad"]))
    return nd


def account(ctx: Ctx, rec, kind):
    for op, st in zip(rec["ops"], rec["steps"]):
        ctx.dist("op/%s%s" % (op["k"], "/in_place" if op.get("ip") else ""))
        ctx.dist("outcome/%s" % (st["err"] or "ok"))
        if op["k"] == "getitem":
            kinds = "".join(sorted(set(it[0] for it in op["idx"])))
            ctx.dist("index/%s%s" % (kinds or "empty", "/separated" if M.separated_advanced(op["idx"]) else ""))
        if st["err"] is None and st["t_obs"] is not None:
            ctx.dist("ndim/%d" % len(st["t_obs"]["shape"]))
        if op["k"] in ("pad", "crop", "bin", "fourier") and st["int_cal"]:
            ctx.dist("integer-typed-calibration/%s%s" % (op["k"], "/in_place" if op.get("ip") else ""))
        if op["k"] in ("from_array", "set_array") and "dt" in op:
            ctx.dist("data-dtype/%s%s" % (op["dt"], "/edge-of-range" if (
                op["dt"] in M.NARROW_INT and (op["base"] < 0 or op["base"] + int(np.prod(op["shape"])) + 2 >= np.iinfo(
                    M.DTYPES[op["dt"]]).max)) else ""))
        if op.get("aform") or op.get("aslist") or op.get("cca") is False:
            ctx.dist("argument-spelling/%s" % (op.get("aform") or ("array-like" if op.get("aslist") else "copy(False)")))
        if op["k"] == "getitem" and (op.get("form") or op.get("via")):
            ctx.dist("index-spelling/%s" % (op.get("form") or op.get("via")))
        if op["k"] in ("dp", "virt"):
            ctx.dist("4dstem/%s" % (op["red"] + "/" + op["how"] if op["k"] == "dp" else
                                    op["det"][0] + ("/attach" if op["attach"] else "")))
        for key in ("v", "origin", "sampling", "units"):
            if isinstance(op.get(key), list) and op[key][0] == "x":
                ctx.dist("argument-spelling/%s" % op[key][1])
    n_ok = sum(1 for st in rec["steps"] if st["err"] is None)
    key = json.dumps(M.jsonable(rec["ops"]), sort_keys=True, default=str)
    ctx.count((kind, key), nontrivial=n_ok >= 2 and len(rec["final"]) >= 2)
    ctx.dist("sequences/%s" % kind)
    ctx.dist("sequence_length/%d" % len(rec["ops"]))


def corpus():
    p = VERIF / "corpus" / "C03" / "corpus.json"
    return M.unjson(json.loads(p.read_text())) if p.exists() else []


def hash_more(ctx: Ctx, rel, names):
    """further anchored definitions: recorded like ctx.hash_sources; a definition the recorded
    baseline does not know yet is not a drift"""
    from ..common import SRC, _baseline_hashes, ast_hash
    h = ast_hash(SRC / "quantem" / rel, names)
    ctx.cov["source_ast_hashes"].setdefault(rel, {}).update(h)
    base = _baseline_hashes().get(ctx.prop, {}).get(rel) or {}
    changed = sorted(k for k in h if k in base and base[k] != h[k])
    if changed:
        ctx.escalated = True
        ctx.cov.setdefault("drift", {}).setdefault(rel, [])
        ctx.cov["drift"][rel] = sorted(set(ctx.cov["drift"][rel]) | set(changed))
        ctx.log("drift guard: %s changed in %s -> quick budget escalated" % (changed[:6], rel))


def impl_hashes(ctx: Ctx, rel, cls, methods):
    """pad / crop / bin are preceded by typing @overload stubs of the same name, and the framework's
    ast_hash takes the FIRST definition of a name: hash the LAST one (the implementation) as well"""
    import ast
    import hashlib
    from ..common import SRC, _baseline_hashes
    try:
        tree = ast.parse((SRC / "quantem" / rel).read_text())
    except Exception:  # noqa: BLE001
        return
    h = {}
    for n in tree.body:
        if isinstance(n, ast.ClassDef) and n.name == cls:
            for m in n.body:
                if isinstance(m, ast.FunctionDef) and m.name in methods:
                    h["%s.%s (implementation)" % (cls, m.name)] = hashlib.sha256(ast.dump(m).encode()).hexdigest()[:16]
    ctx.cov["source_ast_hashes"].setdefault(rel, {}).update(h)
    base = _baseline_hashes().get(ctx.prop, {}).get(rel) or {}
    changed = sorted(k for k in h if k in base and base[k] != h[k])
    if changed:
        ctx.escalated = True
        ctx.cov.setdefault("drift", {}).setdefault(rel, [])
        ctx.cov["drift"][rel] = sorted(set(ctx.cov["drift"][rel]) | set(changed))
        ctx.log("drift guard: %s changed in %s -> quick budget escalated" % (changed, rel))


def run(ctx: Ctx):
    ctx.hash_sources("core/datastructures/dataset.py",
                     ["Dataset.__init__", "Dataset.from_array", "Dataset.copy", "Dataset.pad", "Dataset.crop",
                      "Dataset.bin", "Dataset.fourier_resample", "Dataset.__getitem__", "Dataset.register_dimension"])
    for f, c in (("dataset2d.py", "Dataset2d"), ("dataset3d.py", "Dataset3d"), ("dataset4d.py", "Dataset4d"),
                 ("dataset4dstem.py", "Dataset4dstem")):
        ctx.hash_sources("core/datastructures/" + f, [c + ".from_array", c + ".__init__"])
    ctx.hash_sources("core/utils/validators.py", ["ensure_valid_array", "validate_ndinfo", "validate_units"])
    hash_more(ctx, "core/datastructures/dataset.py", ["Dataset._copy_custom_attributes", "Dataset._normalize_axes"])
    impl_hashes(ctx, "core/datastructures/dataset.py", "Dataset", ["pad", "crop", "bin"])
    hash_more(ctx, "core/datastructures/dataset2d.py", ["Dataset2d.from_shape"])
    hash_more(ctx, "core/datastructures/dataset3d.py", ["Dataset3d.from_shape", "Dataset3d.to_dataset2d"])
    hash_more(ctx, "core/datastructures/dataset4d.py", ["Dataset4d.from_shape"])
    hash_more(ctx, "core/datastructures/dataset4dstem.py",
              ["Dataset4dstem.get_dp_mean", "Dataset4dstem.get_dp_max", "Dataset4dstem.get_dp_median",
               "Dataset4dstem.dp_mean", "Dataset4dstem.dp_max", "Dataset4dstem.dp_median",
               "Dataset4dstem.get_virtual_image", "Dataset4dstem._create_circle_mask",
               "Dataset4dstem._create_annular_mask", "Dataset4dstem.regenerate_virtual_images",
               "Dataset4dstem.copy", "Dataset4dstem._copy_custom_attributes"])
    ctx.cov["rule"] = (
        "a case is a sequence of Dataset operations (construction incl. from_shape, copy, setters with well- and "
        "malformed arguments of every Python value kind, pad/crop/bin/fourier_resample in place or copying, "
        "indexing, Dataset3d.to_dataset2d, Dataset4dstem.get_dp_mean/max/median and get_virtual_image) executed on "
        "real objects and on the model: corpus sequences, sequences of length 2 (quick: every 4th / 7th pair on "
        "the 3-D / 4-D seed while the anchored source equals the recorded baseline, all 900 / every 5th once the "
        "drift guard fires) / 3 (thorough: 30 operations on the 3-D seed = 27 000) over an instantiated alphabet, every alphabet operation on nine "
        "1-5-D seeds of every class (one with integer-typed calibration, two with uint8 / int16 data at the edge of "
        "the dtype's range), an index sweep (all tuples of <= 3 "
        "items from 9, with an Ellipsis in every position, on 1-5-D datasets with length-1 axes; quick: a "
        "seeded sample), and seeded random sequences of length <= 12 generated against the live state (about "
        "8% malformed arguments; 30% of the generated arrays in a narrow integer dtype uint8/int8/uint16/int16/uint32/"
        "int32, 3/4 of those with values at the edge of the dtype's range); plus oracle-only cases: Dataset4dstem "
        "objects with attached datasets, and a narrow-dtype sweep (uint8 ... int32, float16, float32, complex64, "
        "bool data at the edge of the range x 6 shapes of 1-5 dimensions x 16 pad/crop/bin/fourier_resample calls: "
        "values AND dtype of the in-place and the copying variant compared with each other and with NumPy's own "
        "result on the bare array); "
        "distinct by its operations, non-trivial when at least two operations succeed and at least two "
        "datasets are alive at the end")
    ctx.assumptions += [
        "NumPy's own indexing, np.pad, np.sum and ndarray.base behave as modelled (np_index/pad_data/bin_axis; "
        "exercised by every correspondence run: data are distinct tokens, so any layout difference is seen)",
        "the Fourier kernel and the float division of the 'mean' reducer are outside the model: their outputs "
        "are handed to the model as a table (section parameters FR/divf of the theorems); values compared "
        "within 0.004 after such a transform, exactly otherwise",
        "np.mean / np.max / np.median over the scan axes and np.sum(array * mask) behave as modelled "
        "(reduce_dp / virtual_image); the circle / annulus masks are compared exactly (centres and radii on "
        "a half-integer grid, where sqrt and <= are exact)",
        "Dataset4dstem objects with attached datasets (attach=True, cached dp_* properties, virtual images) "
        "are judged by the direct oracle only",
    ]
    ctx.cov["trusted_base"] += [
        "Coq 8.16.1 kernel incl. vm_compute (used to run the model); no native_compute",
        "hand-written model coq/model/C03_Model.v + coq/lib/C03_Slice.v tied to /repo by this correspondence run and, for "
        "the bookkeeping of __getitem__ / _normalize_axes / the validators / the setters / the in-place and copying "
        "assignments of pad, crop, bin, fourier_resample, by the translator tie (coq/gen_proofs/C03_GenProperties.v)",
        "harness/props/C03.py, harness/impl_C03.py (generators, oracle, canonicalisation, Python->Coq printers), "
        "harness/common.py",
    ]
    ctx.proofs_or_violation()
    # translator tie: the bookkeeping the model transcribes by hand, re-translated from the current source and
    # proved equal to the model (harness/translate_C03.py, coq/gen_proofs/C03_GenProofs.v)
    c03_tie.run_tie(ctx, {"index": gen_index, "axes": gen_axes, "num": gen_num, "units": gen_units,
                          "ORIG": ORIG, "SAMP": SAMP})
    r = ctx.rng

    # 1. corpus (always first)
    recs = []
    for ops in corpus():
        rec = run_impl(fixed(ops))
        account(ctx, rec, "corpus")
        report_oracle(ctx, rec, "corpus")
        recs.append(rec)
    if recs:
        nd = check_batch(ctx, "corpus", recs, "corpus")
        ctx.log("corpus: %d sequences, %d disagreements" % (len(recs), nd))

    # 2. bounded-exhaustive: every sequence of `depth` alphabet operations after a seed
    #    quick:    depth 2 over the 30-operation alphabet: every 4th pair on the 3-D seed, every 7th on the 4-D
    #              seed; when the drift guard fires: all 900 on the 3-D seed, every 5th one on the 4-D seed
    #    thorough: depth 3 over the 30-operation alphabet on the 3-D seed (27 000 sequences) and
    #              depth 2 over the full 61-operation alphabet on the 3-D and the 4dstem seed (every third
    #              one on the 5-D seed)
    if __import__("os").environ.get("C03_DEV_FAST"):
        plans = [(2, alphabet(False), SEEDS[0], 23)]
    elif ctx.quick and ctx.escalated:
        # the anchored source differs from the recorded baseline: the full depth-2 budget
        plans = [(2, alphabet(False), SEEDS[0], 1), (2, alphabet(False), SEEDS[1], 5)]
    elif ctx.quick:
        # unchanged source (drift guard silent, translator tie re-proved above): every 4th / 7th pair
        # (strides chosen so that every operation still occurs in both positions)
        plans = [(2, alphabet(False), SEEDS[0], 4), (2, alphabet(False), SEEDS[1], 7)]
    else:
        plans = [(3, alphabet(False), SEEDS[0], 1)] + [(2, alphabet(True), sd, 1) for sd in SEEDS[:2]] + [
            (2, alphabet(True), SEEDS[2], 3)]
    n_exh = nd = 0
    for depth, alpha, sd, stride in plans:
        recs = []
        for ci, combo in enumerate(itertools.product(alpha, repeat=depth)):
            if ci % stride:
                continue
            rec = run_impl(fixed([sd]) + list(combo))
            account(ctx, rec, "exhaustive")
            report_oracle(ctx, rec, "exhaustive depth %d" % depth)
            recs.append(rec)
            if len(recs) >= 3000:
                nd += check_batch(ctx, "exh", recs, "exhaustive")
                n_exh += len(recs)
                recs = []
        if recs:
            nd += check_batch(ctx, "exh", recs, "exhaustive")
            n_exh += len(recs)
            ctx.sample({"kind": "exhaustive depth %d" % depth, "ops": [M.op_str(o) for o in recs[len(recs) // 3]["ops"]]})
        ctx.dist("exhaustive/depth%d_alphabet%d" % (depth, len(alpha)), 1)
    # every alphabet entry once on every seed (all dimensionalities 1..5, every class)
    recs = []
    for sd in SEEDS:
        # quick: the two narrow-integer seeds take the 30-operation alphabet (pad / crop / bin / fourier in both variants,
        # indexing, setters), the other seeds all 71 operations
        for a in alphabet(full=not (ctx.quick and sd["k"] == "from_array" and sd["dt"] in M.NARROW_INT)):
            rec = run_impl(fixed([sd]) + [a])
            account(ctx, rec, "exhaustive")
            report_oracle(ctx, rec, "alphabet")
            recs.append(rec)
    nd += check_batch(ctx, "alpha", recs, "exhaustive")
    n_exh += len(recs)
    ctx.log("bounded-exhaustive (%s): %d sequences, %d disagreements" % (
        ", ".join("depth %d x %d ops%s" % (d, len(a), "" if st == 1 else " (every %d.)" % st) for d, a, _, st in plans),
        n_exh, nd))

    # 2b. index sweep on datasets of every dimensionality with length-1 axes: Ellipsis in every
    #     position, negative steps, lists next to / separated from integers (12 expressions per
    #     sequence, all on the seed dataset); quick: a seeded sample, thorough: everything
    recs = []
    for nd in (1, 2, 3, 4, 5):
        allidx = sweep_indices(nd)
        if ctx.quick and len(allidx) > 70:
            allidx = r.sample(allidx, 70)
        elif len(allidx) > 3000:
            allidx = r.sample(allidx, 3000)
        forms = [None, None, "np", "tuple", "bare"]
        for i in range(0, len(allidx), 12):
            ops = [sweep_seed(nd)] + [dict({"k": "getitem", "t": 0, "idx": ix}, **(
                {"form": f} if (f := forms[(i + j) % len(forms)]) else {})) for j, ix in enumerate(allidx[i:i + 12])]
            rec = run_impl(fixed(ops))
            account(ctx, rec, "index-sweep")
            report_oracle(ctx, rec, "index sweep")
            recs.append(rec)
    nd_ = check_batch(ctx, "sweep", recs, "index sweep")
    ctx.log("index sweep: %d sequences (%d index expressions), %d disagreements" % (
        len(recs), sum(len(x["ops"]) - 1 for x in recs), nd_))

    # 2c. Dataset4dstem with attached state (oracle only: the model has no attached datasets)
    n_att = ctx.budget(25, 400)
    for i in range(n_att):
        seed_i = r.randrange(1 << 60)
        bad, desc = M.oracle_attached(__import__("random").Random(seed_i))
        ctx.count(("attached", i, json.dumps(desc, sort_keys=True)), nontrivial=True)
        ctx.dist("sequences/4dstem-attached")
        for key, what in bad:
            ctx.violation(key, what, {"kind": "attached", "rng_seed": seed_i, "desc": desc})
    ctx.log("4dstem attached-state oracle: %d cases" % n_att)

    # 2d. narrow-dtype sweep (oracle only: the model's data are exact numbers, a dtype is not part of it)
    n_nar = 0
    for rep in range(ctx.budget(1, 6)):
        for dt in NARROW_DTS:
            for shape in NARROW_SHAPES:
                for op, extra in narrow_ops(shape):
                    seed_i = r.randrange(1 << 60)
                    bad, arr = M.oracle_narrow(seed_i, dt, shape, op, extra)
                    n_nar += 1
                    ctx.count(("narrow", dt, seed_i, json.dumps(M.jsonable([shape, op, extra]), sort_keys=True)),
                              nontrivial=True)
                    ctx.dist("sequences/narrow-dtype")
                    ctx.dist("narrow-dtype/%s/%s" % (dt, op["k"]))
                    for key, what in bad:
                        ctx.violation(key, what, {"kind": "narrow", "rng_seed": seed_i, "dt": dt, "shape": shape,
                                                  "op": M.jsonable(op), "extra": extra,
                                                  "array": str(arr.reshape(-1)[:8].tolist())})
    ctx.log("narrow-dtype sweep: %d cases (both variants each)" % n_nar)

    # 3. random histories
    nseq = ctx.budget(60, 5000)
    recs = []
    for i in range(nseq):
        depth_r = r.choice([12, 12, 12, 8, 5])
        sr = __import__("random").Random(r.randrange(1 << 60))
        makers = [(lambda impl, c, sr=sr, dl=depth_r: gen_op(sr, impl, c, dl)) for _ in range(depth_r)]
        rec = run_impl(makers, counter0=1)
        account(ctx, rec, "random")
        report_oracle(ctx, rec, "random")
        recs.append(rec)
    nd = check_batch(ctx, "rand", recs, "random")
    ctx.log("random: %d sequences, %d disagreements" % (len(recs), nd))
    for rec in recs[:3]:
        ctx.sample({"kind": "random", "ops": [M.op_str(o) for o in rec["ops"]],
                    "outcomes": [st["err"] or "ok" for st in rec["steps"]]})


def replay(ctx: Ctx, path):
    rp = M.unjson(json.loads(open(path).read()))
    if rp.get("kind") == "attached":
        bad, desc = M.oracle_attached(__import__("random").Random(rp["rng_seed"]))
        print("Dataset4dstem with attached datasets:", desc)
        for key, what in bad:
            print("oracle: [%s] %s" % (key, what))
        if not bad:
            print("oracle: property holds on this case")
        return 1 if bad else 0
    if rp.get("kind") == "narrow":
        bad, arr = M.oracle_narrow(rp["rng_seed"], rp["dt"], rp["shape"], rp["op"], rp.get("extra"))
        print("%s array of shape %s: %s\n  operation %s %s, in place and copying" % (
            arr.dtype, list(arr.shape), arr.reshape(-1)[:12].tolist(), M.op_str(rp["op"]), rp.get("extra") or ""))
        for key, what in bad:
            print("oracle: [%s] %s" % (key, what))
        if not bad:
            print("oracle: property holds on this case")
        return 1 if bad else 0
    if rp.get("kind") != "sequence":
        print("nothing to replay in %s (%s)" % (path, rp.get("what", "")))
        return 0
    ops = rp["ops"]
    rec = run_impl(fixed(ops))
    for op, st in zip(rec["ops"], rec["steps"]):
        print("  %-60s -> %s" % (M.op_str(op), st["err"] or "ok"))
        if st["new_obs"]:
            o = st["new_obs"]
            print("      returned %s shape %s origin %s sampling %s units %s" % (
                o["cls"], o["shape"], [str(x) for x in o["origin"]], [str(x) for x in o["sampling"]], o["units"]))
    for si, key, what in rec["bad"]:
        print("oracle: step %d [%s] %s" % (si, key, what))
    mv = ctx.coq_eval("replay", M.PRE, [M.seq_expr(rec["ops"], rec["fr"])])[0]
    d = compare(rec, mv)
    print("model vs implementation:", "agree" if d is None else "DISAGREE at step %d: %s" % d)
    if not rec["bad"]:
        print("oracle: property holds on this case")
    return 1 if (rec["bad"] or d) else 0
