"""C03 — Dataset containers stay coherent under any history of operations.
Theorems: coq/props/C03_Properties.v (over coq/model/C03_Model.v).
Tie: operation sequences (corpus, bounded-exhaustive over an instantiated alphabet, seeded random
to depth 12) are executed on real quantem Dataset objects and on the model; after every step
the error class, class/shape/data/origin/sampling/units of the touched datasets and the aliasing
relation between all live datasets are compared, at the end every dataset.  Independently of the
model, the four clauses of the property are evaluated directly on the real objects (oracle)."""
from __future__ import annotations

import itertools
import json
from fractions import Fraction

import numpy as np

from .. import impl_C03 as M
from ..common import VERIF, Ctx

Q = Fraction
UNITS = ["nm", "A", "mrad", "px", "s", "A^-1"]
ORIG = [Q(0), Q(1), Q(-2), Q(1, 2), Q(-3, 4), Q(5), Q(3, 2), Q(10)]
SAMP = [Q(1), Q(2), Q(1, 2), Q(1, 4), Q(3), Q(3, 2), Q(5, 4), Q(1, 8)]


# ------------------------------------------------------------------------------------------
# generators (all randomness from ctx.rng)


def gen_shape(r, ndim, cap=120):
    for _ in range(50):
        sh = [r.choice([1, 1, 2, 2, 2, 3, 3, 4, 5]) for _ in range(ndim)]
        if int(np.prod(sh)) <= cap:
            return sh
    return [1] * ndim


def gen_num(r, n, pool, wrong=0.08):
    x = r.random()
    if x < 0.35:
        return None
    if x < 0.5:
        return ["s", r.choice(pool)]
    ln = n if r.random() > wrong else max(0, n + r.choice([-1, 1]))
    return ["l", [r.choice(pool) for _ in range(ln)]]


def gen_units(r, n, wrong=0.08):
    x = r.random()
    if x < 0.35:
        return None
    if x < 0.5:
        return ["s", r.choice(UNITS)]
    ln = n if r.random() > wrong else max(0, n + r.choice([-1, 1]))
    return ["l", [r.choice(UNITS) for _ in range(ln)]]


def gen_from_array(r, counter, ndim=None, cls=None):
    cls = cls or r.choice(["Generic", "Generic", "D2", "D3", "D4", "D4stem"])
    k = {"D2": 2, "D3": 3, "D4": 4, "D4stem": 4}.get(cls)
    if ndim is None:
        if k is None:
            ndim = r.choice([1, 2, 3, 4, 5])
        else:
            ndim = k if r.random() < 0.8 else r.choice([k - 1, k - 1, k + 1])
    eff = ndim if k is None else max(k, ndim)
    return {"k": "from_array", "cls": cls, "shape": gen_shape(r, ndim), "dt": r.choice(["i8", "f8", "f8", "f4", "c16"]),
            "base": 10 * counter + 1, "origin": gen_num(r, eff, ORIG), "sampling": gen_num(r, eff, SAMP),
            "units": gen_units(r, eff)}


def gen_axes(r, n, malformed):
    x = r.random()
    if x < 0.45:
        return None
    if x < 0.6:
        return r.randrange(n) if not malformed else r.choice([-1, n, -n - 1])
    k = r.randint(1, n)
    ax = r.sample(range(n), k)
    if r.random() < 0.5:
        ax.sort()
    if malformed:
        y = r.random()
        if y < 0.4:
            ax[r.randrange(len(ax))] = r.choice([-1, -n])      # negative axis
        elif y < 0.7:
            ax.append(ax[0])                                   # repeated axis
        else:
            ax[r.randrange(len(ax))] = n + r.randint(0, 1)     # out of range
    return ax


def n_axes(ax, n):
    return n if ax is None else 1 if isinstance(ax, int) else len(ax)


def gen_index(r, shape):
    n = len(shape)
    mal = r.random() < 0.07
    m = r.choice([n, n, n, max(0, n - 1), max(0, n - 2), r.randint(0, n)])
    if mal and r.random() < 0.3:
        m = n + 1
    use_ell = r.random() < 0.3 and m <= n
    if use_ell and m == n and r.random() < 0.7:
        m = max(0, m - r.randint(0, 2))
    ell_pos = r.randint(0, m) if use_ell else None
    list_len = r.choice([1, 2, 2, 3])
    p_list = r.choice([0.0, 0.0, 0.15, 0.3, 0.5])
    # which axis each item addresses
    axes_before = list(range(0, ell_pos if use_ell else m))
    axes_after = list(range(n - (m - ell_pos), n)) if use_ell else []
    items = []
    for pos, ax in enumerate(axes_before + axes_after):
        ln = shape[ax] if ax < n else 2
        x = r.random()
        if x < p_list:
            ll = list_len if r.random() < 0.85 else r.choice([0, 1, list_len + 1])
            if ln == 0:
                lst = [0] * ll if mal else []
            else:
                lst = [r.randint(-ln, ln - 1) for _ in range(ll)]
                if mal and lst and r.random() < 0.5:
                    lst[0] = ln + 1
            items.append(["l", lst])
        elif x < p_list + (1 - p_list) * 0.4:
            if ln == 0:
                items.append(["s", None, None, None])
            else:
                k = r.randint(-ln, ln - 1)
                if mal and r.random() < 0.4:
                    k = r.choice([ln, -ln - 1])
                items.append(["i", k])
        else:
            a = r.choice([None, None, r.randint(-ln - 1, ln + 1)])
            b = r.choice([None, None, r.randint(-ln - 1, ln + 1)])
            c = r.choice([None, None, None, 1, 2, 2, -1, -2, 3])
            if mal and r.random() < 0.3:
                c = 0
            items.append(["s", a, b, c])
    if use_ell:
        items.insert(ell_pos, ["e"])
        if mal and r.random() < 0.3:
            items.append(["e"])
    return items


def gen_op(r, impl, counter, depth_left):
    live = impl.live
    cands = [i for i, d in enumerate(live) if d.array.ndim >= 1]
    if not cands or (len(live) < 3 and r.random() < 0.15):
        return gen_from_array(r, counter)
    t = r.choice(cands + cands[-2:])          # bias to recent datasets
    d = live[t]
    shape = list(d.array.shape)
    n = len(shape)
    size = int(np.prod(shape))
    mal = r.random() < 0.08
    kinds = (["getitem"] * 20 + ["pad"] * 7 + ["crop"] * 8 + ["bin"] * 8 + ["fourier"] * 6 + ["copy"] * 4 +
             ["set_origin"] * 3 + ["set_sampling"] * 3 + ["set_units"] * 3 + ["set_array"] * 3 +
             ["set_array_from"] * 2 + ["from_ds"] * 2 + ["set_name"] + ["from_array"] * 2)
    k = r.choice(kinds)
    if size > 300 and k in ("pad", "fourier"):
        k = r.choice(["crop", "bin", "getitem"])
    ip = r.random() < 0.5
    if k == "from_array":
        return gen_from_array(r, counter)
    if k == "from_ds":
        return {"k": k, "cls": r.choice(["Generic", "D2", "D3", "D4", "D4stem", M.cls_name(d)]), "t": t}
    if k in ("copy", "set_name"):
        return {"k": k, "t": t}
    if k in ("set_origin", "set_sampling"):
        v = None
        while v is None:
            v = gen_num(r, n, ORIG if k == "set_origin" else SAMP, wrong=0.15)
        return {"k": k, "t": t, "v": v}
    if k == "set_units":
        v = None
        while v is None:
            v = gen_units(r, n, wrong=0.15)
        return {"k": k, "t": t, "v": v}
    if k == "set_array":
        nd = n if r.random() < 0.75 else max(1, n + r.choice([-1, -1, 1]))
        return {"k": k, "t": t, "shape": gen_shape(r, nd), "dt": r.choice(["i8", "f8", "f4", "c16"]),
                "base": 10 * counter + 3}
    if k == "set_array_from":
        return {"k": k, "t": t, "src": r.choice(cands)}
    if k == "pad":
        x = r.random()
        if mal and r.random() < 0.5:
            spec = r.choice([["none"], ["both"], ["int", -1], ["pairs", [[1, 1]] * (n + 1)], ["shape", [3] * (n + 1)]])
        elif x < 0.25:
            spec = ["int", r.randint(0, 2)]
        elif x < 0.4:
            spec = ["pair", r.randint(0, 2), r.randint(0, 2)]
        elif x < 0.65:
            spec = ["pairs", [[r.randint(0, 2), r.randint(0, 2)] for _ in range(n if r.random() < 0.85 else 1)]]
        else:
            spec = ["shape", [max(0, s + r.randint(-2, 3)) for s in shape]]
        return {"k": k, "t": t, "spec": spec, "ip": ip}
    if k == "crop":
        ax = gen_axes(r, n, mal and r.random() < 0.6)
        na = n_axes(ax, n)
        if mal and r.random() < 0.4:
            na = max(0, na + r.choice([-1, 1]))
        w = []
        axl = list(range(n)) if ax is None else [ax] if isinstance(ax, int) else ax
        for j in range(na):
            ln = shape[axl[j] % n] if j < len(axl) and -n <= axl[j] < n else 3
            b = r.randint(0, max(0, ln - 1))
            a = r.choice([0, 0, r.randint(b, ln + 1), -r.randint(0, 2)])
            w.append([b, a])
        return {"k": k, "t": t, "w": w, "axes": ax, "ip": ip}
    if k == "bin":
        ax = gen_axes(r, n, mal and r.random() < 0.6)
        na = n_axes(ax, n)
        x = r.random()
        if mal and r.random() < 0.4:
            f = r.choice(["bad", 0, -1, [2] * (na + 1)])
        elif x < 0.5:
            f = r.choice([1, 2, 2, 3])
        else:
            f = [r.choice([1, 2, 2, 3, 4]) for _ in range(na)]
        return {"k": k, "t": t, "f": f, "axes": ax, "mean": r.random() < 0.35, "ip": ip}
    if k == "fourier":
        ax = gen_axes(r, n, mal and r.random() < 0.5)
        na = n_axes(ax, n)
        x = r.random()
        if x < 0.5:
            outs = [r.randint(1, 6) for _ in range(na)]
            if mal and r.random() < 0.4:
                outs = r.choice([outs + [2], [0] * na])
            spec = ["out", outs]
        elif x < 0.75:
            spec = ["fac", r.choice([Q(1, 2), Q(3, 2), Q(2), Q(3, 4), Q(5, 4), Q(1), Q(1, 4)])]
        else:
            spec = ["facs", [r.choice([Q(1, 2), Q(3, 2), Q(2), Q(1), Q(5, 2)]) for _ in range(
                na if not (mal and r.random() < 0.4) else na + 1)]]
        return {"k": k, "t": t, "spec": spec, "axes": ax, "ip": ip}
    return {"k": "getitem", "t": t, "idx": gen_index(r, shape)}


# --- instantiated alphabet for the bounded-exhaustive part: each entry maps the current real
# state to an operation (targets: the newest dataset `-1` or the seed `0`)
def _tgt(impl, which):
    return len(impl.live) - 1 if which == -1 else 0


def _mk(kind, which=-1, **kw):
    def f(impl, counter):
        t = _tgt(impl, which)
        d = impl.live[t]
        n = d.array.ndim
        op = {"k": kind, "t": t}
        for k, v in kw.items():
            op[k] = v(n, list(d.array.shape)) if callable(v) else v
        if kind == "set_array":
            op["base"] = 10 * counter + 3
        return op
    f.label = "%s@%d %s" % (kind, which, {k: (v if not callable(v) else "f") for k, v in kw.items()})
    return f


def alphabet(full: bool):
    S_ = lambda a=None, b=None, c=None: ["s", a, b, c]  # noqa: E731
    A = [
        _mk("getitem", idx=[["i", 0]]),
        _mk("getitem", idx=[["e"], ["i", -1]]),
        _mk("getitem", idx=[S_(1, None, None), ["e"]]),
        _mk("getitem", idx=[S_(None, None, 2)]),
        _mk("getitem", idx=[["e"], S_(None, None, -1)]),
        _mk("getitem", idx=[["l", [0, 0]]]),
        _mk("getitem", idx=[["e"], ["l", [0, -1]]]),
        _mk("getitem", idx=[["i", 0], ["e"], ["l", [0, 0]]]),          # separated advanced indices
        _mk("getitem", idx=[["l", [0, 0]], ["l", [0, -1]]]),           # two lists
        _mk("getitem", idx=[S_(None, None, None), ["i", 0], ["l", [0]]]),
        _mk("getitem", which=0, idx=[S_(None, 1, None)]),
        _mk("copy"),
        _mk("copy", which=0),
        _mk("set_origin", v=["s", Q(3, 2)]),
        _mk("set_sampling", v=lambda n, sh: ["l", [Q(i + 1, 2) for i in range(n)]]),
        _mk("set_units", v=lambda n, sh: ["l", [UNITS[i % len(UNITS)] for i in range(n)]]),
        _mk("set_array", shape=lambda n, sh: [2] * n, dt="f8"),
        _mk("set_array_from", src=0),
        _mk("pad", spec=["int", 1], ip=True),
        _mk("pad", spec=["int", 1], ip=False),
        _mk("pad", spec=lambda n, sh: ["shape", [s + 1 for s in sh]], ip=True),
        _mk("crop", w=lambda n, sh: [[1, 0]] + [[0, 0]] * (n - 1), axes=None, ip=True),
        _mk("crop", w=lambda n, sh: [[0, -1]] * n, axes=None, ip=False),
        _mk("crop", w=[[0, 1]], axes=0, ip=True),
        _mk("bin", f=2, axes=None, mean=False, ip=True),
        _mk("bin", f=2, axes=None, mean=False, ip=False),
        _mk("bin", f=[2], axes=[0], mean=True, ip=True),
        _mk("fourier", spec=["fac", Q(3, 2)], axes=None, ip=True),
        _mk("fourier", spec=["fac", Q(3, 2)], axes=None, ip=False),
        _mk("fourier", spec=["out", [2]], axes=0, ip=True),
    ]
    if full:
        A += [
            _mk("getitem", idx=[["i", -1], S_(None, None, -2)]),
            _mk("getitem", idx=[["l", [-1, 0]], S_(None, None, None), ["i", 0]]),
            _mk("getitem", idx=[S_(0, 0, None)]),
            _mk("getitem", idx=[["l", []]]),
            _mk("from_ds", cls="Generic"),
            _mk("from_ds", cls="D3"),
            _mk("set_units", v=["s", "nm"]),
            _mk("set_name"),
            _mk("pad", spec=["pair", 0, 2], ip=False),
            _mk("crop", w=[[0, 1]], axes=[-1], ip=False),
            _mk("bin", f=3, axes=[-1], mean=False, ip=True),
            _mk("bin", f=[2, 1], axes=[0, 0], mean=False, ip=False),
            _mk("fourier", spec=["out", [3]], axes=[-1], ip=False),
        ]
    return A


SEEDS = [
    {"k": "from_array", "cls": "D3", "shape": [2, 3, 4], "dt": "f8", "base": 1,
     "origin": ["l", [Q(1), Q(2), Q(3)]], "sampling": ["l", [Q(1, 2), Q(1, 4), Q(2)]], "units": ["l", ["a", "b", "c"]]},
    {"k": "from_array", "cls": "D4stem", "shape": [2, 2, 3, 2], "dt": "i8", "base": 1,
     "origin": ["l", [Q(0), Q(1), Q(-2), Q(1, 2)]], "sampling": ["l", [Q(1), Q(2), Q(1, 2), Q(3)]],
     "units": ["l", ["nm", "nm", "mrad", "A^-1"]]},
    {"k": "from_array", "cls": "Generic", "shape": [3, 1, 2, 2, 2], "dt": "c16", "base": 1,
     "origin": None, "sampling": ["s", Q(1, 2)], "units": None},
    {"k": "from_array", "cls": "D2", "shape": [4, 3], "dt": "f4", "base": 1,
     "origin": ["l", [Q(5), Q(-3, 4)]], "sampling": ["l", [Q(3), Q(5, 4)]], "units": ["l", ["px", "s"]]},
    {"k": "from_array", "cls": "Generic", "shape": [5], "dt": "f8", "base": 1,
     "origin": ["s", Q(1)], "sampling": ["s", Q(2)], "units": ["s", "s"]},
]


# ------------------------------------------------------------------------------------------
# one sequence on the implementation, with the direct oracle


def run_impl(makers, counter0=0):
    """makers: callables (impl, counter) -> op.  Returns the record of the run."""
    impl = M.Impl()
    ops, steps, bad = [], [], []
    for si, mk in enumerate(makers):
        op = mk(impl, counter0 + si)
        if op is None:
            break
        ops.append(op)
        live_before = list(impl.live)
        snaps = [M.snapshot(d) for d in live_before]
        t = op.get("t")
        src_obs = None
        if op["k"] == "getitem":
            src_obs = M.observe(live_before[t])
            src_obs["data"] = src_obs["data"].copy()
        flagged = op["k"] in ("pad", "crop", "bin", "fourier")
        if flagged:
            v = M.oracle_inplace_eq_copy(live_before[t], op)
            if v:
                bad.append((si, v[0], v[1]))
        err, new = impl.apply(op)
        in_place_target = t if (err is None and new is None and t is not None) else None
        # clause 3: the source (and every other live dataset) is bit-identical afterwards
        for i, (d, sn) in enumerate(zip(live_before, snaps)):
            if i == in_place_target:
                continue
            if M.snapshot(d) != sn:
                key = "source-modified" if i == t else "other-dataset-modified"
                bad.append((si, key, "%s changed dataset %d (%s)" % (M.op_str(op), i,
                                                                      "its source" if i == t else "not its target")))
        # clause 1
        for i, d in enumerate(impl.live):
            v = M.coherent(d)
            if v:
                bad.append((si, v[0], "after %s dataset %d: %s" % (M.op_str(op), i, v[1])))
        # clause 2
        if op["k"] == "getitem":
            v = M.oracle_getitem(src_obs, op["idx"], err, impl.live[new] if new is not None else None)
            if v:
                bad.append((si, v[0], v[1]))
        if op["k"] == "copy" and err is None:
            s_, c_ = live_before[t], impl.live[new]
            if not M.same_dataset(s_, c_):
                bad.append((si, "copy-differs", "copy() of dataset %d differs from it" % t))
            if np.shares_memory(s_.array, c_.array) or s_.units is c_.units or np.shares_memory(
                    np.asarray(s_.origin), np.asarray(c_.origin)) or np.shares_memory(
                    np.asarray(s_.sampling), np.asarray(c_.sampling)):
                bad.append((si, "copy-aliases-source", "copy() of dataset %d shares memory with it" % t))
        steps.append({
            "err": err, "new": new, "t": t,
            "t_obs": M.observe(impl.live[t]) if (t is not None and err is None) else None,
            "new_obs": M.observe(impl.live[new]) if new is not None else None,
            "alias": M.alias_of(impl.live), "tainted": impl.tainted,
        })
    final = [M.observe(d) for d in impl.live]
    return {"ops": ops, "steps": steps, "final": final, "fr": impl.fr_table, "bad": bad, "tainted": impl.tainted}


# ------------------------------------------------------------------------------------------
# comparison with the model's trace


def q_close(a: Fraction, b: Fraction, scale: Fraction):
    return a == b or abs(a - b) <= Fraction(1, 10 ** 9) * max(1, scale)


def cmp_obs(io, mo, tol):
    """impl observation vs model tuple -> None or a description of the difference"""
    cls, shape, flat, origin, sampling, units = mo
    origin = [Fraction(a, b) for a, b in origin]
    sampling = [Fraction(a, b) for a, b in sampling]
    if M.CLS_CODE.get(io["cls"]) != cls:
        return "class %s vs model code %s" % (io["cls"], cls)
    if io["shape"] != list(shape):
        return "shape %s vs model %s" % (io["shape"], list(shape))
    codes = M.encode(io["data"])
    if len(codes) != len(flat):
        return "data length %d vs model %d" % (len(codes), len(flat))
    for i, (c, m) in enumerate(zip(codes, flat)):
        if c != m:
            (cr, ci), (mr, mi) = M.decode(c), M.decode(m)
            if abs(cr - mr) > tol or abs(ci - mi) > tol:
                return "data[%d] = %s vs model %s (fixed-point codes, scale 2^20)" % (i, (cr, ci), (mr, mi))
    mq = [Fraction(x) for x in list(origin) + list(sampling)]
    scale = max([abs(x) for x in mq] + [Fraction(1)])
    if len(io["origin"]) != len(origin) or any(not q_close(a, Fraction(b), scale) for a, b in zip(io["origin"], origin)):
        return "origin %s vs model %s" % ([str(x) for x in io["origin"]], [str(x) for x in origin])
    if len(io["sampling"]) != len(sampling) or any(
            not q_close(a, Fraction(b), scale) for a, b in zip(io["sampling"], sampling)):
        return "sampling %s vs model %s" % ([str(x) for x in io["sampling"]], [str(x) for x in sampling])
    if io["units"] != list(units):
        return "units %s vs model %s" % (io["units"], list(units))
    return None


def compare(rec, mv):
    """rec: run_impl record; mv: parsed `run_show` value.  Returns None or (step, what)."""
    trace, final = mv
    if len(trace) != len(rec["steps"]):
        return -1, "trace length %d vs %d" % (len(trace), len(rec["steps"]))
    for si, (st, mt) in enumerate(zip(rec["steps"], trace)):
        code, tobs, nobs, alias = mt
        tol = M.TOL if st["tainted"] else 0
        want = 0 if st["err"] is None else M.ERR_CODE[st["err"]]
        if code != want:
            return si, "%s: implementation %s, model %s" % (
                M.op_str(rec["ops"][si]), st["err"] or "succeeds",
                {0: "succeeds", 1: "TypeErr", 2: "ValueErr", 3: "IndexErr", 4: "OtherErr"}[code])
        if st["err"] is None:
            if st["t"] is not None:
                d = cmp_obs(st["t_obs"], tobs[0], tol) if tobs else "model has no target"
                if d:
                    return si, "%s: target dataset %d: %s" % (M.op_str(rec["ops"][si]), st["t"], d)
            if (st["new"] is not None) != bool(nobs):
                return si, "%s: new dataset on one side only" % M.op_str(rec["ops"][si])
            if nobs:
                d = cmp_obs(st["new_obs"], nobs[0], tol)
                if d:
                    return si, "%s: returned dataset: %s" % (M.op_str(rec["ops"][si]), d)
        ma, mr, mc, mu = alias
        ia = st["alias"]
        if ia["cal_shares_memory"]:
            return si, "%s: two calibration arrays share memory" % M.op_str(rec["ops"][si])
        for nm, iv, mvv in (("array identity", ia["arr"], ma), ("array buffer (root)", ia["root"], mr),
                            ("origin/sampling arrays", ia["cal"], mc), ("units lists", ia["units"], mu)):
            if M.canon(iv) != M.canon(list(mvv)):
                return si, "%s: aliasing of %s: implementation %s, model %s" % (
                    M.op_str(rec["ops"][si]), nm, M.canon(iv), M.canon(list(mvv)))
    if len(final) != len(rec["final"]):
        return len(trace), "number of datasets %d vs model %d" % (len(rec["final"]), len(final))
    tol = M.TOL if rec["tainted"] else 0
    for i, (io, mo) in enumerate(zip(rec["final"], final)):
        d = cmp_obs(io, mo, tol)
        if d:
            return len(trace), "final state, dataset %d: %s" % (i, d)
    return None


# ------------------------------------------------------------------------------------------


def fixed(ops):
    return [(lambda impl, c, op=op: op) for op in ops]


def minimal_getitem_case(rec, si):
    """[from_array(same shape and calibration as the source), getitem] if it still fails"""
    op = rec["ops"][si]
    seq = fixed(rec["ops"][:si])
    r0 = run_impl(seq)
    src = r0["final"][op["t"]]
    if len(src["origin"]) != len(src["shape"]) or len(src["units"]) != len(src["shape"]):
        return None
    ops = [{"k": "from_array", "cls": src["cls"], "shape": src["shape"], "dt": "f8", "base": 0,
            "origin": ["l", src["origin"]], "sampling": ["l", src["sampling"]], "units": ["l", src["units"]]},
           {"k": "getitem", "t": 0, "idx": op["idx"]}]
    try:
        r = run_impl(fixed(ops))
    except Exception:  # noqa: BLE001
        return None
    return ops if r["bad"] else None


def shrink(rec, si, key):
    """neutralise earlier operations that are not needed for the failure (handles stay valid)"""
    ops = list(rec["ops"][:si + 1])
    for j in range(len(ops) - 1):
        if ops[j]["k"] in ("from_array", "from_ds", "copy", "getitem", "set_name"):
            continue
        if not ops[j].get("ip", True):
            continue
        trial = ops[:j] + [{"k": "set_name", "t": ops[j]["t"]}] + ops[j + 1:]
        try:
            r = run_impl(fixed(trial))
        except Exception:  # noqa: BLE001
            continue
        if any(k == key and s == si for s, k, _ in r["bad"]):
            ops = trial
    return ops


def report_oracle(ctx: Ctx, rec, origin):
    for si, key, what in rec["bad"]:
        ops = None
        if rec["ops"][si]["k"] == "getitem":
            ops = minimal_getitem_case(rec, si)
        if ops is None:
            ops = shrink(rec, si, key)
        ctx.violation(key, what, {"kind": "sequence", "ops": M.jsonable(ops), "origin": origin})


def check_batch(ctx: Ctx, name, recs, origin):
    """fast path: one exact fingerprint per sequence computed on both sides; sequences whose
    fingerprints differ (float rounding after mean / Fourier resampling, or a real difference)
    are re-evaluated with everything printed and compared value by value with the tolerances"""
    exprs = [M.seq_expr(r["ops"], r["fr"], "run_hash") for r in recs]
    vals = ctx.coq_eval(name, M.PRE, exprs, shard=max(8, min(100, len(exprs) // 16 + 1)))
    slow = [rec for rec, h in zip(recs, vals) if M.record_hash(rec) != h]
    ctx.cov["traces_validated_against_impl"] += len(recs)
    ctx.dist("compare/exact-fingerprint", len(recs) - len(slow))
    ctx.dist("compare/value-by-value", len(slow))
    nd = 0
    if slow:
        full = ctx.coq_eval(name + "_full", M.PRE, [M.seq_expr(r["ops"], r["fr"]) for r in slow],
                            shard=max(2, min(40, len(slow) // 16 + 1)))
        for rec, mv in zip(slow, full):
            d = compare(rec, mv)
            if d:
                nd += 1
                ctx.cov["disagreements_checked"] += 1
                si, what = d
                ops = rec["ops"][:si + 1] if si >= 0 else rec["ops"]
                ctx.violation(
                    "sequence-correspondence",
                    "model and implementation disagree (the C03 theorems no longer speak about this code): " + what,
                    {"kind": "sequence", "ops": M.jsonable(ops), "origin": origin},
                    found_input=bool(rec["bad"]))
    return nd


def account(ctx: Ctx, rec, kind):
    for op, st in zip(rec["ops"], rec["steps"]):
        ctx.dist("op/%s%s" % (op["k"], "/in_place" if op.get("ip") else ""))
        ctx.dist("outcome/%s" % (st["err"] or "ok"))
        if op["k"] == "getitem":
            kinds = "".join(sorted(set(it[0] for it in op["idx"])))
            ctx.dist("index/%s%s" % (kinds or "empty", "/separated" if M.separated_advanced(op["idx"]) else ""))
        if st["err"] is None and st["t_obs"] is not None:
            ctx.dist("ndim/%d" % len(st["t_obs"]["shape"]))
    n_ok = sum(1 for st in rec["steps"] if st["err"] is None)
    key = json.dumps(M.jsonable(rec["ops"]), sort_keys=True, default=str)
    ctx.count((kind, key), nontrivial=n_ok >= 2 and len(rec["final"]) >= 2)
    ctx.dist("sequences/%s" % kind)
    ctx.dist("sequence_length/%d" % len(rec["ops"]))


def corpus():
    p = VERIF / "corpus" / "C03" / "corpus.json"
    return M.unjson(json.loads(p.read_text())) if p.exists() else []


def run(ctx: Ctx):
    ctx.hash_sources("core/datastructures/dataset.py",
                     ["Dataset.__init__", "Dataset.from_array", "Dataset.copy", "Dataset.pad", "Dataset.crop",
                      "Dataset.bin", "Dataset.fourier_resample", "Dataset.__getitem__", "Dataset.register_dimension"])
    for f, c in (("dataset2d.py", "Dataset2d"), ("dataset3d.py", "Dataset3d"), ("dataset4d.py", "Dataset4d"),
                 ("dataset4dstem.py", "Dataset4dstem")):
        ctx.hash_sources("core/datastructures/" + f, [c + ".from_array", c + ".__init__"])
    ctx.hash_sources("core/utils/validators.py", ["ensure_valid_array", "validate_ndinfo", "validate_units"])
    ctx.cov["rule"] = (
        "a case is a sequence of Dataset operations (construction, copy, setters, pad/crop/bin/fourier_resample "
        "in place or copying, indexing) executed on real objects and on the model: corpus sequences, all "
        "sequences of length 2 (quick) / 3 (thorough: 30 operations on the 3-D seed = 27 000) over an "
        "instantiated alphabet, every alphabet operation on 1-5-D seeds of every class, and seeded random sequences of length <= 12 generated against the live state (about 8% malformed "
        "arguments); distinct by its operations, non-trivial when at least two operations succeed and at least "
        "two datasets are alive at the end")
    ctx.assumptions += [
        "NumPy's own indexing, np.pad, np.sum and ndarray.base behave as modelled (np_index/pad_data/bin_axis; "
        "exercised by every correspondence run: data are distinct tokens, so any layout difference is seen)",
        "the Fourier kernel and the float division of the 'mean' reducer are outside the model: their outputs "
        "are handed to the model as a table (section parameters FR/divf of the theorems); values compared "
        "within 0.004 after such a transform, exactly otherwise",
    ]
    ctx.cov["trusted_base"] += [
        "Coq 8.16.1 kernel incl. vm_compute (used to run the model); no native_compute",
        "hand-written model coq/model/C03_Model.v + coq/lib/C03_Slice.v tied to /repo by this correspondence run",
        "harness/props/C03.py, harness/impl_C03.py (generators, oracle, canonicalisation, Python->Coq printers), "
        "harness/common.py",
    ]
    ctx.proofs_or_violation()
    r = ctx.rng

    # 1. corpus (always first)
    recs = []
    for ops in corpus():
        rec = run_impl(fixed(ops))
        account(ctx, rec, "corpus")
        report_oracle(ctx, rec, "corpus")
        recs.append(rec)
    if recs:
        nd = check_batch(ctx, "corpus", recs, "corpus")
        ctx.log("corpus: %d sequences, %d disagreements" % (len(recs), nd))

    # 2. bounded-exhaustive: every sequence of `depth` alphabet operations after a seed
    #    quick:    depth 2 over the 30-operation alphabet on the 3-D seed, every 5th one on the 4-D seed
    #    thorough: depth 3 over the 30-operation alphabet on the 3-D seed (27 000 sequences) and
    #              depth 2 over the full 43-operation alphabet on three seeds
    if ctx.quick:
        plans = [(2, alphabet(False), SEEDS[0], 1), (2, alphabet(False), SEEDS[1], 5)]
    else:
        plans = [(3, alphabet(False), SEEDS[0], 1)] + [(2, alphabet(True), sd, 1) for sd in SEEDS[:3]]
    n_exh = nd = 0
    for depth, alpha, sd, stride in plans:
        recs = []
        for ci, combo in enumerate(itertools.product(alpha, repeat=depth)):
            if ci % stride:
                continue
            rec = run_impl(fixed([sd]) + list(combo))
            account(ctx, rec, "exhaustive")
            report_oracle(ctx, rec, "exhaustive depth %d" % depth)
            recs.append(rec)
            if len(recs) >= 3000:
                nd += check_batch(ctx, "exh", recs, "exhaustive")
                n_exh += len(recs)
                recs = []
        if recs:
            nd += check_batch(ctx, "exh", recs, "exhaustive")
            n_exh += len(recs)
            ctx.sample({"kind": "exhaustive depth %d" % depth, "ops": [M.op_str(o) for o in recs[len(recs) // 3]["ops"]]})
        ctx.dist("exhaustive/depth%d_alphabet%d" % (depth, len(alpha)), 1)
    # every alphabet entry once on every seed (all dimensionalities 1..5, every class)
    recs = []
    for sd in SEEDS:
        for a in alphabet(full=True):
            rec = run_impl(fixed([sd]) + [a])
            account(ctx, rec, "exhaustive")
            report_oracle(ctx, rec, "alphabet")
            recs.append(rec)
    nd += check_batch(ctx, "alpha", recs, "exhaustive")
    n_exh += len(recs)
    ctx.log("bounded-exhaustive (%s): %d sequences, %d disagreements" % (
        ", ".join("depth %d x %d ops%s" % (d, len(a), "" if st == 1 else " (every %d.)" % st) for d, a, _, st in plans),
        n_exh, nd))

    # 3. random histories
    nseq = ctx.budget(120, 5000)
    recs = []
    for i in range(nseq):
        depth_r = r.choice([12, 12, 12, 8, 5])
        sr = __import__("random").Random(r.randrange(1 << 60))
        makers = [(lambda impl, c, sr=sr, dl=depth_r: gen_op(sr, impl, c, dl)) for _ in range(depth_r)]
        rec = run_impl(makers, counter0=1)
        account(ctx, rec, "random")
        report_oracle(ctx, rec, "random")
        recs.append(rec)
    nd = check_batch(ctx, "rand", recs, "random")
    ctx.log("random: %d sequences, %d disagreements" % (len(recs), nd))
    for rec in recs[:3]:
        ctx.sample({"kind": "random", "ops": [M.op_str(o) for o in rec["ops"]],
                    "outcomes": [st["err"] or "ok" for st in rec["steps"]]})


def replay(ctx: Ctx, path):
    rp = M.unjson(json.loads(open(path).read()))
    if rp.get("kind") != "sequence":
        print("nothing to replay in %s (%s)" % (path, rp.get("what", "")))
        return 0
    ops = rp["ops"]
    rec = run_impl(fixed(ops))
    for op, st in zip(rec["ops"], rec["steps"]):
        print("  %-60s -> %s" % (M.op_str(op), st["err"] or "ok"))
        if st["new_obs"]:
            o = st["new_obs"]
            print("      returned %s shape %s origin %s sampling %s units %s" % (
                o["cls"], o["shape"], [str(x) for x in o["origin"]], [str(x) for x in o["sampling"]], o["units"]))
    for si, key, what in rec["bad"]:
        print("oracle: step %d [%s] %s" % (si, key, what))
    mv = ctx.coq_eval("replay", M.PRE, [M.seq_expr(rec["ops"], rec["fr"])])[0]
    d = compare(rec, mv)
    print("model vs implementation:", "agree" if d is None else "DISAGREE at step %d: %s" % d)
    if not rec["bad"]:
        print("oracle: property holds on this case")
    return 1 if (rec["bad"] or d) else 0
