"""C07 — Torch Radon / filtered back-projection agree with the scikit-image reference.
Theorems: coq/props/C07_Properties.v (models: coq/model/C07_Model.v).

ORACLE (the property text evaluated on the implementation): differential against the real
scikit-image 0.26 functions
    radon_torch               vs  skimage.transform.radon(circle=True)        (disc-masked image)
    get_fourier_filter_torch  vs  skimage.transform.radon_transform._get_fourier_filter
    iradon_torch              vs  skimage.transform.iradon(circle=..., filter_name=...)
for sizes 2..65 (odd and even), angle sets (special / uniform / random / unsorted / default),
all six filters, even filter sizes 2..1024, smooth / noisy / binary / impulse images and
sinograms, plus batched == per-image, linearity, and theta=0 == column sums of the masked image.

Round 3: + float64 images / sinograms, float64 / int64 / repeated angle tensors, output_size larger than
the detector, every detector width 1..160[..400] with a windowed filter (padded FFT size), the caller
Tomography.sirt_recon (tomography_conv.py) vs the same composition with scikit-image; recorded-only
observations outside the quantified domain (n = 1, non-square, angles outside [0,180], list angles).

CORRESPONDENCE (ties the Coq models to both code bases, output level only — no internals of the
port are observed, so a refactor that keeps the results keeps the tie):
    radon    the WHOLE model evaluated and compared INSIDE Coq (booleans + largest deviation printed):
             `port_sinogram repaired bilinear` with (c, s) = the float32 cos/sin torch computes vs
             radon_torch;  `sk_sinogram bilinear` with numpy's float64 cos/sin vs skimage.radon
             (images on the grid 1/4096, n = 2..16, 21, 22, 32, 33 [45, 48, 64])
    source   harness/translate_C07.py reads filter size / paddings / default output size of
             iradon_torch from the current source; coq/gen_proofs/C07_GenProperties.v proves them
             equal to the model for every N >= 1 (fail closed)
             harness/translate_C07_full.py reads the rest (filter construction per name, radon sampling grid /
             mask / crop / summed axis, back-projection term / circle mask / scale / FFT pipeline sizes / default
             theta); coq/gen_proofs/C07_GenFull_Properties.v proves them equal to the model and to the scikit-image
             transcription for all arguments; the generated functions are executed against the running code
Round 4: call HISTORIES are part of the oracle (gen_history / oracle_history / oracle_reuse).
    filter   the model's index vector / ramp kernel / window arguments and coefficients per
             filter name and index  ->  2 Re fft(kernel) * window, vs both implementations
    iradon   integer geometry (diagonal, pad_before, padded FFT size, default output size) vs
             scikit-image's own helpers; exact Q reconstruction `port_iradon_image` /
             `sk_iradon_image` (filtering = circular convolution with the inverse DFT of the
             implementation's own filter of the MODEL's padded size) vs iradon_torch / iradon
"""
from __future__ import annotations

import json
import math
import re
import warnings
from fractions import Fraction

import numpy as np

from ..common import Ctx, cbool, cq, cz

LEVEL = "proof"

FILTERS = ["ramp", "shepp-logan", "cosine", "hamming", "hann", None]
FIDX = {f: i for i, f in enumerate(FILTERS)}

# --- tolerances (float32 port against the float64 reference), all relative to a case scale ----
# measured on the repaired tree over three thorough streams (7000 cases): radon <= 1.5e-6 * n * max|img|,
# filter <= 3.1e-7, iradon <= 9.3e-6 * max|sinogram|, theta0 <= 4.3e-7, linearity <= 1.1e-7 / 4.4e-7,
# batched vs single: 0 exactly; the bounds below leave a factor >= 13 and are far below the effect of any
# geometry / window / scaling discrepancy (a 0.3% change of the hamming coefficients gives 5e-4 in iradon).
RADON_RTOL = 2e-5        # * n * max|masked image|       (a column sums n bilinear samples)
FILTER_ATOL = 5e-6       # filter values are in [0, 1]
IRADON_RTOL = 2e-4       # * max|sinogram|
SAME_RTOL = 2e-6         # batched vs per-image (same float32 arithmetic, possibly re-associated)
LIN_RTOL = 1e-5          # linearity, float32 on both sides
SPEC_RTOL = 1e-9         # exact model of scikit-image vs scikit-image (float64)
EDGE_EPS = 1e-3          # |t - detector end| below which np.interp(left=0,right=0) is discontinuous

PRE = r"""From QV.lib Require Import Prelude.
From QV.model Require Import C07_Model.
From Coq Require Import QArith Qround Qabs.
Local Open Scope Q_scope.
(* harness glue: integer tables with a common denominator -> the model's function types *)
Definition ztab (den : positive) (l : list Z) : Z -> Q :=
  fun j => if (j <? 0)%Z then 0 else (nth (Z.to_nat j) l 0%Z) # den.
Definition ztab2 (den : positive) (rows : list (list Z)) : Z -> Z -> Q :=
  fun i j => if (i <? 0)%Z then 0 else ztab den (nth (Z.to_nat i) rows []) j.
Definition rad_port (n : Z) (den : positive) (rows : list (list Z)) (angs : list (Q * Q)) :=
  map (map qz) (port_sinogram repaired bilinear (ztab2 den rows) n angs).
Definition rad_sk (n : Z) (den : positive) (rows : list (list Z)) (angs : list (Q * Q)) :=
  map (map qz) (sk_sinogram bilinear (disc_mask n (ztab2 den rows)) n angs).
Definition pts_port (n : Z) (c s : Q) :=
  map (fun r => map (fun k => qzp (port_point repaired c s n r k)) (zrange n)) (zrange n).
Definition pts_sk (n : Z) (c s : Q) :=
  map (fun r => map (fun k => qzp (sk_point c s n r k)) (zrange n)) (zrange n).
Definition dmask (n : Z) := map (fun r => map (fun k => in_disc n r k) (zrange n)) (zrange n).
Definition hk (den : positive) (l : list Z) : Z -> Z -> Q := fun _ d => ztab den l d.
Definition ir_port (h : Z -> Z -> Q) (pi : Q) (A N : Z) (circle : bool) (angs : list (Q * Q))
  (den : positive) (rows : list (list Z)) :=
  map (map qz) (port_iradon_image h pi repaired A N circle (ang_of_list angs) (ztab2 den rows)).
Definition ir_sk (h : Z -> Z -> Q) (pi : Q) (A N : Z) (circle : bool) (angs : list (Q * Q))
  (den : positive) (rows : list (list Z)) :=
  map (map qz) (sk_iradon_image h pi A N circle (ang_of_list angs) (ztab2 den rows)).
Definition geom (N : Z) := [diagonal N; sk_pad_before N true; padded_size (sk_det_size N true);
  padded_size (sk_det_size N false); output_size N false; port_det_size repaired N true;
  port_pad_before repaired N true; padded_size (port_det_size repaired N true)].
Definition dtheta (A : Z) := (map (fun i => qz (port_default_theta repaired A i)) (zrange A),
                              map (fun i => qz (sk_default_theta A i)) (zrange A)).
(* filter probes: the filter value is  ramp[k] * (w0 + ws sin(pi a) + wc cos(pi a) + wn sinc(a))
   or a constant; the coefficients are read off by instantiating the abstract functions with
   constants 0 / 1 *)
Definition K0 : Q -> Q := fun _ => 0.
Definition K1 : Q -> Q := fun _ => 1.
Definition noarg : Z := (- (2 ^ 62))%Z.
Definition optq (o : option Q) : Z := match o with Some q => qz q | None => noarg end.
Definition zleq (a b : list Z) : bool := if list_eq_dec Z.eq_dec a b then true else false.
(* F(T, r) for T in {0, sin=1, cos=1, sinc=1} x r in {0, 1}: the filter is affine in each *)
Definition coefs (F : (Q -> Q) -> (Q -> Q) -> (Q -> Q) -> Q -> Q) : list Z :=
  [qz (F K0 K0 K0 0); qz (F K1 K0 K0 0); qz (F K0 K1 K0 0); qz (F K0 K0 K1 0);
   qz (F K0 K0 K0 1); qz (F K1 K0 K0 1); qz (F K0 K1 K0 1); qz (F K0 K0 K1 1)].
Definition wcoefs (W : (Q -> Q) -> (Q -> Q) -> (Q -> Q) -> Q) : list Z :=
  [qz (W K0 K0 K0); qz (W K1 K0 K0); qz (W K0 K1 K0); qz (W K0 K0 K1)].
(* the whole filter (with the ramp factor r) at the indices 0, 1, size-1; the window at every index *)
Definition probe (F : Z -> (Q -> Q) -> (Q -> Q) -> (Q -> Q) -> Q -> Q)
  (W : Z -> (Q -> Q) -> (Q -> Q) -> (Q -> Q) -> Q) (arg : Z -> option Q) (size : Z) :=
  let w1 := wcoefs (W 1%Z) in
  ([coefs (F 0%Z); coefs (F 1%Z); coefs (F (size - 1)%Z)], wcoefs (W 0%Z), w1,
   forallb (fun k => zleq (wcoefs (W k)) w1) (tl (zrange size)),
   map (fun k => optq (arg k)) (zrange size)).
Definition probe_port (nm : fname) (size : Z) :=
  probe (fun k s c n r => port_filter s c n (fun _ _ => r) repaired nm size k)
        (fun k s c n => port_window s c n repaired nm size k) (port_window_arg repaired nm size) size.
Definition probe_sk (nm : fname) (size : Z) :=
  probe (fun k s c n r => sk_filter s c n (fun _ _ => r) nm size k)
        (fun k s c n => sk_window s c n nm size k) (sk_window_arg nm size) size.
Definition kern (l : list (Q * Q)) := map (fun ab => (qz (fst ab), qz (snd ab))) l.
(* whole-model comparison INSIDE Coq: the model sinograms (exact Q; the sampler is `bilinear` on Qred-normalised
   coordinates, Qred q == q) against the implementation's values; only booleans and the largest deviation
   (2^-60 fixed point, rounded up) are printed *)
Definition bilred : sampler := fun n img x y => bilinear n img (Qred x) (Qred y).
Definition qmaxl (l : list Q) : Q := fold_right (fun v a => if Qle_bool a v then v else a) 0 l.
Definition maxerr (a b : list (list Q)) : Q :=
  qmaxl (map (fun rr => qmaxl (map (fun p => Qred (Qabs (fst p - snd p))) (combine (fst rr) (snd rr)))) (combine a b)).
Definition shape_ok (a b : list (list Q)) : bool :=
  (length a =? length b)%nat && forallb (fun rr => (length (fst rr) =? length (snd rr))%nat) (combine a b).
Definition q60 (q : Q) : Z := Qceiling (q * iz (2 ^ 60)).
Definition radcmp (n : Z) (den : positive) (rows : list (list Z)) (pangs sangs : list (Q * Q))
  (pimpl simpl : list (list Q)) (mask : list (list bool)) :=
  let img := ztab2 den rows in
  let mp := port_sinogram repaired bilred img n pangs in
  let ms := sk_sinogram bilred (disc_mask n img) n sangs in
  (shape_ok mp pimpl && shape_ok ms simpl, q60 (maxerr mp pimpl), q60 (maxerr ms simpl),
   if list_eq_dec (list_eq_dec Bool.bool_dec) (dmask n) mask then true else false).
"""

Q40 = float(1 << 40)
NOARG = -(1 << 62)


def _mods():
    import torch
    from skimage.transform import iradon, radon
    from skimage.transform import radon_transform as skrt
    from quantem.tomography.radon import radon as port
    return torch, radon, iradon, skrt, port


# ------------------------------------------------------------------------------------------
# inputs


def disc(n):
    y, x = np.mgrid[:n, :n]
    return ((x - n // 2) ** 2 + (y - n // 2) ** 2) <= (n // 2) ** 2


def make_image(kind, n, seed):
    """n x n float32 test image (not masked; the port masks, the reference gets the masked one)"""
    g = np.random.default_rng(seed)
    y, x = np.mgrid[:n, :n].astype(np.float64)
    if kind == "smooth":
        img = np.zeros((n, n))
        for _ in range(3):
            cy, cx = g.uniform(0, n, 2)
            img += g.uniform(0.3, 1.0) * np.exp(-((x - cx) ** 2 + (y - cy) ** 2) / (2 * g.uniform(0.08, 0.3) ** 2 * n * n))
        img += 0.1 * x / n
    elif kind == "noise":
        img = g.uniform(-1, 1, (n, n)) * float(g.choice([1.0, 1.0, 100.0, 1e-3]))
    elif kind == "binary":
        b = max(1, n // int(g.integers(2, 6)))
        img = g.integers(0, 2, ((n + b - 1) // b, (n + b - 1) // b)).repeat(b, 0).repeat(b, 1)[:n, :n].astype(float)
    elif kind == "delta":
        img = np.zeros((n, n))
        c = n // 2
        pts = [(0, c), (c, 0), (n - 1, c), (c, n - 1), (c, c), (1, c), (c, 1)]
        for (r, k) in pts[: int(g.integers(1, len(pts) + 1))]:
            img[r % n, k % n] = g.uniform(0.5, 2.0)
        for _ in range(int(g.integers(0, 4))):
            img[int(g.integers(0, n)), int(g.integers(0, n))] = g.uniform(-1, 1)
    elif kind == "dyadic":
        img = g.integers(0, 17, (n, n)) / 16.0
    else:
        raise ValueError(kind)
    return img.astype(np.float32)


def make_theta(kind, A, seed):
    """angles in degrees in [0, 180], float32-representable; None = the default of both libraries"""
    g = np.random.default_rng(seed)
    if kind == "default":
        return None
    if kind == "special":
        pool = np.array([0.0, 45.0, 90.0, 135.0, 180.0, 30.0, 60.0, 120.0, 150.0])
        th = pool[g.permutation(len(pool))[: max(1, min(A, len(pool)))]]
    elif kind == "uniform":
        th = np.linspace(0.0, 180.0, A, endpoint=False)
    elif kind == "ends":
        th = np.array([0.0, 180.0])
    elif kind == "random":
        th = np.sort(g.uniform(0.0, 180.0, A))
    elif kind == "unsorted":
        th = g.uniform(0.0, 180.0, A)
    elif kind == "repeated":            # repeated angles, not sorted
        base = g.uniform(0.0, 180.0, max(1, (A + 1) // 2))
        th = base[g.integers(0, len(base), A)]
    elif kind == "random64":            # float64 tensor, NOT float32-representable
        return np.sort(g.uniform(0.0, 180.0, A))
    elif kind == "integers":            # int64 tensor
        return g.integers(0, 181, A).astype(np.float64)
    elif kind == "outside":             # outside the property's domain [0, 180]: recorded only
        th = g.uniform(-180.0, 540.0, A)
    else:
        raise ValueError(kind)
    return np.asarray(th, dtype=np.float32).astype(np.float64)


# the tensor dtype in which an angle kind is handed to the port (default float32)
THETA_DTYPE = {"random64": "float64", "integers": "int64"}


def theta_dtype(case):
    return THETA_DTYPE.get(case.get("theta_kind"), "float32")


F64_FACTOR = 1.0000001234      # makes a float32 array a genuinely float64 one


def make_sino(kind, N, theta, seed):
    """[A, N] float32 sinogram"""
    g = np.random.default_rng(seed)
    A = 7 if theta is None else len(theta)
    if kind == "radon":
        _, radon, _, _, _ = _mods()
        img = make_image("smooth", N, seed).astype(np.float64) * disc(N)
        th = np.linspace(0.0, 180.0, A, endpoint=False) if theta is None else theta
        with warnings.catch_warnings():
            warnings.simplefilter("ignore")
            s = radon(img, theta=th, circle=True).T
    elif kind == "noise":
        s = g.standard_normal((A, N)) * float(g.choice([1.0, 1.0, 50.0, 1e-2]))
    elif kind == "delta":
        s = np.zeros((A, N))
        for i in range(A):
            for j in (0, N - 1, N // 2, int(g.integers(0, N))):
                if g.random() < 0.7:
                    s[i, j] = g.uniform(0.5, 2.0)
        s[0, N - 1] = 1.0
    elif kind == "const":
        s = np.ones((A, N))
    elif kind == "dyadic":
        s = g.integers(-8, 17, (A, N)) / 8.0
    else:
        raise ValueError(kind)
    return np.ascontiguousarray(s, dtype=np.float32)


# ------------------------------------------------------------------------------------------
# running both implementations


def t_theta(theta, dtype="float32"):
    torch = _mods()[0]
    return None if theta is None else torch.tensor(np.asarray(theta), dtype=getattr(torch, dtype))


def run_radon_port(img32, theta, tdtype="float32"):
    """-> [B, A, n] float64 (B = 1 for a 2-D image)"""
    torch, _, _, _, port = _mods()
    out = port.radon_torch(torch.from_numpy(np.ascontiguousarray(img32)), theta=t_theta(theta, tdtype))
    arr = out.detach().cpu().numpy().astype(np.float64)
    B = 1 if img32.ndim == 2 else img32.shape[0]
    A = 180 if theta is None else len(theta)
    return arr.reshape(B, A, img32.shape[-1])


def run_radon_sk(img32, theta):
    """-> [A, n] float64: skimage on the disc-masked image"""
    _, radon, _, _, _ = _mods()
    n = img32.shape[-1]
    with warnings.catch_warnings():
        warnings.simplefilter("ignore")
        return radon(img32.astype(np.float64) * disc(n), theta=theta, circle=True).T


def run_iradon_port(sino32, theta, filt, circle=True, out=None, tdtype="float32"):
    """sino32 [A, N] or [B, A, N] -> [B, out, out] float64"""
    torch, _, _, _, port = _mods()
    r = port.iradon_torch(torch.from_numpy(np.ascontiguousarray(sino32)), theta=t_theta(theta, tdtype), filter_name=filt,
                          circle=circle, output_size=out)
    arr = r.detach().cpu().numpy().astype(np.float64)
    B = 1 if sino32.ndim == 2 else sino32.shape[0]
    return arr.reshape(B, arr.shape[-2], arr.shape[-1])


def run_iradon_sk(sino32, theta, filt, circle=True, out=None):
    _, _, iradon, _, _ = _mods()
    return iradon(sino32.astype(np.float64).T, theta=theta, filter_name=filt, circle=circle, output_size=out)


def run_filter_port(size, name):
    _, _, _, _, port = _mods()
    return port.get_fourier_filter_torch(size, name).detach().cpu().numpy().astype(np.float64).reshape(-1)


def run_filter_sk(size, name):
    skrt = _mods()[3]
    return np.asarray(skrt._get_fourier_filter(size, name), dtype=np.float64).reshape(-1)


def sk_det(N, circle):
    """scikit-image's detector length and pad_before, from its own helper"""
    skrt = _mods()[3]
    if not circle:
        return N, 0
    e = np.zeros((N, 1))
    e[0, 0] = 1.0
    p = skrt._sinogram_circle_to_square(e)
    return p.shape[0], int(np.argmax(p[:, 0]))


def well_conditioned(N, theta, circle, out):
    """pixels of the reconstruction whose detector coordinate stays EDGE_EPS away from both
    detector ends for every angle (np.interp(left=0, right=0) jumps there: a rounding of t decides
    between the last sample and 0).  With circle=True and the default output size every pixel of
    the disc qualifies (theorem C07_backproj_in_range) and the others are masked to 0."""
    S, _ = sk_det(N, circle)
    out = out or (N if circle else int(np.floor(np.sqrt(N ** 2 / 2.0))))
    th = np.linspace(0, 180, 7, endpoint=False) if theta is None else np.asarray(theta)
    radius = out // 2
    xpr, ypr = np.mgrid[:out, :out] - radius
    ok = np.ones((out, out), dtype=bool)
    lo, hi = -(S // 2), S - 1 - S // 2
    for a in np.deg2rad(th):
        t = ypr * np.cos(a) - xpr * np.sin(a)
        ok &= (np.abs(t - lo) > EDGE_EPS) & (np.abs(t - hi) > EDGE_EPS)
    if circle:
        ok |= (xpr ** 2 + ypr ** 2) > radius ** 2
    return ok


# ------------------------------------------------------------------------------------------
# oracle checks (each returns None or (key, what, detail))


def oracle_radon(case):
    n, theta = case["n"], make_theta(case["theta_kind"], case["A"], case["seed"])
    img = make_image(case["img_kind"], n, case["seed"])
    f64 = case.get("dtype") == "float64"
    if f64:
        img = img.astype(np.float64) * F64_FACTOR
    try:
        got = run_radon_port(img, theta, theta_dtype(case))[0]
    except Exception as e:  # noqa
        if f64:
            return ("radon-raises-float64-image", "radon_torch raised %r on a float64 %dx%d image tensor (scikit-image's "
                    "radon accepts it; the same image as float32 works)" % (e, n, n), {})
        return ("radon-raises", "radon_torch raised %r on a %dx%d image" % (e, n, n), {})
    ref = run_radon_sk(img, theta)
    if got.shape != ref.shape:
        return ("radon-shape", "radon_torch returned shape %s, scikit-image %s (transposed)" % (got.shape, ref.shape), {})
    scale = n * max(float(np.abs(img * disc(n)).max()), 1e-30)
    d = np.abs(got - ref)
    err = float(d.max()) if np.isfinite(got).all() else float("inf")
    if not err <= RADON_RTOL * scale:
        i, j = np.unravel_index(int(np.nanargmax(np.where(np.isfinite(d), d, np.inf))), d.shape)
        th = "default" if theta is None else "%.6g deg" % theta[i]
        return ("radon-vs-skimage-%s" % ("even" if n % 2 == 0 else "odd"),
                "radon_torch differs from skimage.transform.radon(circle=True): %dx%d %s image, %s angles %s; "
                "at angle %s detector %d torch %.6g skimage %.6g (error %.3g = %.3g x n x max|image|, tolerance %.0e)"
                % (n, n, case["img_kind"], case["theta_kind"], _short_theta(theta), th, j, got[i, j], ref[i, j],
                   err, err / scale, RADON_RTOL), {"err": err, "rel": err / scale})
    case["_rel"] = err / scale
    return None


def oracle_theta0(case):
    n = case["n"]
    img = make_image(case["img_kind"], n, case["seed"])
    got = run_radon_port(img, np.array([0.0]))[0][0]
    ref = (img.astype(np.float64) * disc(n)).sum(axis=0)
    scale = n * max(float(np.abs(img).max()), 1e-30)
    err = float(np.abs(got - ref).max())
    if not err <= RADON_RTOL * scale:
        j = int(np.argmax(np.abs(got - ref)))
        return ("radon-theta0-colsum",
                "projection at 0 degrees is not the column sum of the disc-masked image: %dx%d %s image, column %d: "
                "radon_torch %.6g, column sum %.6g" % (n, n, case["img_kind"], j, got[j], ref[j]), {"err": err})
    return None


def oracle_radon_batch(case):
    n, B = case["n"], case["B"]
    theta = make_theta(case["theta_kind"], case["A"], case["seed"])
    imgs = np.stack([make_image(k, n, case["seed"] + 17 * b) for b, k in
                     zip(range(B), ["noise", "smooth", "binary", "delta", "dyadic", "noise", "smooth"])])
    got = run_radon_port(imgs, theta)
    scale = n * max(float(np.abs(imgs).max()), 1e-30)
    for b in range(B):
        one = run_radon_port(imgs[b], theta)[0]
        err = float(np.abs(got[b] - one).max())
        if not err <= SAME_RTOL * scale:
            return ("radon-batched-vs-single",
                    "radon_torch on a batch of %d %dx%d images differs from the per-image call for image %d "
                    "(%s angles %s): max difference %.3g" % (B, n, n, b, case["theta_kind"], _short_theta(theta), err),
                    {"err": err})
        # ... and the batch entry is scikit-image's sinogram of THAT image (different images per entry)
        ref = run_radon_sk(imgs[b], theta)
        err = float(np.abs(got[b] - ref).max())
        if not err <= RADON_RTOL * scale:
            return ("radon-batched-vs-skimage",
                    "entry %d of radon_torch on a batch of %d different %dx%d images differs from skimage.transform.radon "
                    "of that image (%s angles %s): max difference %.3g" % (b, B, n, n, case["theta_kind"],
                                                                           _short_theta(theta), err), {"err": err})
    return None


def oracle_radon_linear(case):
    n = case["n"]
    theta = make_theta(case["theta_kind"], case["A"], case["seed"])
    f = make_image("noise", n, case["seed"])
    g = make_image("smooth", n, case["seed"] + 1)
    a, b = np.float32(case["a"]), np.float32(case["b"])
    lhs = run_radon_port(a * f + b * g, theta)[0]
    rhs = float(a) * run_radon_port(f, theta)[0] + float(b) * run_radon_port(g, theta)[0]
    scale = n * (abs(float(a)) * float(np.abs(f).max()) + abs(float(b)) * float(np.abs(g).max()))
    err = float(np.abs(lhs - rhs).max())
    if not err <= LIN_RTOL * scale:
        return ("radon-linearity", "radon_torch(a f + b g) != a radon_torch(f) + b radon_torch(g): %dx%d, a=%g b=%g, "
                "angles %s: max difference %.3g" % (n, n, a, b, _short_theta(theta), err), {"err": err})
    return None


def oracle_filter(case):
    size, name = case["size"], case["filter"]
    try:
        got = run_filter_port(size, name)
    except Exception as e:  # noqa
        return ("filter-raises", "get_fourier_filter_torch(%d, %r) raised %r" % (size, name, e), {})
    ref = run_filter_sk(size, name)
    if got.shape != ref.shape:
        return ("filter-shape", "filter of size %d has %d entries" % (size, got.size), {})
    d = np.abs(got - ref)
    err = float(d.max()) if np.isfinite(got).all() else float("inf")
    if not err <= FILTER_ATOL:
        k = int(np.nanargmax(d))
        return ("filter-vs-skimage-%s" % (name or "none"),
                "get_fourier_filter_torch(%d, %r) differs from skimage _get_fourier_filter at index %d: torch %.8g "
                "skimage %.8g (max error %.3g, tolerance %.0e)" % (size, name, k, got[k], ref[k], err, FILTER_ATOL),
                {"err": err})
    case["_err"] = err
    return None


def oracle_iradon(case):
    N, filt, circle, out = case["N"], case["filter"], case["circle"], case.get("out")
    theta = make_theta(case["theta_kind"], case["A"], case["seed"])
    s = make_sino(case["sino_kind"], N, theta, case["seed"])
    tdt = theta_dtype(case)
    if case.get("dtype") == "float64":
        s = s.astype(np.float64) * F64_FACTOR
    try:
        got = run_iradon_port(s, theta, filt, circle, out, tdt)[0]
    except Exception as e:  # noqa
        return ("iradon-raises", "iradon_torch raised %r (N=%d, filter %r, %s sinogram, %s angles)"
                % (e, N, filt, case.get("dtype", "float32"), tdt), {})
    ref = run_iradon_sk(s, theta, filt, circle, out)
    if got.shape != ref.shape:
        return ("iradon-shape", "iradon_torch returned %s, scikit-image %s (N=%d circle=%s output_size=%s)"
                % (got.shape, ref.shape, N, circle, out), {})
    ok = well_conditioned(N, theta, circle, out)
    scale = max(float(np.abs(s).max()), 1e-30)
    d = np.where(ok, np.abs(got - ref), 0.0)
    err = (float(d.max()) if d.size else 0.0) if np.isfinite(got).all() else float("inf")
    case["_excluded"] = int((~ok).sum())
    if not err <= IRADON_RTOL * scale:
        r, c = np.unravel_index(int(np.nanargmax(d)), d.shape)
        key = "iradon-vs-skimage-%s" % ("circle" if circle else "nocircle")
        if theta is None:
            # the default angle set is at fault only if the same call with scikit-image's default angles
            # passed explicitly agrees
            th = np.linspace(0.0, 180.0, s.shape[0], endpoint=False)
            try:
                d2 = np.where(ok, np.abs(run_iradon_port(s, th, filt, circle, out)[0] - run_iradon_sk(s, th, filt, circle, out)), 0.0)
                if float(d2.max()) <= IRADON_RTOL * scale:
                    key = "iradon-default-theta-vs-skimage"
            except Exception:  # noqa
                pass
        return (key,
                "iradon_torch differs from skimage.transform.iradon(circle=%s, filter_name=%r%s): %d projections of %d "
                "pixels (%s sinogram), angles %s %s; pixel (%d,%d) torch %.6g skimage %.6g (max error %.3g = %.3g x "
                "max|sinogram|, tolerance %.0e)"
                % (circle, filt, "" if out is None else ", output_size=%d" % out, s.shape[0], N, case["sino_kind"],
                   case["theta_kind"], _short_theta(theta), r, c, got[r, c], ref[r, c], err, err / scale, IRADON_RTOL),
                {"err": err, "rel": err / scale})
    case["_rel"] = err / scale
    return None


def oracle_iradon_batch(case):
    N, B, filt, circle = case["N"], case["B"], case["filter"], case["circle"]
    theta = make_theta(case["theta_kind"], case["A"], case["seed"])
    if theta is None:
        theta = make_theta("uniform", case["A"], case["seed"])
    kinds = ["noise", "radon", "delta", "const", "dyadic", "noise", "radon"]
    ss = np.stack([make_sino(kinds[b], N, theta, case["seed"] + 31 * b) for b in range(B)])
    got = run_iradon_port(ss, theta, filt, circle)
    scale = max(float(np.abs(ss).max()), 1e-30)
    for b in range(B):
        one = run_iradon_port(ss[b], theta, filt, circle)[0]
        err = float(np.abs(got[b] - one).max())
        if not err <= SAME_RTOL * 10 * scale:
            return ("iradon-batched-vs-single",
                    "iradon_torch on a batch of %d sinograms (%d x %d, filter %r) differs from the per-sinogram call "
                    "for entry %d: max difference %.3g" % (B, len(theta), N, filt, b, err), {"err": err})
    return None


def oracle_iradon_linear(case):
    N, filt, circle = case["N"], case["filter"], case["circle"]
    theta = make_theta(case["theta_kind"], case["A"], case["seed"])
    if theta is None:
        theta = make_theta("uniform", case["A"], case["seed"])
    f = make_sino("noise", N, theta, case["seed"])
    g = make_sino("radon", N, theta, case["seed"] + 1)
    a, b = np.float32(case["a"]), np.float32(case["b"])
    lhs = run_iradon_port(a * f + b * g, theta, filt, circle)[0]
    rhs = float(a) * run_iradon_port(f, theta, filt, circle)[0] + float(b) * run_iradon_port(g, theta, filt, circle)[0]
    scale = abs(float(a)) * float(np.abs(f).max()) + abs(float(b)) * float(np.abs(g).max())
    err = float(np.abs(lhs - rhs).max())
    if not err <= LIN_RTOL * 5 * scale:
        return ("iradon-linearity", "iradon_torch(a f + b g) != a iradon_torch(f) + b iradon_torch(g): N=%d filter %r "
                "a=%g b=%g: max difference %.3g" % (N, filt, a, b, err), {"err": err})
    return None


# ---- amplitude scale of the data.  Both transforms are linear and scikit-image's functions are too, so every clause of
# the property holds at every amplitude of the images / sinograms, JUDGED IN RELATIVE TERMS (error / max|data|): the
# same data multiplied by c = m x 10^k (k = -12 .. 12, far inside the float32 range: no overflow, nothing subnormal
# above 1e-7 of the maximum) must give (1) c x the result of the unscaled data, (2) scikit-image's result for the scaled
# data, and (3) inside a batch whose entries have DIFFERENT amplitudes (one of them O(1)), the result of the per-image
# call - each entry judged relative to ITS OWN amplitude.
AMP_EXPONENTS = list(range(-12, 13))
AMP_MANTISSAS = [1.0, 2.5, 7.3]
HOMOG_RTOL = 5e-5        # = 5 x LIN_RTOL; measured on the unchanged code: <= 4e-7 at every scale


def amp_class(k):
    return "small-amplitude" if k <= -4 else "large-amplitude" if k >= 4 else "moderate-amplitude"


def amp_bucket(k):
    return "1e-12..1e-7" if k <= -7 else "1e-6..1e-1" if k < 0 else "1e0" if k == 0 else "1e1..1e6" if k <= 6 else "1e7..1e12"


def _scale_parts(case):
    """-> (size, theta, data(kind, seed), port(x) -> [B, ., .], ref(x), mag(x), ok-mask or None, label)"""
    ir = case["transform"] == "iradon"
    size = case["N"] if ir else case["n"]
    f64 = case.get("dtype") == "float64"
    dt = np.float64 if f64 else np.float32
    theta = make_theta(case["theta_kind"], case["A"], case["seed"])

    def data(kind, seed):
        x = (make_sino(kind, size, theta, seed) if ir else make_image(kind, size, seed)).astype(dt)
        return x * F64_FACTOR if f64 else x

    if ir:
        filt, circle = case["filter"], case["circle"]
        port = lambda x: run_iradon_port(x, theta, filt, circle)            # noqa: E731
        ref = lambda x: run_iradon_sk(x, theta, filt, circle)               # noqa: E731
        mag = lambda x: max(float(np.abs(x).max()), 1e-300)                 # noqa: E731
        ok = well_conditioned(size, theta, circle, None)
        label = "iradon_torch(filter_name=%r, circle=%s) on %d projections of %d pixels" % (filt, circle, len(theta), size)
    else:
        port = lambda x: run_radon_port(x, theta)                           # noqa: E731
        ref = lambda x: run_radon_sk(x, theta)                              # noqa: E731
        mag = lambda x: size * max(float(np.abs(x * disc(size)).max()), 1e-300)     # noqa: E731
        ok = None
        label = "radon_torch on a %dx%d image, %d angles" % (size, size, len(theta))
    return size, theta, dt, data, port, ref, mag, ok, label


def scale_data(case):
    """the scaled array of the case and the mixed-amplitude batch (entry case['pos'] is the scaled array itself)"""
    size, theta, dt, data, port, ref, mag, ok, label = _scale_parts(case)
    c = case["m"] * 10.0 ** case["k"]
    x = data(case["data_kind"], case["seed"])
    cx = (x * dt(c)).astype(dt)
    kinds = SINO_KINDS if case["transform"] == "iradon" else IMG_KINDS
    batch = []
    for b, kb in enumerate(case["ks"]):
        if b == case["pos"]:
            batch.append(cx)
        else:
            batch.append((data(kinds[(b + case["seed"]) % 5], case["seed"] + 31 * (b + 1)) * dt(10.0 ** kb)).astype(dt))
    return c, x, cx, np.stack(batch)


def oracle_scale(case):
    size, theta, dt, data, port, ref, mag, ok, label = _scale_parts(case)
    tr, k = case["transform"], case["k"]
    c, x, cx, batch = scale_data(case)
    dtn = np.dtype(dt).name
    where = "%s, %s %s data of amplitude max|data| = %.3g (= %.3g x an O(1) array), angles %s %s" % (
        label, dtn, case["data_kind"], float(np.abs(cx).max()), c, case["theta_kind"], _short_theta(theta))

    def rel(a, b, m, mask=None):
        d = np.abs(a - b)
        if mask is not None:
            d = np.where(mask, d, 0.0)
        if not (np.isfinite(a).all() and a.shape == b.shape):
            return float("inf"), (0, 0)
        return (float(d.max()) / m if d.size else 0.0), np.unravel_index(int(np.argmax(d)), d.shape) if d.size else (0, 0)

    base = port(x)[0]
    got = port(cx)[0]
    m = mag(cx)
    # (1) homogeneity f(c x) = c f(x), relative to c max|x|
    e, at = rel(got, c * base, m)
    case["_hom"] = e
    if not e <= HOMOG_RTOL:
        return ("scale-%s-homogeneity-%s" % (tr, amp_class(k)),
                "%s is not homogeneous: f(c x) != c f(x) for c = %.3g: %s; at %s f(c x) = %.6g, c f(x) = %.6g (max "
                "difference %.3g x c max|x|, tolerance %.0e; max|f(c x)| = %.3g, c max|f(x)| = %.3g)"
                % (tr + "_torch", c, where, tuple(int(i) for i in at), got[at], c * base[at], e, HOMOG_RTOL,
                   float(np.abs(got).max()), c * float(np.abs(base).max())), {"rel": e})
    # (2) scikit-image on the scaled data, relative to max|c x|
    rf = ref(cx)
    tol = IRADON_RTOL if tr == "iradon" else RADON_RTOL
    e, at = rel(got, rf, m, ok)
    case["_rel"] = e
    if not e <= tol:
        return ("scale-%s-vs-skimage-%s" % (tr, amp_class(k)),
                "%s differs from skimage.transform.%s on low / high amplitude data: %s; at %s torch %.6g skimage %.6g "
                "(max error %.3g x max|data|, tolerance %.0e)" % (tr + "_torch", tr, where, tuple(int(i) for i in at),
                                                                  got[at], rf[at] if rf.shape == got.shape else float("nan"),
                                                                  e, tol), {"rel": e})
    # (3) a batch of entries of different amplitudes = the per-image calls, each relative to its own amplitude
    gb = port(batch)
    for b in range(len(batch)):
        one = got if b == case["pos"] else port(batch[b])[0]
        e, at = rel(gb[b], one, mag(batch[b]))
        if not e <= SAME_RTOL * 10:
            return ("scale-%s-batched-vs-single-%s" % (tr, amp_class(case["ks"][b])),
                    "%s on a batch of %d entries of amplitudes %s differs from the per-image call for entry %d (amplitude "
                    "%.3g): %s; at %s batched %.6g, alone %.6g (max difference %.3g x that entry's amplitude, tolerance %.0e)"
                    % (tr + "_torch", len(batch), ["%.3g" % float(np.abs(z).max()) for z in batch], b,
                       float(np.abs(batch[b]).max()), where, tuple(int(i) for i in at), gb[b][at], one[at], e,
                       SAME_RTOL * 10), {"rel": e, "entry": b})
    return None


def gen_scale_case(r, i):
    """one amplitude-scale case: transform x size x data kind x angle set x dtype x exponent k in -12..12 x mantissa;
    the batch holds the scaled array, an O(1) array and arrays of other random amplitudes, in random positions"""
    tr = "iradon" if i % 3 else "radon"
    k = AMP_EXPONENTS[(7 * i + r.randrange(3)) % len(AMP_EXPONENTS)] if i % 5 else r.choice([-12, -10, -9, -8, 8, 10, 12])
    B = r.choice([2, 3, 4])
    ks = [k, 0] + [r.choice(AMP_EXPONENTS) for _ in range(B - 2)]
    pos = r.randrange(B)
    ks[0], ks[pos] = ks[pos], ks[0]
    case = {"kind": "scale", "transform": tr, "k": k, "m": AMP_MANTISSAS[i % 3], "ks": ks, "pos": pos,
            "dtype": "float64" if i % 4 == 3 else "float32",
            "theta_kind": r.choice(THETA_KINDS), "A": r.choice([1, 2, 3, 5, 9]), "seed": r.randrange(1 << 30)}
    size = r.choice(list(range(2, 41)) + [8, 16, 31, 32, 33])
    if tr == "iradon":
        case.update(N=size, filter=FILTERS[(i // 3) % 6], circle=i % 7 != 0, data_kind=SINO_KINDS[(i // 2) % 5])
    else:
        case.update(n=size, data_kind=IMG_KINDS[(i // 2) % 5])
    return case


# the caller of the two transforms (tomography_conv.py: TomographyConv._sirt_run_epoch, reached through the public
# Tomography.from_data(...).sirt_recon(num_iterations=1)): the volume [cols, rows, rows] is forward projected as a
# batch of `cols` images, the error sinograms [cols, A, rows] are back-projected as a batch with `filter_name`, and
# normalised by the back-projection of ones with filter None.  Reference: the same composition with scikit-image.
SIRT_MIN_NORM = 0.25


def run_sirt_port(ts32, theta, vol32, filt):
    import contextlib
    import io
    from quantem.tomography.tomography import Tomography
    with contextlib.redirect_stderr(io.StringIO()), contextlib.redirect_stdout(io.StringIO()):
        tomo = Tomography.from_data(tilt_series=ts32.copy(), tilt_angles=np.asarray(theta), volume_obj=vol32.copy(),
                                    device="cpu")
        tomo.sirt_recon(num_iterations=1, inline_alignment=False, enforce_positivity=False, reset=False,
                        filter_name=filt, circle=True)
    vol = tomo.sirt_recon_vol.obj.detach().cpu().numpy().astype(np.float64)      # permuted (1, 2, 0)
    return np.transpose(vol, (2, 0, 1)), float(tomo.loss[-1])


def run_sirt_sk(ts32, theta, vol32, filt):
    _, radon, iradon, _, _ = _mods()
    A, rows, cols = ts32.shape
    th = np.asarray(theta, dtype=np.float64)
    ref = np.zeros((cols, rows, rows))
    ok = np.zeros((cols, rows, rows), dtype=bool)
    errs = []
    with warnings.catch_warnings():
        warnings.simplefilter("ignore")
        for z in range(cols):
            sino = radon(vol32[z].astype(np.float64) * disc(rows), theta=th, circle=True)       # [rows, A]
            err = ts32[:, :, z].astype(np.float64).T - sino
            corr = iradon(err, theta=th, filter_name=filt, circle=True)
            norm = iradon(np.ones_like(err), theta=th, filter_name=None, circle=True)
            ok[z] = (norm == 0) | (norm >= SIRT_MIN_NORM)       # `normalization[normalization == 0] = 1e-6` is
            norm[norm == 0] = 1e-6                                 # discontinuous at 0: compare away from it
            ref[z] = vol32[z] + corr / norm
            errs.append(np.abs(err))
    return ref, ok, float(np.mean(errs)), float(np.max(errs))


def oracle_sirt(case):
    A, rows, cols, filt = case["A"], case["n"], case["B"], case["filter"]
    g = np.random.default_rng(case["seed"])
    theta = make_theta(case["theta_kind"], A, case["seed"])
    if theta_dtype(case) == "float32":
        theta = theta.astype(np.float32)
    ts = g.uniform(0.0, 2.0, (A, rows, cols)).astype(np.float32)
    vol = np.stack([make_image(["smooth", "noise", "binary"][z % 3], rows, case["seed"] + z) for z in range(cols)])
    vol = np.abs(vol).astype(np.float32)
    try:
        got, loss = run_sirt_port(ts, theta, vol, filt)
    except Exception as e:  # noqa
        return ("sirt-raises", "Tomography.sirt_recon(num_iterations=1, filter_name=%r, circle=True) raised %r on a tilt "
                "series %s with a %s volume" % (filt, e, ts.shape, vol.shape), {})
    ref, ok, loss_ref, emax = run_sirt_sk(ts, theta, vol, filt)
    if got.shape != ref.shape:
        return ("sirt-shape", "SIRT volume has shape %s, expected %s" % (got.shape, ref.shape), {})
    tol = 2 * IRADON_RTOL * emax / SIRT_MIN_NORM + RADON_RTOL * float(np.abs(vol).max())
    d = np.where(ok, np.abs(got - ref), 0.0)
    err = float(d.max()) if np.isfinite(got).all() else float("inf")
    if not err <= tol:
        z, r, c = np.unravel_index(int(np.nanargmax(d)), d.shape)
        return ("sirt-epoch-vs-skimage",
                "one SIRT epoch (tomography_conv.py: radon_torch of the volume, iradon_torch(error, filter %r) / "
                "iradon_torch(ones, None)) differs from the same composition with scikit-image: tilt series %s, angles %s; "
                "slice %d pixel (%d,%d) torch %.6g skimage %.6g (max error %.3g, tolerance %.3g)"
                % (filt, ts.shape, _short_theta(theta), z, r, c, got[z, r, c], ref[z, r, c], err, tol), {"err": err})
    if not abs(loss - loss_ref) <= 1e-4 * max(loss_ref, 1e-30):
        return ("sirt-loss-vs-skimage", "SIRT loss %.8g differs from mean|tilt series - skimage.radon(volume)| = %.8g "
                "(tilt series %s, angles %s)" % (loss, loss_ref, ts.shape, _short_theta(theta)), {})
    case["_rel"] = err / max(emax, 1e-30)
    return None


# ------------------------------------------------------------------------------------------
# call HISTORIES: the property quantifies over every (size, angle set, filter name) — also when the calls are made
# one after another in ONE process, in any order (a result that depends on which filter / size / dtype / angle set was
# requested BEFORE — a cache keyed too coarsely, a cached tensor written in place, an argument tensor modified by the
# call — breaks it without any single fresh call being wrong).  A history is a list of steps; every step is judged by
# the same differential oracle as a single case (against scikit-image on the values the inputs have AT CALL TIME).


def oracle_reuse(case):
    """the SAME tensor objects (image / sinogram, angles) handed to several calls in a row: every result is compared
    with scikit-image on the content the tensors have when the call is made"""
    torch, radon, iradon, _, port = _mods()
    seed = case["seed"]
    theta = make_theta(case["theta_kind"], case["A"], seed)
    th_t = t_theta(theta, theta_dtype(case))
    if case["what"] == "radon":
        n = case["n"]
        img_t = torch.from_numpy(make_image(case["img_kind"], n, seed).copy())
        for rep in range(case["reps"]):
            img_now, th_now = img_t.numpy().copy(), th_t.numpy().astype(np.float64).copy()
            got = port.radon_torch(img_t, theta=th_t).detach().numpy().astype(np.float64).reshape(len(th_now), n)
            ref = run_radon_sk(img_now, th_now)
            scale = n * max(float(np.abs(img_now * disc(n)).max()), 1e-30)
            err = float(np.abs(got - ref).max()) if np.isfinite(got).all() else float("inf")
            if not err <= RADON_RTOL * scale:
                return ("radon-reused-tensors", "call %d of radon_torch with the SAME image and angle tensor objects "
                        "(%dx%d %s image, %s angles %s) differs from skimage.transform.radon of the tensors' content at "
                        "call time: max error %.3g" % (rep + 1, n, n, case["img_kind"], case["theta_kind"],
                                                       _short_theta(th_now), err), {"err": err})
        return None
    N, circle = case["N"], case["circle"]
    s_t = torch.from_numpy(make_sino(case["sino_kind"], N, theta, seed).copy())
    for rep, filt in enumerate(case["filters"]):
        s_now, th_now = s_t.numpy().copy(), th_t.numpy().astype(np.float64).copy()
        r = port.iradon_torch(s_t, theta=th_t, filter_name=filt, circle=circle)
        got = r.detach().numpy().astype(np.float64)
        ref = run_iradon_sk(s_now, th_now, filt, circle)
        ok = well_conditioned(N, th_now, circle, None)
        scale = max(float(np.abs(s_now).max()), 1e-30)
        err = float("inf") if got.shape != ref.shape or not np.isfinite(got).all() else \
            float(np.where(ok, np.abs(got - ref), 0.0).max()) if got.size else 0.0
        if not err <= IRADON_RTOL * scale:
            return ("iradon-reused-tensors", "call %d (filter %r) of iradon_torch with the SAME sinogram and angle tensor "
                    "objects (N=%d, circle=%s, filters in order %s) differs from skimage.transform.iradon of the tensors' "
                    "content at call time: max error %.3g" % (rep + 1, filt, N, circle, case["filters"], err), {"err": err})
    return None


def _fresh_verdict(step):
    """the verdict of ONE step in a fresh interpreter (only called after a history step failed): None = passes alone"""
    import os
    import subprocess
    import sys
    code = ("import json,sys\nfrom harness.props import C07\nstep=json.loads(sys.argv[1])\n"
            "res=C07.ORACLES[step['kind']](step)\nprint('FRESH-VERDICT', json.dumps(None if res is None else res[0]))\n")
    try:
        p = subprocess.run([sys.executable, "-W", "ignore", "-c", code, json.dumps(_public(step))], cwd="/verif",
                           env=dict(os.environ), stdout=subprocess.PIPE, stderr=subprocess.DEVNULL, text=True, timeout=300)
        for line in p.stdout.splitlines():
            if line.startswith("FRESH-VERDICT"):
                return json.loads(line.split(" ", 1)[1]), True
    except Exception:  # noqa
        pass
    return None, False


def oracle_history(case):
    steps = case["steps"]
    for j, step in enumerate(steps):
        step = dict(step)
        try:
            res = ORACLES[step["kind"]](step)
        except Exception as e:  # noqa
            res = ("%s-raises" % step["kind"], "the implementation raised %r" % (e,), {})
        if res is None:
            continue
        key, what, detail = res
        alone, known = _fresh_verdict(step) if case.get("_classify", True) else (key, False)
        dep = known and alone is None
        earlier = "; ".join("%d:%s" % (i, _step_label(s)) for i, s in enumerate(steps[:j]))[-700:]
        return (("history-dependent-" if dep else "history-") + key,
                "step %d of a history of %d calls made in one process (%s) fails%s: %s  [earlier calls: %s]"
                % (j, len(steps), _step_label(step),
                   " although the same call passes in a fresh process — the result depends on the calls made before" if dep
                   else (" (the same call also fails in a fresh process)" if known else ""), what, earlier or "none"),
                {"failing_step": j, "step": _public(step), "passes_alone": dep, **detail})
    return None


def _step_label(s):
    k = s["kind"]
    if k == "filter":
        return "filter(%d,%r)" % (s["size"], s["filter"])
    if k in ("iradon", "iradon-batch"):
        return "%s(N=%d,%r,%s%s%s)" % (k, s["N"], s["filter"], "circle" if s["circle"] else "nocircle",
                                      ",f64" if s.get("dtype") == "float64" else "", ",%s" % s["theta_kind"])
    if k == "reuse":
        return "reuse-%s(%s)" % (s["what"], s.get("n") or s.get("N"))
    return "%s(n=%d,%s%s)" % (k, s["n"], s.get("theta_kind"), ",f64" if s.get("dtype") == "float64" else "")


def gen_history(r, idx):
    """one history: the calls share padded filter sizes (so that a state kept per size / name / dtype is revisited),
    every filter name occurs before AND after every other one, sizes / dtypes / angle sets / batch sizes alternate"""
    P = [64, 128][idx % 2]
    circ_w = list(range(2, 23)) if P == 64 else list(range(23, 46))      # padded_size(diagonal N) = P
    flat_w = list(range(2, 33)) if P == 64 else list(range(33, 65))      # padded_size(N) = P
    A_of = lambda: r.choice([1, 2, 3, 5])                                # noqa: E731
    sd = lambda: r.randrange(1 << 30)                                    # noqa: E731
    pool = []
    for name in FILTERS:
        pool.append({"kind": "filter", "size": P, "filter": name})
        pool.append({"kind": "filter", "size": r.choice([P // 2, 2 * P, 2 * r.randint(1, 40)]), "filter": name})
        circle = r.random() < 0.6
        pool.append({"kind": "iradon", "N": r.choice(circ_w if circle else flat_w), "filter": name, "circle": circle,
                     "out": None, "sino_kind": r.choice(SINO_KINDS), "A": A_of(), "seed": sd(),
                     "theta_kind": r.choice(["random", "default", "uniform", "random64", "integers", "unsorted"]),
                     **({"dtype": "float64"} if r.random() < 0.3 else {})})
    n0 = r.choice([6, 7, 8, 9, 12])
    tk0, a0, s0 = r.choice(THETA_KINDS), A_of(), sd()
    for j in range(5):
        # same size with other angles / dtype, same angles with another size, default angles
        same_size, same_theta = j % 2 == 0, j % 3 == 0
        pool.append({"kind": "radon", "n": n0 if same_size else r.choice([5, 10, 11, 16, 21]), "img_kind": r.choice(IMG_KINDS),
                     "theta_kind": tk0 if same_theta else r.choice(THETA_KINDS + ["random64", "integers", "repeated"]),
                     "A": a0 if same_theta else A_of(), "seed": s0 if same_theta else sd(),
                     **({"dtype": "float64"} if j in (1, 4) else {})})
    pool.append({"kind": "radon", "n": r.choice([4, 6, 9]), "img_kind": "noise", "theta_kind": "default", "A": 180, "seed": sd()})
    pool.append({"kind": "theta0", "n": n0, "img_kind": r.choice(IMG_KINDS), "seed": sd()})
    pool.append({"kind": "radon-batch", "n": n0, "B": r.choice([1, 2, 3]), "theta_kind": r.choice(THETA_KINDS), "A": A_of(), "seed": sd()})
    pool.append({"kind": "iradon-batch", "N": r.choice(circ_w), "B": r.choice([1, 2, 3]), "filter": r.choice(FILTERS), "circle": True,
                 "theta_kind": r.choice(THETA_KINDS), "A": A_of(), "seed": sd()})
    fl = list(FILTERS)
    r.shuffle(fl)
    pool.append({"kind": "reuse", "what": "iradon", "N": r.choice(circ_w), "circle": True, "filters": fl[:4] + [fl[0]],
                 "sino_kind": r.choice(SINO_KINDS), "theta_kind": r.choice(["random", "uniform", "random64"]), "A": A_of(), "seed": sd()})
    pool.append({"kind": "reuse", "what": "radon", "n": n0, "img_kind": r.choice(IMG_KINDS), "reps": 3,
                 "theta_kind": r.choice(["random", "special", "integers"]), "A": A_of(), "seed": sd()})
    r.shuffle(pool)
    again = [dict(s) for s in pool if s["kind"] in ("filter", "iradon")]
    r.shuffle(again)
    return {"kind": "history", "P": P, "steps": pool + again, "seed": idx}


ORACLES = {
    "radon": oracle_radon, "theta0": oracle_theta0, "radon-batch": oracle_radon_batch,
    "radon-linear": oracle_radon_linear, "filter": oracle_filter, "iradon": oracle_iradon,
    "iradon-batch": oracle_iradon_batch, "iradon-linear": oracle_iradon_linear, "sirt": oracle_sirt,
    "reuse": oracle_reuse, "history": oracle_history, "scale": oracle_scale,
}


def _short_theta(theta):
    if theta is None:
        return "None"
    t = ["%.6g" % x for x in theta]
    return "[" + ", ".join(t if len(t) <= 6 else t[:4] + ["...(%d)" % len(t)]) + "]"


def _concrete(case):
    """the actual arrays of a (small) case, for the replay file"""
    out = {}
    try:
        if "theta_kind" in case:
            th = make_theta(case["theta_kind"], case.get("A", 1), case["seed"])
            out["theta_degrees"] = None if th is None else th.tolist()
        if case["kind"] == "iradon" and case["N"] <= 16:
            th = make_theta(case["theta_kind"], case["A"], case["seed"])
            out["sinogram_A_by_N"] = make_sino(case["sino_kind"], case["N"], th, case["seed"]).tolist()
        if case["kind"] == "scale":
            c, x, cx, batch = scale_data(case)
            out["scale_factor_c"] = c
            out["batch_amplitudes"] = [float(np.abs(z).max()) for z in batch]
            if cx.shape[-1] <= 16:
                out["scaled_sinogram_A_by_N" if case["transform"] == "iradon" else "scaled_image"] = cx.tolist()
                out["unscaled_data_x"] = x.tolist()
        if case["kind"] in ("radon", "theta0") and case["n"] <= 16:
            out["image"] = make_image(case["img_kind"], case["n"], case["seed"]).tolist()
    except Exception:  # noqa
        pass
    return out


def _public(case):
    return {k: v for k, v in case.items() if not k.startswith("_")}


# ------------------------------------------------------------------------------------------
# case streams


IMG_KINDS = ["smooth", "noise", "binary", "delta", "dyadic"]
THETA_KINDS = ["special", "uniform", "random", "unsorted", "ends"]
SINO_KINDS = ["radon", "noise", "delta", "const", "dyadic"]

# regression cases (always first): the witnesses of the defects found so far
REGRESSION = [
    {"kind": "radon", "n": 4, "img_kind": "delta", "theta_kind": "special", "A": 1, "seed": 2},
    {"kind": "radon", "n": 16, "img_kind": "noise", "theta_kind": "uniform", "A": 4, "seed": 3},
    {"kind": "radon", "n": 32, "img_kind": "smooth", "theta_kind": "random", "A": 5, "seed": 4},
    {"kind": "filter", "size": 64, "filter": "cosine"},
    {"kind": "iradon", "N": 16, "filter": "ramp", "circle": True, "sino_kind": "noise", "theta_kind": "ends", "A": 2, "seed": 5},
    {"kind": "iradon", "N": 31, "filter": "hann", "circle": True, "sino_kind": "radon", "theta_kind": "uniform", "A": 9, "seed": 6},
    {"kind": "iradon", "N": 31, "filter": "hamming", "circle": True, "sino_kind": "noise", "theta_kind": "special", "A": 3, "seed": 7},
    {"kind": "iradon", "N": 15, "filter": "ramp", "circle": True, "sino_kind": "radon", "theta_kind": "default", "A": 3, "seed": 8},
    {"kind": "iradon", "N": 16, "filter": None, "circle": False, "sino_kind": "const", "theta_kind": "random", "A": 5, "seed": 9},
    {"kind": "iradon", "N": 8, "filter": None, "circle": True, "sino_kind": "const", "theta_kind": "ends", "A": 2, "seed": 10},
]


def gen_oracle_cases(ctx: Ctx):
    r = ctx.rng
    cases = [dict(c) for c in REGRESSION]
    # --- call histories (first: the process is still fresh, so what a history leaves behind is what the later steps see)
    for i in range(ctx.budget(6, 40)):
        cases.append(gen_history(r, i))
    sizes = list(range(2, 66))
    # --- radon: every size 2..65 at least once per run (quick: once; thorough: x12)
    for rep in range(ctx.budget(1, 12)):
        for n in sizes:
            A = r.choice([1, 2, 3, 5, 8]) if n > 40 else r.choice([1, 2, 3, 5, 8, 13, n])
            cases.append({"kind": "radon", "n": n, "img_kind": IMG_KINDS[(n + rep) % 5],
                          "theta_kind": THETA_KINDS[(n // 2 + rep) % 5], "A": A, "seed": r.randrange(1 << 30)})
    for n in ([9, 12] if ctx.quick else [8, 9, 12, 21, 32, 45]):
        cases.append({"kind": "radon", "n": n, "img_kind": "noise", "theta_kind": "default", "A": 180,
                      "seed": r.randrange(1 << 30)})
    for n in (sizes[::3] if ctx.quick else sizes):
        cases.append({"kind": "theta0", "n": n, "img_kind": r.choice(IMG_KINDS), "seed": r.randrange(1 << 30)})
    for i in range(ctx.budget(12, 80)):
        cases.append({"kind": "radon-batch", "n": r.choice(sizes[2:40]), "B": [1, 2, 3, 5][i % 4],
                      "theta_kind": r.choice(THETA_KINDS), "A": r.choice([1, 2, 4]), "seed": r.randrange(1 << 30)})
    for i in range(ctx.budget(10, 60)):
        cases.append({"kind": "radon-linear", "n": r.choice(sizes[2:]), "theta_kind": r.choice(THETA_KINDS),
                      "A": r.choice([1, 3, 6]), "a": r.choice([2.0, -0.5, 3.25, 1.0]), "b": r.choice([1.0, -1.5, 0.25]),
                      "seed": r.randrange(1 << 30)})
    # --- filters: all names x padded sizes actually used + arbitrary even sizes
    fs = [2, 4, 6, 8, 10, 14, 30, 62, 64, 66, 128, 256] + [2 * r.randint(1, 300) for _ in range(ctx.budget(6, 60))]
    if not ctx.quick:
        fs += list(range(2, 132, 2)) + [512, 1024]
    for size in fs:
        for name in FILTERS:
            cases.append({"kind": "filter", "size": size, "filter": name})
    # --- iradon: sizes x filters x angle sets x sinogram kinds; circle=True (default output size),
    #     circle=False (default output size), circle=True with a smaller output size
    for rep in range(ctx.budget(2, 24)):
        for N in sizes:
            mode = (N + rep) % 6
            circle = mode != 4
            out = (N - r.choice([1, 2, 3])) if (mode == 5 and N > 6) else None
            tk = "default" if (N + 2 * rep) % 7 == 0 else THETA_KINDS[(N // 3 + rep) % 5]
            cases.append({"kind": "iradon", "N": N, "filter": FILTERS[(N + 5 * rep) % 6], "circle": circle, "out": out,
                          "sino_kind": SINO_KINDS[(N // 2 + rep) % 5], "theta_kind": tk,
                          "A": r.choice([1, 2, 3, 5, 9]) if N > 30 else r.choice([1, 2, 3, 5, 9, 16, N]),
                          "seed": r.randrange(1 << 30)})
    # --- padded FFT size: sizes whose (padded) detector length is a power of two with a windowed filter
    #     (the window is sampled on the padded size: any other padding changes the reconstruction) ...
    WINDOWED = ["shepp-logan", "cosine", "hamming", "hann"]
    for N, circle in ((22, True), (45, True), (32, False), (64, False)):
        for j, f in enumerate(WINDOWED):
            cases.append({"kind": "iradon", "N": N, "filter": f, "circle": circle, "out": None,
                          "sino_kind": ["noise", "radon"][j % 2], "theta_kind": "uniform", "A": 6,
                          "seed": r.randrange(1 << 30)})
    #     ... and EVERY detector width up to 160 [400] with hann / hamming, circle and not (2 projections)
    for N in range(1, ctx.budget(161, 401)):
        for circle in (True, False):
            if N == 1 and not circle:
                continue                      # empty reconstruction (output size 0) in both libraries
            cases.append({"kind": "iradon", "N": N, "filter": ["hann", "hamming"][(N + circle) % 2], "circle": circle,
                          "out": None, "sino_kind": "delta", "theta_kind": "random", "A": 2, "sweep": True,
                          "seed": r.randrange(1 << 30)})
    # --- output_size LARGER than the detector (pixels beyond it get no contribution: np.interp left/right = 0)
    for i in range(ctx.budget(14, 90)):
        N = r.choice(sizes)
        cases.append({"kind": "iradon", "N": N, "filter": FILTERS[i % 6], "circle": i % 2 == 0,
                      "out": N + r.choice([1, 2, 3, 7, N]), "sino_kind": SINO_KINDS[i % 5],
                      "theta_kind": THETA_KINDS[(i // 2) % 5], "A": r.choice([1, 2, 3, 5]), "seed": r.randrange(1 << 30)})
    # --- how the angles are handed over: float64 tensor (not float32 representable), int64 tensor, repeated
    #     angles; float64 images / sinograms
    for i in range(ctx.budget(12, 90)):
        tk = ["random64", "integers", "repeated"][i % 3]
        cases.append({"kind": "radon", "n": r.choice(sizes), "img_kind": IMG_KINDS[i % 5], "theta_kind": tk,
                      "A": r.choice([1, 2, 4, 7]), "seed": r.randrange(1 << 30)})
        cases.append({"kind": "iradon", "N": r.choice(sizes), "filter": FILTERS[i % 6], "circle": i % 4 != 0, "out": None,
                      "sino_kind": SINO_KINDS[i % 5], "theta_kind": tk, "A": r.choice([1, 2, 4, 7]),
                      "seed": r.randrange(1 << 30)})
    for i in range(ctx.budget(6, 40)):
        tk = ["random64", "uniform", "random"][i % 3]
        cases.append({"kind": "radon", "n": r.choice(sizes), "img_kind": IMG_KINDS[i % 5], "theta_kind": tk,
                      "A": r.choice([1, 3, 5]), "dtype": "float64", "seed": r.randrange(1 << 30)})
        cases.append({"kind": "iradon", "N": r.choice(sizes), "filter": FILTERS[i % 6], "circle": i % 3 != 0, "out": None,
                      "sino_kind": SINO_KINDS[i % 5], "theta_kind": tk, "A": r.choice([1, 3, 5]), "dtype": "float64",
                      "seed": r.randrange(1 << 30)})
    # --- the caller (tomography_conv.py) against the same composition with scikit-image
    for i in range(ctx.budget(6, 40)):
        rows = [12, 9, 22, 16, 7, 31][i % 6] if i < 6 else r.choice(sizes[4:44])
        cases.append({"kind": "sirt", "n": rows, "B": [3, 2, 1][i % 3], "A": r.choice([3, 4, 6]),
                      "filter": ["hamming", "ramp", "hann", "cosine", "shepp-logan", None][i % 6],
                      "theta_kind": ["random64", "random", "uniform"][i % 3], "seed": r.randrange(1 << 30)})
    for i in range(ctx.budget(12, 80)):
        cases.append({"kind": "iradon-batch", "N": r.choice(sizes[2:40]), "B": [1, 2, 3, 5][i % 4],
                      "filter": FILTERS[i % 6], "circle": i % 5 != 0, "theta_kind": r.choice(THETA_KINDS),
                      "A": r.choice([1, 3, 6]), "seed": r.randrange(1 << 30)})
    for i in range(ctx.budget(10, 60)):
        cases.append({"kind": "iradon-linear", "N": r.choice(sizes[2:]), "filter": FILTERS[i % 6], "circle": i % 4 != 0,
                      "theta_kind": r.choice(THETA_KINDS), "A": r.choice([1, 3, 6]),
                      "a": r.choice([2.0, -0.5, 3.25]), "b": r.choice([1.0, -1.5, 0.25]), "seed": r.randrange(1 << 30)})
    # --- amplitude scale of the data: 1e-12 .. 1e+12, float32 / float64, mixed amplitudes inside one batch
    for i in range(ctx.budget(60, 500)):
        cases.append(gen_scale_case(r, i))
    return cases


def check_oracle(ctx: Ctx):
    cases = gen_oracle_cases(ctx)
    fails = {}
    worst = {}
    hist_failed = False
    for case in cases:
        kind = case["kind"]
        if kind == "history":
            case["_classify"] = not hist_failed      # one fresh-interpreter classification per run (5-10 s)
        try:
            res = ORACLES[kind](case)
        except Exception as e:  # noqa  (the implementation raising on a valid input is a failure of the property)
            res = ("%s-raises" % kind, "%s check: the implementation raised %r on case %s" % (kind, e, _public(case)), {})
        size = case.get("n") or case.get("N") or case.get("size") or case.get("P")
        par = "even" if size % 2 == 0 else "odd"
        if kind == "history":
            ctx.dist("history/padded-size-%d" % case["P"])
            ctx.count(("history", case["P"], json.dumps(case["steps"], sort_keys=True, default=str)))
            ctx.cov["history_steps"] = ctx.cov.get("history_steps", 0) + len(case["steps"])
        elif kind == "scale":
            ctx.dist("scale/%s/%s/%s" % (case["transform"], case["dtype"], amp_bucket(case["k"])))
            sb = ctx.cov.setdefault("scale_batches", {"batches": 0, "entries": 0, "amplitude_span_decades": {}})
            span = max(case["ks"]) - min(case["ks"])
            sp = "0" if span == 0 else "1-6" if span <= 6 else "7-12" if span <= 12 else "13-24"
            sb["batches"] += 1
            sb["entries"] += len(case["ks"])
            sb["amplitude_span_decades"][sp] = sb["amplitude_span_decades"].get(sp, 0) + 1
            ctx.count((kind, case["transform"], size, case["k"], case["m"], tuple(case["ks"]), case["dtype"],
                       case.get("filter"), case.get("circle"), case["data_kind"], case["theta_kind"], case["A"], case["seed"]),
                      nontrivial=size >= 3 and case["k"] != 0)
        elif kind == "filter":
            ctx.dist("filter/%s" % (case["filter"] or "none"))
            ctx.count(("filter", size, case["filter"]), nontrivial=case["filter"] is not None)
        elif kind == "sirt":
            ctx.dist("sirt/%s/%s" % (par, case["filter"] or "none"))
            ctx.count((kind, size, case["B"], case["A"], case["filter"], case["theta_kind"], case["seed"]))
        elif kind.startswith("iradon"):
            ctx.dist("%s/%s/%s/%s" % (kind, par, case["filter"] or "none", "circle" if case["circle"] else "nocircle"))
            ctx.count((kind, size, case["filter"], case["circle"], case.get("out"), case["theta_kind"], case["A"],
                       case.get("sino_kind"), case.get("dtype"), case["seed"]), nontrivial=size >= 3)
        else:
            ctx.dist("%s/%s/%s" % (kind, par, case.get("img_kind") or case.get("theta_kind")))
            ctx.count((kind, size, case.get("img_kind"), case.get("theta_kind"), case.get("A"), case.get("dtype"),
                       case["seed"]), nontrivial=size >= 3)
        if res is not None:
            hist_failed = hist_failed or kind == "history"
            key, what, detail = res
            rank = (size < 8, size)      # report the smallest failing size >= 8 (smaller ones only if there is none)
            if key not in fails or rank < fails[key][0]:
                fails[key] = (rank, what, case, detail)
        else:
            for m in ("_rel", "_err"):
                if m in case:
                    worst[kind] = max(worst.get(kind, 0.0), case[m])
            if "_hom" in case:
                worst["scale-homogeneity"] = max(worst.get("scale-homogeneity", 0.0), case["_hom"])
    for key in sorted(fails):
        size, what, case, detail = fails[key]
        ctx.violation(key, what, {"kind": "oracle", "case": _public(case), "detail": detail, **_concrete(case)})
    ctx.cov["worst_relative_error_seen"] = {k: float("%.3g" % v) for k, v in worst.items()}
    for knd in ("radon", "iradon", "filter"):
        sel = [c for c in cases if c["kind"] == knd]
        ctx.sample({"kind": "oracle", "case": _public(sel[min(len(sel) - 1, 20)]), "passed": knd not in
                    {f[2]["kind"] for f in fails.values()}})
    ctx.log("oracle: %d cases (%s), %d failing keys; worst relative errors %s"
            % (len(cases), ", ".join("%s %d" % (k, sum(1 for c in cases if c["kind"] == k)) for k in ORACLES),
               len(fails), ctx.cov["worst_relative_error_seen"]))
    return fails


def record_outside_domain(ctx: Ctx):
    """behaviour OUTSIDE the property's quantified domain (square images, n >= 2, angles in [0, 180], tensors):
    observed and recorded in the evidence, never judged"""
    torch, radon, iradon, _, port = _mods()
    rec = {}
    g = np.random.default_rng(ctx.rng.randrange(1 << 30))

    def attempt(f):
        try:
            return f()
        except Exception as e:  # noqa
            return "raises %s" % type(e).__name__

    with warnings.catch_warnings():
        warnings.simplefilter("ignore")
        # n = 1: the reference itself is undefined (skimage.radon raises on a 1x1 image in circle mode)
        rec["n=1 radon"] = {
            "skimage": attempt(lambda: radon(np.ones((1, 1)), theta=[0.0, 30.0], circle=True).tolist()),
            "radon_torch": attempt(lambda: str(port.radon_torch(torch.ones(1, 1), theta=torch.tensor([0.0, 30.0])).tolist()))}
        # non-square images: both crop to the central square after masking with the disc of the full image
        worst = 0.0
        for shp in ((8, 12), (12, 8), (9, 12), (7, 10), (10, 7), (5, 6)):
            im = g.uniform(size=shp).astype(np.float32)
            th = np.array([0.0, 30.0, 90.0, 131.0])
            H, W = shp
            y, x = np.mgrid[:H, :W]
            m = ((x - W // 2) ** 2 + (y - H // 2) ** 2) <= (min(H, W) // 2) ** 2
            d = attempt(lambda: float(np.abs(
                port.radon_torch(torch.from_numpy(im), theta=t_theta(th)).numpy().astype(np.float64)
                - radon(im.astype(np.float64) * m, theta=th, circle=True).T).max()))
            worst = d if isinstance(d, str) else max(worst, d) if not isinstance(worst, str) else worst
        rec["non-square radon: max |radon_torch - skimage.radon(image * port's disc)|"] = worst
        # angles outside [0, 180] (tilt series use negative tilt angles)
        w1 = w2 = 0.0
        for n in (9, 16, 22):
            th = make_theta("outside", 6, int(g.integers(1 << 30)))
            im = make_image("noise", n, int(g.integers(1 << 30)))
            d = attempt(lambda: float(np.abs(run_radon_port(im, th)[0] - run_radon_sk(im, th)).max()) / (n * float(np.abs(im).max())))
            sn = make_sino("noise", n, th, int(g.integers(1 << 30)))
            ok = well_conditioned(n, th, True, None)
            e = attempt(lambda: float(np.where(ok, np.abs(run_iradon_port(sn, th, "hann")[0] - run_iradon_sk(sn, th, "hann")), 0).max()
                                      / np.abs(sn).max()))
            w1 = d if isinstance(d, str) else (max(w1, d) if not isinstance(w1, str) else w1)
            w2 = e if isinstance(e, str) else (max(w2, e) if not isinstance(w2, str) else w2)
        rec["angles in [-180, 540]: radon error / (n max|img|), iradon error / max|sino|"] = [w1, w2]
        # angle containers other than tensors
        im = torch.ones(5, 5)
        rec["theta as list"] = [attempt(lambda: tuple(port.radon_torch(im, theta=[0.0, 30.0]).shape)),
                                attempt(lambda: tuple(port.iradon_torch(torch.ones(2, 5), theta=[0.0, 30.0]).shape))]
        rec["theta as ndarray"] = [attempt(lambda: tuple(port.radon_torch(im, theta=np.array([0.0, 30.0])).shape)),
                                   attempt(lambda: tuple(port.iradon_torch(torch.ones(2, 5), theta=np.array([0.0, 30.0])).shape))]
        # result dtypes
        rec["result dtype"] = {
            "radon_torch(float32)": attempt(lambda: str(port.radon_torch(im, theta=torch.tensor([0.0])).dtype)),
            "radon_torch(float64)": attempt(lambda: str(port.radon_torch(im.double(), theta=torch.tensor([0.0])).dtype)),
            "iradon_torch(float64)": attempt(lambda: str(port.iradon_torch(torch.ones(2, 5).double(), theta=torch.tensor([0.0, 30.0])).dtype))}
        rec["iradon_torch parameters"] = attempt(lambda: list(__import__("inspect").signature(port.iradon_torch).parameters))
        rec["skimage.iradon parameters"] = attempt(lambda: list(__import__("inspect").signature(iradon).parameters))
    ctx.cov["recorded_outside_domain"] = rec
    ctx.log("recorded (outside the quantified domain, not judged): %s" % json.dumps(rec, default=str)[:900])


# ------------------------------------------------------------------------------------------
# correspondence


def fr(x):
    return Fraction(*float(x).as_integer_ratio())


def cangs(cs):
    return "[" + "; ".join("(%s, %s)" % (cq(fr(c)), cq(fr(s))) for c, s in cs) + "]"


def czrows(rows):
    return "[" + "; ".join("[" + "; ".join(str(int(v)) for v in row) + "]%Z" for row in rows) + "]"


def port_cs(theta):
    """(cos, sin) exactly as radon_torch / iradon_torch compute them: float32, per angle"""
    torch = _mods()[0]
    out = []
    for angle in torch.tensor(np.asarray(theta), dtype=torch.float32):
        a = torch.deg2rad(angle)
        out.append((float(torch.cos(a)), float(torch.sin(a))))
    return out


def sk_cs(theta):
    return [(float(np.cos(a)), float(np.sin(a))) for a in np.deg2rad(np.asarray(theta, dtype=np.float64))]


def unq(v):
    return np.asarray(v, dtype=np.float64) / Q40


def bilinear_colsum(img, X, Y):
    """sum over rows r of the bilinear sample (zeros outside) of img at (x, y) = (X[r, k], Y[r, k])"""
    n = img.shape[0]
    x0, y0 = np.floor(X).astype(int), np.floor(Y).astype(int)
    fx, fy = X - x0, Y - y0

    def p(r, k):
        ok = (r >= 0) & (r < n) & (k >= 0) & (k < n)
        return np.where(ok, img[np.clip(r, 0, n - 1), np.clip(k, 0, n - 1)], 0.0)

    v = (1 - fy) * ((1 - fx) * p(y0, x0) + fx * p(y0, x0 + 1)) + fy * ((1 - fx) * p(y0 + 1, x0) + fx * p(y0 + 1, x0 + 1))
    return v.sum(axis=0)


IMG_DEN = 4096
Q60 = float(1 << 60)


def quantised_image(kind, n, seed):
    """float32 image on the grid 1/4096 (exact in float32 and as a Coq rational) + its integer rows"""
    z = np.rint(make_image(kind, n, seed).astype(np.float64) * IMG_DEN)
    return (z / IMG_DEN).astype(np.float32), z.astype(np.int64)


def cqrows(a):
    return "[" + "; ".join("[" + "; ".join(cq(fr(x)) for x in row) + "]" for row in a) + "]"


def cbrows(m):
    return "[" + "; ".join("[" + "; ".join(cbool(bool(x)) for x in row) + "]" for row in m) + "]"


def check_radon_corr(ctx: Ctx):
    """the WHOLE model evaluated in Coq (exact Q): `port_sinogram repaired bilinear` with the very float32 cos/sin
    torch computes against radon_torch, `sk_sinogram bilinear (disc_mask ...)` with numpy's float64 cos/sin against
    skimage.radon, `in_disc` against scikit-image's reconstruction circle — compared inside Coq, only booleans and
    the largest deviation are printed (n up to 33 [64]).  For n <= 9 additionally the model's sample points are
    printed and pushed through an independent NumPy bilinear column sum."""
    r = ctx.rng
    cases = []
    ns = list(range(2, 17)) + [22, 33, 21, 32] + ([] if ctx.quick else [45, 48, 64])
    for i in range(ctx.budget(24, 150)):
        n = ns[i % len(ns)]
        tk = ["special", "random", "uniform", "ends"][i % 4]
        A = 2 if tk == "ends" else (r.choice([1, 2, 3]) if n <= 12 else 1)
        cases.append({"n": n, "theta_kind": tk, "A": A, "img_kind": IMG_KINDS[i % 5], "seed": r.randrange(1 << 30)})
    exprs = []
    runs = []
    for c in cases:
        n = c["n"]
        theta = make_theta(c["theta_kind"], c["A"], c["seed"])
        img, z = quantised_image(c["img_kind"], n, c["seed"])
        got, ref = run_radon_port(img, theta)[0], run_radon_sk(img, theta)
        runs.append((theta, img, got, ref))
        pc, sc = port_cs(theta), sk_cs(theta)
        exprs.append("radcmp %s %d %s %s %s %s %s %s" % (cz(n), IMG_DEN, czrows(z), cangs(pc), cangs(sc),
                                                        cqrows(got), cqrows(ref), cbrows(disc(n))))
    small = [i for i, c in enumerate(cases) if c["n"] <= 9]
    for i in small:
        c = cases[i]
        theta = runs[i][0]
        pc, sc = port_cs(theta), sk_cs(theta)
        exprs.append("(dmask %s, [%s], [%s])" % (
            cz(c["n"]),
            "; ".join("pts_port %s %s %s" % (cz(c["n"]), cq(fr(a)), cq(fr(b))) for a, b in pc),
            "; ".join("pts_sk %s %s %s" % (cz(c["n"]), cq(fr(a)), cq(fr(b))) for a, b in sc)))
    # the executable Coq sampler and column sum (bilinear, sumQ) against the same Python mirror, small rationals
    tiny = []
    for n in (2, 3, 4, 5):
        for (a, b) in ((Fraction(3, 5), Fraction(4, 5)), (Fraction(-5, 13), Fraction(12, 13)), (Fraction(0), Fraction(1))):
            rows = [[r.randint(0, 16) for _ in range(n)] for _ in range(n)]
            tiny.append((n, a, b, rows))
            exprs.append("(rad_port %s 16 %s [(%s, %s)], pts_port %s %s %s, dmask %s)"
                         % (cz(n), czrows(rows), cq(a), cq(b), cz(n), cq(a), cq(b), cz(n)))
    # big cases first within each shard would not balance: interleave by cost
    order = sorted(range(len(exprs)), key=lambda i: -len(exprs[i]))
    nsh = 12
    shards = [order[k::nsh] for k in range(nsh)]
    flat = [i for sh in shards for i in sh]
    per = max(len(sh) for sh in shards)
    # coq_eval shards consecutive chunks of `shard` expressions: pad every shard to the same length
    padded = []
    for sh in shards:
        padded += [exprs[i] for i in sh] + ["tt"] * (per - len(sh))
    out = ctx.coq_eval("radon", PRE, padded, shard=per, timeout=900)
    vals = [None] * len(exprs)
    pos = 0
    for sh in shards:
        for k, i in enumerate(sh):
            vals[i] = out[pos + k]
        pos += per
    nd = 0
    worst = [0.0, 0.0]
    for idx, (c, v) in enumerate(zip(cases, vals[:len(cases)])):
        n = c["n"]
        theta, img, got, ref = runs[idx]
        scale = n * max(float(np.abs(img).max()), 1e-30)
        shapes, ep, es, mask_ok = v
        e_port, e_sk = float(ep) / Q60, float(es) / Q60
        ctx.cov["traces_validated_against_impl"] += 2
        ctx.count(("radon-corr", n, c["theta_kind"], c["A"], c["seed"]), nontrivial=n >= 3)
        ctx.dist("corr-radon/%s" % ("even" if n % 2 == 0 else "odd"))
        worst = [max(worst[0], e_port / scale), max(worst[1], e_sk / scale)]
        if not mask_ok:
            nd += 1
            ctx.violation("spec-model-correspondence", "in_disc differs from scikit-image's reconstruction circle, n=%d" % n,
                          {"kind": "radon-corr", "case": c}, found_input=False)
        if not shapes:
            e_port = e_sk = float("inf")
        if not e_sk <= 1e-11 * scale:      # exact model vs float64 (measured 6e-16)
            nd += 1
            ctx.violation("spec-model-correspondence",
                          "the Coq transcription of skimage.radon (sk_sinogram bilinear on the disc-masked image) and "
                          "skimage.radon disagree on a %dx%d %s image, angles %s: max difference %.3g"
                          % (n, n, c["img_kind"], _short_theta(theta), e_sk),
                          {"kind": "radon-corr", "case": c, "impl": ref.tolist()}, found_input=False)
        if not e_port <= RADON_RTOL * scale:
            nd += 1
            bad = oracle_radon(dict(c))
            ctx.cov["disagreements_checked"] += 1
            ctx.violation("radon-correspondence",
                          "the model of radon_torch (port_sinogram repaired bilinear, exact rationals, with torch's float32 "
                          "cos/sin and the disc mask) and radon_torch disagree on a %dx%d %s image, angles %s: max "
                          "difference %.3g — the Radon theorems no longer speak about this code"
                          % (n, n, c["img_kind"], _short_theta(theta), e_port),
                          {"kind": "radon-corr", "case": c, "impl": got.tolist()},
                          found_input=bad is not None)
    for i, v in zip(small, vals[len(cases):len(cases) + len(small)]):
        c = cases[i]
        n = c["n"]
        theta, img, got, ref = runs[i]
        scale = n * max(float(np.abs(img).max()), 1e-30)
        mask = np.array(v[0], dtype=bool)
        img64 = img.astype(np.float64)
        mp = np.stack([bilinear_colsum(img64 * mask, unq(P)[..., 0], unq(P)[..., 1]) for P in v[1]])
        ms = np.stack([bilinear_colsum(img64 * mask, unq(P)[..., 0], unq(P)[..., 1]) for P in v[2]])
        ctx.cov["traces_validated_against_impl"] += 2
        if not (float(np.abs(ms - ref).max()) <= 1e-8 * scale and np.array_equal(mask, disc(n))):
            nd += 1
            ctx.violation("spec-model-correspondence",
                          "the Coq transcription of skimage.radon's warp points (sk_point) + NumPy bilinear column sums and "
                          "skimage.radon disagree on a %dx%d %s image, angles %s" % (n, n, c["img_kind"], _short_theta(theta)),
                          {"kind": "radon-corr", "case": c, "model": ms.tolist(), "impl": ref.tolist()}, found_input=False)
        if not float(np.abs(mp - got).max()) <= RADON_RTOL * scale:
            nd += 1
            bad = oracle_radon(dict(c))
            ctx.cov["disagreements_checked"] += 1
            ctx.violation("radon-correspondence",
                          "the model's sample points of radon_torch (port_point repaired) + NumPy bilinear column sums and "
                          "radon_torch disagree on a %dx%d %s image, angles %s" % (n, n, c["img_kind"], _short_theta(theta)),
                          {"kind": "radon-corr", "case": c, "model": mp.tolist(), "impl": got.tolist()},
                          found_input=bad is not None)
    for (n, a, b, rows), v in zip(tiny, vals[len(cases) + len(small):]):
        img = np.array(rows, dtype=np.float64) / 16.0
        P = unq(v[1])
        mirror = bilinear_colsum(img * np.array(v[2], dtype=bool), P[..., 0], P[..., 1])
        ctx.cov["traces_validated_against_impl"] += 1
        if np.abs(unq(v[0])[0] - mirror).max() > 1e-9:
            nd += 1
            ctx.violation("spec-model-correspondence", "Coq `port_sinogram repaired bilinear` and the harness's bilinear "
                          "column sum over the model's points disagree (n=%d, c=%s, s=%s)" % (n, a, b),
                          {"kind": "radon-corr", "tiny": [n, str(a), str(b), rows]}, found_input=False)
    ctx.cov["worst_relative_error_seen"]["radon-corr (model vs radon_torch, model vs skimage)"] = [
        float("%.3g" % worst[0]), float("%.3g" % worst[1])]
    ctx.sample({"kind": "radon-corr", "case": cases[3], "note": "whole model evaluated in Coq within tolerance of both implementations"})
    ctx.log("radon correspondence: %d cases x 2 implementations evaluated and compared in Coq (n up to %d; worst relative "
            "deviation port %.2g, skimage %.2g), %d of them also through the model's sample points, +%d mirror "
            "evaluations, %d disagreements" % (len(cases), max(c["n"] for c in cases), worst[0], worst[1], len(small),
                                               len(tiny), nd))


def _filter_from_probes(pr, ramp):
    """pr = (filter probes at k = 0, 1, size-1; window coefficients at k = 0 and k >= 1; all k >= 1 share
    them; window arguments), 2^40 fixed point.  The filter is F(T, r) = A(T) + r B(T), affine in
    T = (sin(pi a), cos(pi a), sinc(a)), r = ramp[k]; B must be the window (or 0: the ramp is unused)."""
    fpr, w0, w1, same, args = pr
    if not same or len(args) != len(ramp):
        return None
    fl = lambda v: [float(x) / Q40 for x in v]   # noqa: E731
    const = None
    for kk, f in zip((0, 1, len(args) - 1), map(fl, fpr)):
        A_ = f[:4]
        B_ = [f[4 + i] - f[i] for i in range(4)]
        w = fl(w0 if kk == 0 else w1)
        if any(abs(A_[i] - A_[0]) > 1e-9 for i in range(4)):
            return None                               # the ramp-free part must not depend on T
        if all(abs(x) < 1e-9 for x in B_):
            uses = False
        elif all(abs(B_[i] - w[i]) < 1e-9 for i in range(4)):
            uses = True
        else:
            return None                               # the ramp factor is not the window
        if const is None:
            const = (A_[0], uses)
        elif const != (A_[0], uses):
            return None
    A0, uses = const
    out = np.zeros(len(args))
    for k, arg in enumerate(args):
        w = fl(w0 if k == 0 else w1)
        if int(arg) == NOARG:
            if any(abs(w[i] - w[0]) > 1e-9 for i in (1, 2, 3)):
                return None     # a transcendental is used but the model names no argument
            T = (0.0, 0.0, 0.0)
        else:
            a = float(int(arg)) / Q40
            sn = math.sin(math.pi * a)
            T = (sn, math.cos(math.pi * a), 1.0 if a == 0 else sn / (math.pi * a))
        W = w[0] + sum((w[1 + i] - w[0]) * T[i] for i in range(3))
        out[k] = A0 + (ramp[k] * W if uses else 0.0)
    return out


def check_filter_corr(ctx: Ctx):
    r = ctx.rng
    sizes = [2, 4, 6, 10, 64, 128] + [2 * r.randint(2, 60) for _ in range(ctx.budget(2, 12))]
    if not ctx.quick:
        sizes += [256, 512, 8, 12, 30, 34, 100]
    exprs, meta = [], []
    for size in sizes:
        exprs.append("(kern (port_ramp_kernel %s), kern (sk_ramp_kernel %s), port_filter_n %s)"
                     % (cz(size), cz(size), cz(size)))
        meta.append(("kern", size, None))
        for name in FILTERS:
            exprs.append("[probe_port (fname_of %d) %s; probe_sk (fname_of %d) %s]"
                         % (FIDX[name], cz(size), FIDX[name], cz(size)))
            meta.append(("probe", size, name))
    vals = ctx.coq_eval("filter", PRE, exprs, shard=7)
    nd = 0
    ramps = {}
    for (kind, size, name), v in zip(meta, vals):
        if kind == "kern":
            rp = []
            for side in (0, 1):
                f = np.array([float(a) / Q40 + (float(b) / Q40) / math.pi ** 2 for a, b in v[side]])
                rp.append(2.0 * np.real(np.fft.fft(f)))
            ramps[size] = rp
            continue
        for side, (impl, label, tol, key) in enumerate([
                (run_filter_port, "get_fourier_filter_torch", FILTER_ATOL, "filter-correspondence"),
                (run_filter_sk, "skimage _get_fourier_filter", SPEC_RTOL * 10, "spec-model-correspondence")]):
            model = _filter_from_probes(v[side], ramps[size][side])
            got = impl(size, name)
            err = float("inf") if model is None or model.shape != got.shape else float(np.abs(model - got).max())
            ctx.cov["traces_validated_against_impl"] += 1
            if not err <= tol:
                nd += 1
                bad = oracle_filter({"size": size, "filter": name}) if side == 0 else None
                ctx.cov["disagreements_checked"] += 1
                ctx.violation(key, "the Coq model of the %s filter (index vector, ramp kernel, window arguments and "
                              "coefficients) and %s(%d, %r) disagree: max difference %.3g"
                              % (name, label, size, name, err),
                              {"kind": "filter-corr", "size": size, "filter": name, "side": label},
                              found_input=bad is not None)
        ctx.count(("filter-corr", size, name), nontrivial=name is not None)
        ctx.dist("corr-filter/%s" % (name or "none"))
    ctx.log("filter correspondence: %d sizes x 6 filters x 2 implementations, %d disagreements" % (len(sizes), nd))


def check_geometry_corr(ctx: Ctx):
    """integer geometry of iradon: the model vs scikit-image's own helpers (and the port's output
    shape); returns {N: geom list} for the reconstruction correspondence"""
    torch, _, iradon, skrt, port = _mods()
    Ns = list(range(1, ctx.budget(100, 400)))
    vals = ctx.coq_eval("geom", PRE, ["map geom (map Z.of_nat (seq 1 %d))" % len(Ns)], shard=1)[0]
    As = list(range(1, 40))
    dth = ctx.coq_eval("dtheta", PRE, ["map dtheta (map Z.of_nat (seq 1 %d))" % len(As)], shard=1)[0]
    geo = {}
    nd = 0
    seen = []
    orig = skrt._get_fourier_filter

    def spy(size, name):
        seen.append(size)
        return orig(size, name)

    for N, g in zip(Ns, vals):
        diag, pb, Pc, Pn, outn, pS, ppb, pP = g
        geo[N] = g
        S, skpb = sk_det(N, True)
        bad = []
        if (diag, pb) != (S, skpb):
            bad.append("detector %s vs _sinogram_circle_to_square %s" % ((diag, pb), (S, skpb)))
        if N <= 150 and N >= 2:
            skrt._get_fourier_filter = spy
            try:
                del seen[:]
                ro = iradon(np.zeros((N, 1)), theta=[0.0], circle=True)
                rn = iradon(np.zeros((N, 1)), theta=[0.0], circle=False)
            finally:
                skrt._get_fourier_filter = orig
            if seen != [Pc, Pn]:
                bad.append("padded FFT sizes %s vs skimage %s" % ([Pc, Pn], seen))
            if rn.shape[0] != outn or ro.shape[0] != N:
                bad.append("default output size %d vs skimage %d" % (outn, rn.shape[0]))
            tn = port.iradon_torch(torch.zeros((1, N)), theta=torch.zeros(1), circle=False)
            if tuple(tn.shape) != (outn, outn):
                nd += 1
                ctx.violation("iradon-shape", "iradon_torch(circle=False) on %d detector pixels returns %s, scikit-image "
                              "(%d, %d)" % (N, tuple(tn.shape), outn, outn), {"kind": "geom", "N": N})
        ctx.cov["traces_validated_against_impl"] += 1
        ctx.count(("geom", N), nontrivial=N >= 2)
        if bad:
            nd += 1
            ctx.violation("spec-model-correspondence", "iradon geometry for N=%d: model %s" % (N, "; ".join(bad)),
                          {"kind": "geom", "N": N, "model": list(g)}, found_input=False)
    for A, (dp, ds) in zip(As, dth):
        ref = np.linspace(0, 180, A, endpoint=False)
        if np.abs(unq(ds) - ref).max() > 1e-9:
            nd += 1
            ctx.violation("spec-model-correspondence", "default theta for %d projections: model %s numpy %s"
                          % (A, unq(ds).tolist(), ref.tolist()), {"kind": "geom", "A": A}, found_input=False)
    ctx.log("iradon geometry: N = 1..%d against scikit-image's helpers, %d disagreements" % (Ns[-1], nd))
    return geo, {A: unq(dp) for A, (dp, ds) in zip(As, dth)}


# ------------------------------------------------------------------------------------------
# the integer geometry of iradon_torch, read from the CURRENT source and tied to the model BY THEOREM


def prebuild_geometry_gen(ctx: Ctx):
    """translate the integer geometry and compile build/C07/C07_Gen.v once, for both ties (they run side by side)"""
    from .. import translate_C07 as T
    from ..common import COQ_FLAGS, SRC, sh
    st = {"defs": None, "problems": [], "compiled": False}
    try:
        st["defs"] = T.translate(SRC / "quantem" / "tomography" / "radon" / "radon.py")
    except T.TranslateError as e:
        st["problems"].append("geometry tie: the translator (fail closed) rejected the source of iradon_torch: %s" % e)
        return st
    except Exception as e:  # noqa
        st["problems"].append("geometry tie could not run: %r" % (e,))
        return st
    gen = ctx.dir / "C07_Gen.v"
    for stale in (gen.with_suffix(".vo"), ctx.dir / "C07_GenProperties.vo"):
        if stale.exists():
            stale.unlink()
    gen.write_text(T.emit(st["defs"]))
    rc, out = sh(["timeout", "300", "coqc"] + COQ_FLAGS + ["-Q", str(ctx.dir), "GenC07", str(gen)], cwd=ctx.dir, timeout=330)
    if rc != 0:
        st["problems"].append("geometry tie: generated file C07_Gen.v does not compile:\n" + "\n".join(out.strip().splitlines()[-8:]))
    else:
        st["compiled"] = True
    return st


def check_geometry_tie(ctx: Ctx, geo, pre=None):
    """harness/translate_C07.py -> build/C07/C07_Gen.v -> coq/gen_proofs/C07_GenProperties.v (fixed script):
    filter size, detector padding, FFT padding and default output size of the source = the model's, for every N >= 1.
    Fail closed: an unreadable source or a failing lemma is a broken obligation; a concrete detector width at which
    the source's filter size differs from the model's is then searched and judged by the oracle."""
    import re
    import time
    from .. import translate_C07 as T
    from ..common import COQ, COQ_FLAGS, SRC, sh
    t0 = time.time()
    rec = {"script": "coq/gen_proofs/C07_GenProperties.v", "source": "tomography/radon/radon.py:iradon_torch"}
    ctx.cov["source_geometry_tie"] = rec
    pre = pre or prebuild_geometry_gen(ctx)
    problems = list(pre["problems"])
    defs = pre["defs"]
    if defs is not None:
        rec["translated"] = defs
    tied = False
    if defs is not None:
        gen = ctx.dir / "C07_Gen.v"
        xflags = ["-Q", str(ctx.dir), "GenC07"]
        script = COQ / "gen_proofs" / "C07_GenProperties.v"
        bad = ctx.static_scan([gen, script])
        if bad:
            problems.append("forbidden declarations: %s" % bad[:5])
        if pre["compiled"]:
            _RP_LOCK.acquire()
            saved_cmd, saved_problems = ctx.cov["checker_cmd"], ctx._proof_problems
            try:
                ok = ctx.require_proofs(props_name="C07_GenProperties", props_path=script, extra_flags=xflags, make_targets=[])
                msg = "; ".join(ctx._proof_problems)
            finally:
                ctx.cov["checker_cmd"] = saved_cmd + "  ;  harness/translate_C07.py > build/C07/C07_Gen.v && coqc C07_Gen.v && " \
                                                     "coqc coq/gen_proofs/C07_GenProperties.v"
                ctx._proof_problems = saved_problems
                _RP_LOCK.release()
            if not ok:
                m = re.search(r'line (\d+), characters', msg)
                lem = ""
                if m:
                    for i, line in enumerate(script.read_text().splitlines(), 1):
                        if i > int(m.group(1)):
                            break
                        mm = re.match(r"\s*(?:Lemma|Theorem)\s+(\w+)", line)
                        if mm:
                            lem = mm.group(1)
                rec["broken_lemma"] = lem
                problems.append("geometry tie: the integer geometry read from the current source of iradon_torch no longer "
                                "equals the model (fixed proof script fails at `%s`): %s" % (lem, msg[:900]))
            else:
                tied = True
            # the source's filter size evaluated for N = 1..1024 against the model's: the first deviating width, if any
            gpre = "From QV.lib Require Import Prelude.\nFrom QV.model Require Import C07_Model C07_Model_Ext.\n" \
                   "From GenC07 Require Import C07_Gen.\nLocal Open Scope Z_scope.\n"
            try:
                dev = ctx.coq_eval("geomtie", gpre, [
                    "(filter (fun N => negb (gen_filter_size_circle N =? padded_size (port_det_size repaired N true))) "
                    "(map Z.of_nat (seq 1 1024)), filter (fun N => negb (gen_filter_size_nocircle N =? "
                    "padded_size (port_det_size repaired N false))) (map Z.of_nat (seq 1 1024)), "
                    "map gen_filter_size_circle (map Z.of_nat (seq 1 200)), map gen_filter_size_nocircle (map Z.of_nat (seq 1 200)))"],
                    extra_flags=xflags)[0]
                rec["deviating_widths_circle"], rec["deviating_widths_nocircle"] = list(dev[0])[:8], list(dev[1])[:8]
                for circle, widths in ((True, dev[0]), (False, dev[1])):
                    for N in list(widths)[:3]:
                        case = {"kind": "iradon", "N": int(N), "filter": "hann", "circle": circle, "out": None,
                                "sino_kind": "noise", "theta_kind": "uniform", "A": 6, "seed": 20240607}
                        res = oracle_iradon(case)
                        ctx.cov["disagreements_checked"] += 1
                        if res is not None:
                            ctx.violation("iradon-padded-size",
                                          "the FFT length iradon_torch computes for %d detector pixels (circle=%s) is not "
                                          "scikit-image's max(64, 2**ceil(log2(2 S))) and the reconstruction differs: %s"
                                          % (N, circle, res[1]), {"kind": "oracle", "case": _public(case), **_concrete(case)})
                            break
                # translator cross-test: the sizes the translated expression gives are the sizes the running code passes to
                # get_fourier_filter_torch (observed through the module attribute; skipped silently if the call is inlined)
                torch, _, _, _, port = _mods()
                orig = getattr(port, "get_fourier_filter_torch", None)
                seen = []
                if orig is not None:
                    def spy(size, *a, **k):
                        seen.append(int(size))
                        return orig(size, *a, **k)
                    port.get_fourier_filter_torch = spy
                    try:
                        n_x = bad_x = 0
                        for circle, col in ((True, dev[2]), (False, dev[3])):
                            for N, want in zip(range(1, 201), col):
                                del seen[:]
                                try:
                                    port.iradon_torch(torch.zeros(1, N), theta=torch.zeros(1), circle=circle)
                                except Exception:  # noqa
                                    continue
                                if len(seen) == 1:
                                    n_x += 1
                                    bad_x += seen[0] != int(want)
                        rec["translator_cross_test"] = {"evaluations": n_x, "mismatches": bad_x}
                        if bad_x:
                            problems.append("geometry tie: translator cross-test: the filter size of the translated expression "
                                            "differs from the size the running code uses on %d of %d widths" % (bad_x, n_x))
                    finally:
                        port.get_fourier_filter_torch = orig
            except Exception as e:  # noqa
                problems.append("geometry tie: evaluation of the generated functions failed: %r" % (e,))
    rec["status"] = "tied by theorem" if (tied and not problems) else "broken"
    rec["wall_s"] = round(time.time() - t0, 2)
    if problems:
        rec["problems"] = [p[:1200] for p in problems]
        msg = "; ".join(problems)
        ctx.broken_obligation = (ctx.broken_obligation + "; " + msg) if ctx.broken_obligation else msg
        ctx.log("PROOF OBLIGATION BROKEN (geometry tie):", msg[:2000])
    else:
        ctx.log("geometry tie: filter size / detector padding / FFT padding / default output size of iradon_torch tied by "
                "theorem to the current source for every N >= 1 (%s; %.1fs)" % (rec.get("translator_cross_test"), rec["wall_s"]))



# ------------------------------------------------------------------------------------------
# the REST of radon.py (filter construction, sampling grid, back-projection term), read from the CURRENT source and
# tied to the model BY THEOREM (harness/translate_C07_full.py -> build/C07/C07_GenFull.v ->
# coq/gen_proofs/C07_GenFull_Properties.v); cross-test of the translator: the generated functions are executed
# (vm_compute) and compared with calling the real Python functions


GEN_PRE = PRE + r"""
From QV.lib Require Import C07_TorchSem.
From QV.model Require Import C07_Model_Ext.
From GenC07 Require Import C07_Gen C07_GenFull C07_GenFull_Properties.
Definition IDq (q : Q) : Q := q.
Definition R1 : list (Q * Q) -> Z -> Q := fun _ _ => 1.
Definition R0 : list (Q * Q) -> Z -> Q := fun _ _ => 0.
(* per index: constant part, then with the ramp factor 1: K0 K0 K0 | sin=1 | sin=id | cos=1 | cos=id | sinc=1 | sinc=id *)
Definition gprobe (nm : fname) (size : Z) :=
  (map (fun k => map qz [gen_filter K0 K0 K0 R0 nm size k; gen_filter K0 K0 K0 R1 nm size k;
                         gen_filter K1 K0 K0 R1 nm size k; gen_filter IDq K0 K0 R1 nm size k;
                         gen_filter K0 K1 K0 R1 nm size k; gen_filter K0 IDq K0 R1 nm size k;
                         gen_filter K0 K0 K1 R1 nm size k; gen_filter K0 K0 IDq R1 nm size k]) (zrange size),
   gen_filter_raises size, gen_filter_raises (size + 1)).
Definition gen_radcmp (n : Z) (den : positive) (rows : list (list Z)) (angs : list (Q * Q)) (impl : list (list Q)) :=
  let m := map (fun cs => map (gen_radon bilred (ztab2 den rows) n (fst cs) (snd cs)) (zrange n)) angs in
  (shape_ok m impl, q60 (maxerr m impl)).
Definition gen_ircmp (h : Z -> Z -> Q) (pi : Q) (out A N : Z) (circle : bool) (angs : list (Q * Q)) (den : positive)
  (rows : list (list Z)) (impl : list (list Q)) :=
  let m := map (fun row => map (gen_iradon h pi out A N circle (ang_of_list angs) (ztab2 den rows) row) (zrange out)) (zrange out) in
  (shape_ok m impl, q60 (maxerr m impl)).
"""


def _gen_filter_values(kern, probes):
    """float filter from the generated kernel and the per-index probes (see gprobe)"""
    f = np.array([float(a) / Q40 + (float(b) / Q40) / math.pi ** 2 for a, b in kern])
    ramp = 2.0 * np.real(np.fft.fft(f))
    out = []
    for k, pr in enumerate(probes):
        c0, base, s1, sid, c1, cid, n1, nid = [float(x) / Q40 for x in pr]
        w0 = base - c0
        v = w0
        for one, ident, fn in ((s1, sid, lambda a: math.sin(math.pi * a)), (c1, cid, lambda a: math.cos(math.pi * a)),
                               (n1, nid, lambda a: float(np.sinc(a)))):
            w = one - base
            if abs(w) > 1e-9:
                v += w * fn((ident - base) / w)
        out.append(c0 + ramp[k] * v)
    return np.array(out)


def check_full_tie(ctx: Ctx):
    import time
    from .. import translate_C07_full as TF
    from ..common import COQ, COQ_FLAGS, SRC, sh
    t0 = time.time()
    rec = {"script": "coq/gen_proofs/C07_GenFull_Properties.v",
           "source": "tomography/radon/radon.py: get_fourier_filter_torch, radon_torch, iradon_torch"}
    ctx.cov["source_full_tie"] = rec
    problems = []
    text = None
    try:
        text = TF.translate_full(SRC / "quantem" / "tomography" / "radon" / "radon.py")
    except TF.TranslateError as e:
        problems.append("full tie: the translator (fail closed) rejected the current source of radon.py: %s" % str(e)[:600])
    except Exception as e:  # noqa
        problems.append("full tie: the translator could not read the current source of radon.py: %r" % (e,))
    tied = False
    xflags = ["-Q", str(ctx.dir), "GenC07"]
    if text is not None:
        gen = ctx.dir / "C07_GenFull.v"
        for stale in (gen.with_suffix(".vo"), ctx.dir / "C07_GenFull_Properties.vo"):
            if stale.exists():
                stale.unlink()
        gen.write_text(text)
        rec["generated_definitions"] = len(re.findall(r"(?m)^\s*Definition gen_", text))
        script = COQ / "gen_proofs" / "C07_GenFull_Properties.v"
        bad = ctx.static_scan([gen, script, COQ / "lib" / "C07_TorchSem.v"])
        if bad:
            problems.append("forbidden declarations: %s" % bad[:5])
        rc, out = ctx.coq_make(["lib/C07_TorchSem.vo"])
        if rc != 0:
            problems.append("full tie: coq/lib/C07_TorchSem.v does not build:\n" + "\n".join(out.strip().splitlines()[-8:]))
        if not (ctx.dir / "C07_Gen.vo").exists():
            problems.append("full tie: build/C07/C07_Gen.vo (geometry translator) is missing")
        rc, out = sh(["timeout", "300", "coqc"] + COQ_FLAGS + xflags + [str(gen)], cwd=ctx.dir, timeout=330)
        if rc != 0:
            problems.append("full tie: generated file C07_GenFull.v does not compile:\n" + "\n".join(out.strip().splitlines()[-8:]))
        elif not problems:
            _RP_LOCK.acquire()
            saved_cmd, saved_problems = ctx.cov["checker_cmd"], ctx._proof_problems
            try:
                ok = ctx.require_proofs(props_name="C07_GenFull_Properties", props_path=script, extra_flags=xflags, make_targets=[])
                msg = "; ".join(ctx._proof_problems)
            finally:
                ctx.cov["checker_cmd"] = saved_cmd + "  ;  harness/translate_C07_full.py > build/C07/C07_GenFull.v && coqc " \
                                                     "C07_GenFull.v && coqc coq/gen_proofs/C07_GenFull_Properties.v"
                ctx._proof_problems = saved_problems
                _RP_LOCK.release()
            if not ok:
                m = re.search(r'line (\d+), characters', msg)
                lem = ""
                if m:
                    for i, line in enumerate(script.read_text().splitlines(), 1):
                        if i > int(m.group(1)):
                            break
                        mm = re.match(r"\s*(?:Lemma|Theorem|Example)\s+(\w+)", line)
                        if mm:
                            lem = mm.group(1)
                rec["broken_lemma"] = lem
                problems.append("full tie: what the current source of radon.py says no longer equals the model (fixed proof "
                                "script fails at `%s`): %s" % (lem, msg[:900]))
            else:
                tied = True
    # ---- translator cross-test (only meaningful when the script compiled: it defines gen_radon / gen_iradon)
    if tied:
        try:
            import random
            r = random.Random((int(ctx.seed) << 8) ^ 0xC07)     # private stream: this runs beside the main thread
            exprs, meta = [], []
            for size in [2, 4, 6, 10, 16, 30, 64]:
                exprs.append("kern (gen_filter_kernel %s)" % cz(size))
                meta.append(("kern", size))
                for name in FILTERS:
                    exprs.append("gprobe (fname_of %d) %s" % (FIDX[name], cz(size)))
                    meta.append(("probe", size, name))
            for n in (3, 4, 5, 6, 7, 8):
                theta = make_theta(["random", "special", "ends"][n % 3], 2, r.randrange(1 << 30))
                img, z = quantised_image(IMG_KINDS[n % 5], n, r.randrange(1 << 30))
                got = run_radon_port(img, theta)[0]
                exprs.append("gen_radcmp %s %d %s %s %s" % (cz(n), IMG_DEN, czrows(z), cangs(port_cs(theta)), cqrows(got)))
                meta.append(("radon", n, float(n * max(np.abs(img).max(), 1e-30))))
            for j, (N, circle, out, filt) in enumerate([(2, True, None, None), (3, True, None, None), (4, False, None, None),
                                                        (5, True, 7, None), (6, False, 3, None), (7, True, None, "hann"),
                                                        (8, False, None, "ramp"), (9, True, 6, "cosine")]):
                A = 1 + j % 3
                theta = make_theta(["random", "special", "uniform"][j % 3], A, r.randrange(1 << 30))
                A = len(theta)
                sn = make_sino("dyadic", N, theta, r.randrange(1 << 30))
                got = run_iradon_port(sn, theta, filt, circle, out)[0]
                S = sk_det(N, circle)[0]
                P = max(64, 1 << (2 * S - 1).bit_length())
                o = got.shape[-1]
                exprs.append("gen_ircmp %s %s %s %s %s %s %s 8 %s %s" % (
                    _hker_expr(filt, P, run_filter_port), cq(fr(math.pi)), cz(o), cz(A), cz(N), cbool(circle),
                    cangs(port_cs(theta)), czrows(np.rint(sn * 8).astype(int)), cqrows(got)))
                meta.append(("iradon", N, float(np.abs(sn).max())))
            vals = ctx.coq_eval("gentie", GEN_PRE, exprs, shard=max(1, len(exprs) // 10 + 1), extra_flags=xflags)
            n_x = bad_x = 0
            kern = {}
            for m, v in zip(meta, vals):
                if m[0] == "kern":
                    kern[m[1]] = v
                    continue
                n_x += 1
                if m[0] == "probe":
                    _, size, name = m
                    probes, r_even, r_odd = v
                    model = _gen_filter_values(kern[size], probes)
                    got = run_filter_port(size, name)
                    err = float(np.abs(model - got).max()) if model.shape == got.shape else float("inf")
                    odd_raises = False
                    try:
                        _mods()[4].get_fourier_filter_torch(size + 1, name)
                    except ValueError:
                        odd_raises = True
                    okc = err <= FILTER_ATOL and (not r_even) and bool(r_odd) == odd_raises
                    n_x += size - 1
                else:
                    shape, e60 = v
                    tol = (RADON_RTOL if m[0] == "radon" else IRADON_RTOL) * m[2]
                    okc = bool(shape) and float(e60) / Q60 <= tol
                if not okc:
                    bad_x += 1
                    problems.append("full tie: translator cross-test: the generated %s function evaluated on %s differs from "
                                    "the running code" % (m[0], m[1:]))
            rec["translator_cross_test"] = {"evaluations": n_x, "mismatches": bad_x}
            ctx.cov["traces_validated_against_impl"] += n_x
        except Exception as e:  # noqa
            problems.append("full tie: evaluation of the generated functions failed: %r" % (str(e)[:600],))
    rec["status"] = "tied by theorem" if (tied and not problems) else "broken"
    rec["wall_s"] = round(time.time() - t0, 2)
    if problems:
        rec["problems"] = [p[:1200] for p in problems]
        msg = "; ".join(problems)
        ctx.broken_obligation = (ctx.broken_obligation + "; " + msg) if ctx.broken_obligation else msg
        ctx.log("PROOF OBLIGATION BROKEN (full source tie):", msg[:2000])
    else:
        ctx.log("full source tie: get_fourier_filter_torch / radon_torch / iradon_torch as the current source states them "
                "tied by theorem to the model and to the scikit-image transcription (%d generated definitions; %s; %.1fs)"
                % (rec.get("generated_definitions", 0), rec.get("translator_cross_test"), rec["wall_s"]))



import threading as _threading
_RP_LOCK = _threading.Lock()
HK_BITS = 48


def _hker_expr(filt, P, impl):
    """inverse DFT of the implementation's own size-P filter, rounded to 2^-48"""
    if filt is None:
        return "delta_ker"
    H = impl(P, filt)
    h = np.real(np.fft.ifft(H))
    return "(hk %d %s)" % (1 << HK_BITS, "[" + "; ".join(str(int(round(float(x) * (1 << HK_BITS)))) for x in h) + "]%Z")


def check_iradon_corr(ctx: Ctx, geo, dtheta):
    r = ctx.rng
    cases = []
    Ns = [2, 3, 4, 5, 6, 7, 8, 9]
    for i in range(ctx.budget(18, 100)):
        N = Ns[i % len(Ns)]
        filt = FILTERS[(i // 2) % 6] if i % 3 else None
        tk = ["special", "random", "ends", "default", "uniform"][i % 5]
        A = 2 if tk == "ends" else r.choice([1, 2, 3])
        cases.append({"N": N, "filter": filt, "circle": i % 4 != 3, "theta_kind": tk, "A": A,
                      "seed": r.randrange(1 << 30)})
    exprs = []
    for c in cases:
        N, A = c["N"], c["A"]
        theta = make_theta(c["theta_kind"], A, c["seed"])
        if theta is None:   # the port's default angles are taken from the MODEL; the call passes theta=None
            th_port = np.asarray(dtheta[A], dtype=np.float32).astype(np.float64)
            th_sk = np.linspace(0, 180, A, endpoint=False)
        else:
            th_port = th_sk = theta
        s = make_sino("dyadic", N, th_sk, c["seed"])
        rows = czrows(np.rint(s * 8).astype(int))
        diag, pb, Pc, Pn, outn, pS, ppb, pP = geo[N]
        P_sk = Pc if c["circle"] else Pn
        P_port = pP if c["circle"] else Pn
        pi = cq(fr(math.pi))
        exprs.append("(ir_port %s %s %s %s %s %s 8 %s, ir_sk %s %s %s %s %s %s 8 %s)" % (
            _hker_expr(c["filter"], P_port, run_filter_port), pi, cz(A), cz(N), cbool(c["circle"]), cangs(port_cs(th_port)), rows,
            _hker_expr(c["filter"], P_sk, run_filter_sk), pi, cz(A), cz(N), cbool(c["circle"]), cangs(sk_cs(th_sk)), rows))
    vals = ctx.coq_eval("iradon", PRE, exprs, shard=max(1, len(exprs) // 12 + 1))
    nd = 0
    for c, v in zip(cases, vals):
        N, A = c["N"], c["A"]
        theta = make_theta(c["theta_kind"], A, c["seed"])
        th_sk = np.linspace(0, 180, A, endpoint=False) if theta is None else theta
        s = make_sino("dyadic", N, th_sk, c["seed"])
        mp, ms = unq(v[0]), unq(v[1])
        got = run_iradon_port(s, theta, c["filter"], c["circle"])[0]
        ref = run_iradon_sk(s, theta, c["filter"], c["circle"])
        ok = well_conditioned(N, theta if theta is not None else th_sk, c["circle"], None)
        scale = float(np.abs(s).max())
        ctx.cov["traces_validated_against_impl"] += 2
        ctx.count(("iradon-corr", N, c["filter"], c["circle"], c["theta_kind"], A, c["seed"]), nontrivial=N >= 3)
        ctx.dist("corr-iradon/%s/%s" % (c["filter"] or "none", "circle" if c["circle"] else "nocircle"))
        e_sk = float(np.where(ok, np.abs(ms - ref), 0).max()) if ms.shape == ref.shape else float("inf")
        e_port = float(np.where(ok, np.abs(mp - got), 0).max()) if mp.shape == got.shape else float("inf")
        if not e_sk <= 1e-7 * scale:
            nd += 1
            ctx.violation("spec-model-correspondence",
                          "the Coq transcription of skimage.iradon and skimage.iradon disagree: N=%d filter %r circle=%s "
                          "angles %s: max difference %.3g" % (N, c["filter"], c["circle"], _short_theta(theta), e_sk),
                          {"kind": "iradon-corr", "case": c, "model": ms.tolist(), "impl": ref.tolist()}, found_input=False)
        if not e_port <= IRADON_RTOL * scale:
            nd += 1
            bad = oracle_iradon({"N": N, "filter": c["filter"], "circle": c["circle"], "sino_kind": "dyadic",
                                 "theta_kind": c["theta_kind"], "A": A, "seed": c["seed"]})
            ctx.cov["disagreements_checked"] += 1
            ctx.violation("iradon-correspondence",
                          "the model of iradon_torch (port_iradon_image repaired: padded detector, FFT size, "
                          "interpolation indices/weights, circle mask, pi/(2A)) and iradon_torch disagree: N=%d filter %r "
                          "circle=%s angles %s: max difference %.3g — the back-projection theorems no longer speak about "
                          "this code" % (N, c["filter"], c["circle"], _short_theta(theta), e_port),
                          {"kind": "iradon-corr", "case": c, "model": mp.tolist(), "impl": got.tolist()},
                          found_input=bad is not None)
    ctx.sample({"kind": "iradon-corr", "case": cases[1], "note": "model reconstructions (both) within tolerance of both implementations"})
    ctx.log("iradon correspondence: %d cases x 2 implementations, %d disagreements" % (len(cases), nd))


# ------------------------------------------------------------------------------------------


def run(ctx: Ctx):
    ctx.hash_sources("tomography/radon/radon.py", ["radon_torch", "iradon_torch", "get_fourier_filter_torch"])
    ctx.hash_sources("tomography/tomography_conv.py", ["TomographyConv._sirt_run_epoch"])
    ctx.cov["rule"] = (
        "oracle cases: radon — every size 2..65 (odd/even) x image kind (smooth, uniform noise at amplitudes 1e-3..100, "
        "binary blocks, impulses incl. the disc's boundary pixels, dyadic) x angle set (special multiples of 15/45/90, "
        "uniform, sorted random, unsorted random, {0,180}, default arange(180), repeated angles, float64 tensors of "
        "non-float32 angles, int64 tensors); float64 images; theta=0 column sums; batches of 1,2,3,5 of DIFFERENT images "
        "vs per-image and vs skimage; linear combinations. filters — 6 names x even sizes (2..66, the padded sizes "
        "64/128/256[/512/1024], random up to 600). iradon — every N 2..65 x 6 filters x angle sets incl. theta=None x "
        "sinogram kind (skimage radon of an image, noise, impulses at the detector ends, constant ones, dyadic) x "
        "{circle=True, circle=False, smaller output_size, LARGER output_size}; padded-FFT-size cases in every run: "
        "N = 22, 45 (circle) and 32, 64 (no circle) x the four windowed filters, and EVERY width 1..160[..400] x "
        "circle/not with hann/hamming; float64 sinograms, float64/int64 angle tensors; batches; linear combinations. "
        "caller — Tomography.sirt_recon(num_iterations=1) (tomography_conv.py) vs the same composition with skimage, "
        "6[40] cases over sizes / filters / float64 tilt angles. correspondence cases: the WHOLE exact-Q model "
        "sinograms evaluated and compared inside Coq against both implementations (n = 2..16, 21, 22, 32, 33[, 45, 48, "
        "64]); exact-Q reconstructions / filters vs both implementations on dyadic inputs (N = 2..9, filter sizes "
        "2..128[..512]), integer geometry N = 1..99[..399]; the geometry of the CURRENT source re-translated and tied by "
        "theorem for every N, and the rest of radon.py (filter construction, sampling grid, back-projection term) "
        "re-translated and tied by theorem for all arguments, the generated functions executed on ~800 inputs against "
        "the running code. call HISTORIES — 6[40] sequences of ~47 calls in one process (all filter names x two sizes "
        "per padded FFT size 64 / 128, iradon over widths sharing that padded size x filters x circle x angle sets x "
        "float32/float64, radon with repeated / changed sizes, angle sets and dtypes, batches, the SAME tensor objects "
        "handed to several calls; shuffled, every filter step repeated after all others), each step judged against "
        "scikit-image; a failing step is re-run in a fresh interpreter to tell a history-dependent failure from a "
        "plain one. AMPLITUDE SCALE — 60[500] cases: the same image / sinogram x c = m 10^k, k = -12..12, float32 / "
        "float64, every filter, circle or not, sizes 2..40: homogeneity f(c x) = c f(x), agreement with scikit-image on "
        "c x, and a batch of 2-4 entries of different amplitudes (the scaled array, an O(1) array, random decades) = "
        "the per-image calls, every clause relative to the amplitude of the entry judged. "
        "A case is distinct by (kind, size, image/sinogram kind, angle kind and count, filter, "
        "circle, output size, dtype, seed); non-trivial when size >= 3 (filters: name is not None)")
    ctx.assumptions += [
        "scikit-image 0.26 (skimage.transform.radon / iradon / _get_fourier_filter, float64) is the reference the "
        "property names; its Coq transcription is itself validated against it on every run (spec-model-correspondence)",
        "torch.nn.functional.grid_sample(bilinear, zeros, align_corners=True) and skimage.transform.warp(order=1, "
        "cval=0) are the same bilinear sampler (Section variable `sample` with the laws sampler_proper / "
        "sampler_linear / sampler_on_grid; the Coq `bilinear` satisfies them and reproduces both numerically)",
        "torch.fft / scipy.fft compute the DFT, so that multiplying the spectrum by the filter is the circular "
        "convolution with the filter's inverse DFT (abstract kernel `hker` in the iradon theorems)",
        "sin / cos / sinc are abstract functions of exactly specified rational multiples of pi (laws: properness, "
        "cos(x - pi) = -cos x); float32 rounding is not modelled: agreement is to the stated tolerances",
        "iradon reconstructions are compared where np.interp(left=0,right=0) is continuous (detector coordinate more "
        "than 1e-3 from both detector ends); for circle=True with the default size that is every pixel "
        "(C07_backproj_in_range)",
    ]
    ctx.cov["trusted_base"] += [
        "Coq 8.16.1 kernel incl. vm_compute (used to run the models); no native_compute",
        "hand-written models coq/model/C07_Model.v (port and scikit-image transcription) tied to both code bases by "
        "this correspondence run",
        "harness/props/C07.py (generators, tolerances, Python->Coq printers, 2^-40 fixed-point glue), harness/common.py",
        "numpy.fft (ramp kernel -> frequency response, filter -> impulse response in the correspondence)",
        "harness/translate_C07.py (Python ast -> Gallina for the integer geometry of iradon_torch; fail-closed grammar; "
        "the idioms int(ceil(sqrt(2) N)), int(floor(sqrt(N**2/2))), int(2**ceil(log2(2N))) are read as exact real "
        "arithmetic — float64 sqrt / float32 log2 round correctly for the widths compared numerically on every run, "
        "N <= 400; cross-tested against the sizes the running code passes to get_fourier_filter_torch, N = 1..200)",
        "harness/translate_C07_full.py (symbolic execution of get_fourier_filter_torch / radon_torch / iradon_torch, "
        "fail closed) with the FIXED MEANINGS it gives to torch calls, listed in its docstring and defined in "
        "coq/lib/C07_TorchSem.v + the model's torch_arange / fftfreq / fftshift_src / unnormalize_ac / clampZ: arange, "
        "cat, zeros, meshgrid(ij|xy), stack(-1), matmul, transpose, grid_sample(bilinear, zeros, align_corners=True), "
        "squeeze/sum over [B,row,col], floor, clamp, gather, tensor*bool, linspace, fftfreq, fftshift, hamming/hann "
        "window(periodic), sin/cos of rational multiples of pi, sin(x)/x, 2 real(fft f) = rampF; view / reshape / "
        "flatten / expand / unsqueeze with arguments among {B, 1, -1, N, out, 2} read as batch / row-major re-shapes; "
        "the FFT filtering pipeline is tied structurally (provenance term) and by its sizes, its numerics are the "
        "convolution contract above; cross-tested on every run (filters 7 sizes x 6 names x every index, 6 sinograms, "
        "8 reconstructions evaluated from the generated definitions against the running code)",
    ]
    # the proof obligations (12 s of coqc, mostly Print Assumptions) are checked while the oracle runs; the two source
    # ties (translate -> coqc generated file -> coqc fixed script, twice) follow in the same background thread and run
    # in parallel with the correspondence evaluations
    import threading
    built = threading.Event()

    def background():
        try:
            ctx.proofs_or_violation()
        finally:
            built.set()
        def guarded(what, job):
            try:
                job()
            except Exception as e:  # noqa  (fail closed)
                msg = "%s could not run: %r" % (what, e)
                ctx.broken_obligation = (ctx.broken_obligation + "; " + msg) if ctx.broken_obligation else msg
        pre = {"defs": None, "problems": ["geometry tie could not run"], "compiled": False}
        try:
            pre = prebuild_geometry_gen(ctx)
        except Exception as e:  # noqa
            pre["problems"] = ["geometry tie could not run: %r" % (e,)]
        full = threading.Thread(target=guarded, args=("full source tie", lambda: check_full_tie(ctx)))
        full.start()
        guarded("geometry tie", lambda: check_geometry_tie(ctx, None, pre))
        full.join()
    th = threading.Thread(target=background)
    th.start()
    try:
        _mods()
        check_oracle(ctx)
        try:
            record_outside_domain(ctx)
        except Exception as e:  # noqa  (never judged)
            ctx.log("record_outside_domain failed: %r" % (e,))
        built.wait()
        check_radon_corr(ctx)
        check_filter_corr(ctx)
        geo, dth = check_geometry_corr(ctx)
        check_iradon_corr(ctx, geo, dth)
    finally:
        th.join()


def replay(ctx: Ctx, path):
    rp = json.loads(open(path).read())
    kind = rp.get("kind")
    if kind == "oracle":
        case = dict(rp["case"])
        res = ORACLES[case["kind"]](case)
        print("case:", json.dumps(_public(case)))
        if case["kind"] in ("radon", "iradon"):
            theta = make_theta(case["theta_kind"], case["A"], case["seed"])
            print("angles (degrees):", "None (library default)" if theta is None else theta.tolist())
        for k, v in _concrete(case).items():
            if k != "theta_degrees":
                print("%s:" % k)
                print(np.array2string(np.asarray(v), precision=4, max_line_width=160))
        if res is None:
            print("oracle: property holds on this case", {k: v for k, v in case.items() if k.startswith("_")})
            return 0
        print("oracle [%s]: %s" % (res[0], res[1]))
        return 1
    if kind in ("radon-corr", "iradon-corr", "filter-corr", "geom"):
        print("correspondence case %s: %s" % (kind, json.dumps({k: v for k, v in rp.items() if k in ("case", "size", "filter", "N", "A", "side")})))
        c = rp.get("case") or {}
        res = None
        if kind == "radon-corr":
            res = oracle_radon(dict(c)) if "n" in c else None
        elif kind == "iradon-corr":
            res = oracle_iradon({"N": c["N"], "filter": c["filter"], "circle": c["circle"], "sino_kind": "dyadic",
                                 "theta_kind": c["theta_kind"], "A": c["A"], "seed": c["seed"]})
        elif kind == "filter-corr":
            res = oracle_filter({"size": rp["size"], "filter": rp["filter"]})
        print("what:", rp.get("what"))
        print("oracle on this case:", "[%s] %s" % (res[0], res[1]) if res else "property holds (model/implementation tie broken)")
        return 1 if res else 0
    print("replay of kind %r: re-run ./check C07" % kind)
    return 0
