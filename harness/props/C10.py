"""C10 — object and probe constraints always yield physically admissible models.

Theorems: coq/props/C10_Properties.v (objects over Q in amplitude/phase form, potentials over Q,
Gram-Schmidt over Q(i) = Qc*Qc with the normalise-and-restore step as a squared scale, mode
weights over Qc).  Tie to /repo on every run:

* oracle — the clauses of the property text evaluated directly on what the REAL classes hand to
  the forward model: ObjectPixelated.obj (complex / pure_phase / potential, 1-4 slices, random
  raw tensors of any magnitude and phase, constraint dictionaries without smoothing filters, FOV
  masks in [0,1]), the tomography ObjectVoxelwise.obj, ProbePixelated.probe (1-5 linearly
  independent modes, pairwise correlation up to 0.99) and ProbePixelated.initial_probe (requested
  weights, mean intensities), plus a few complete toy Ptychography objects (observation points
  obj_model.obj / probe_model.probe / probe_model.initial_probe in situ, real FOV mask, mean
  intensity measured independently from the data);
* correspondence — the exact Coq model (vm_compute) against the implementation on dyadic inputs:
  hard_polar / hard_potential / tie_if / tomo_hard entrywise, `orthogonalize` through
  sqrt(s_i) * u_i computed here from the model's rationals, apply_weights / weight_scales.

Round 3 (coverage extension): the wrappers ObjectDIP / ProbeDIP / ProbeParametric / tomography
ObjectDIP through their public constructors (a pass-through network whose output is a free
parameter tensor), soft-constraint entries in the constraint dictionaries (must not change the
object), center_probe (one common shift: orthogonality survives), the clamp_min branch of the
orthogonalisation (zero modes, exactly dependent modes, modes shorter than 1e-12) and ties in the
mode intensities against `orthogonalize_c eps2_code`, zero / all-negative requested weights, every
tomography combination (negative and zero shrinkage, ignored dictionary keys, soft tv_vol).
"""
from __future__ import annotations

import json
import math
import re
from fractions import Fraction

import numpy as np

from ..common import Ctx, parse_coq_value

LEVEL = "proof"

PRE = """From QV.lib Require Import Prelude C10_Cplx.
From QV.model Require Import C10_Model.
From Coq Require Import QArith Qcanon Qround.
Local Close Scope Q_scope.
Definition showq (q : Q) : list Z := let r := Qred q in [Qnum r; Zpos (Qden r)].
Definition mkcfg (pos fb : bool) (bf : Q) (ids afm : bool) : ocfg :=
  {| positivity := pos; fix_baseline := fb; baseline_factor := bf; identical_slices := ids;
     apply_fov_mask := afm |}.
Definition polar_case (ty : obj_type) (cfg : ocfg) (mask : option (list Q)) (obj : list (list polar)) :=
  map (map (fun p : polar => (showq (fst p), showq (snd p)))) (hard_polar ty cfg mask obj).
Definition pot_case (cfg : ocfg) (mask : option (list Q)) (obj : list (list Q)) :=
  map (map showq) (hard_potential cfg mask obj).
Definition tie_case (ids : bool) (xs : list (list Q)) :=
  map (map showq) (tie_if (mkcfg true false 1 ids false) xs).
Definition tomo_case (pos : bool) (shrink : option Q) (obj : list Q) := map showq (tomo_hard pos shrink obj).
(* Gaussian integers -> Q(i);  fixed-point rendering floor(x * 2^44) of the exact rationals *)
Definition zc (ab : Z * Z) : C := (Q2Qc (inject_Z (fst ab)), Q2Qc (inject_Z (snd ab))).
Definition fx (q : Qc) : Z := Qfloor (Qmult (this q) (inject_Z (2 ^ 44))).
Definition gs_case (ps : list (list (Z * Z))) :=
  map (fun m : Qc * list C => (fx (fst m), showq (this (mode_intensity m)),
                               map (fun z : C => (fx (fst z), fx (snd z))) (snd m)))
      (orthogonalize (map (map zc) ps)).
Definition w_case (mean : Q) (raw I : list Q) :=
  let w := norm_weights (map Q2Qc raw) in
  (map (fun x => showq (this x)) (apply_weights (Q2Qc mean) w (map Q2Qc I)),
   map (fun x => showq (this x)) (weight_scales (Q2Qc mean) w (map Q2Qc I))).
(* round 3: the orthogonalisation WITH the clamp_min guard (orthogonalize_c eps2_code), exact output.
   Gaussian integers scaled by 2^-sh; per output mode (s, intensity, u) as exact rationals; per input
   mode the flags (residual = 0, residual >= eps) of the UNCLAMPED Gram-Schmidt residuals *)
Definition zcs (sh : Z) (ab : Z * Z) : C :=
  (Q2Qc (Qdiv (inject_Z (fst ab)) (inject_Z (2 ^ sh))), Q2Qc (Qdiv (inject_Z (snd ab)) (inject_Z (2 ^ sh)))).
Definition gs_flags (vs : list (list C)) :=
  map (fun u => (qc_leb (norm2 u) 0, qc_leb eps2_code (norm2 u))) (gs vs).
Definition gsc_case (sh : Z) (ps : list (list (Z * Z))) :=
  let vs := map (map (zcs sh)) ps in
  (map (fun m : Qc * list C => (showq (this (fst m)), showq (this (mode_intensity m)),
                               map (fun z : C => (showq (this (fst z)), showq (this (snd z)))) (snd m)))
       (orthogonalize_c eps2_code vs),
   gs_flags vs,
   map (fun pu => showq (this (kept_intensity (fst pu) (snd pu)))) (combine vs (gs vs))).
(* Gaussian-integer stacks with zero modes: fixed-point rendering as gs_case *)
Definition gscf_case (ps : list (list (Z * Z))) :=
  let vs := map (map zc) ps in
  (map (fun m : Qc * list C => (fx (fst m), showq (this (mode_intensity m)),
                               map (fun z : C => (fx (fst z), fx (snd z))) (snd m)))
       (orthogonalize_c eps2_code vs),
   gs_flags vs).
Open Scope Q_scope.
"""

TYPES = ["complex", "pure_phase", "potential"]
COQ_TY = {"complex": "Complex", "pure_phase": "PurePhase", "potential": "Potential"}

# ---- tolerances (complex64 / float32 implementation against float64 / exact references)
# |amp * exp(i phi)| in complex64: cos^2 + sin^2 and one product round -> a few 1e-7.  Margin x10.
AMP_TOL = 3e-6
# amplitude of a re-applied constraint against the amplitude of the first application
IDEM_TOL = 5e-6
# Gram-Schmidt in complex64 on modes with pairwise correlation <= 0.99 (condition number of the
# mode matrix <= ~25): measured worst normalised off-diagonal Gram entry over 9000 generated
# stacks 2.3e-6 (margin x90); intensities are restored by one division and one product: measured
# worst relative change 4.6e-7, worst total-intensity error 4.6e-7, worst weight error 1.1e-7.
# Measured worst amplitude error 4.3e-8 (AMP_TOL margin x70), re-application 8.6e-8 (x58).
ORTH_TOL = 2e-4
INT_TOL = 1e-4
# correspondence of complex64 results with the exact model (stated in DESIGN: rel. 1e-4)
CORR_TOL = 1e-4
OBJ_CORR_TOL = 2e-5      # unit-scale complex pixels: angle() and exp() in float32
POT_CORR_TOL = 1e-5


WORST: dict = {}


def worst(name, value, tol):
    """largest observed error per comparison (written to the evidence next to its tolerance)"""
    v = float(value)
    if v != v:
        v = float("inf")
    w = WORST.setdefault(name, {"worst": 0.0, "tolerance": tol})
    if v > w["worst"]:
        w["worst"] = v


# ------------------------------------------------------------------------------------------
# glue

def coq_vals(ctx: Ctx, name, exprs, shard):
    raw = ctx.coq_eval(name, PRE, exprs, shard=shard, parse=False)
    out = []
    for v in raw:
        v = re.sub(r"\s+", " ", v)
        v = re.sub(r"\(\s*(-\d+)\s*\)\s*%Z", r"\1", v)
        v = re.sub(r"%[ZQ]\b", "", v)
        out.append(parse_coq_value(v))
    return out


def qlit(x) -> str:
    fr = Fraction(x)
    if fr.denominator == 1:
        return "(%d#1)" % fr.numerator
    return "(%d#%d)" % (fr.numerator, fr.denominator)


def qlist(xs) -> str:
    return "[" + "; ".join(qlit(x) for x in xs) + "]"


def fr_of(v) -> Fraction:
    return Fraction(int(v[0]), int(v[1]))


def np_rng(r):
    return np.random.default_rng(r.randrange(1 << 32))


def f32(x):
    return float(np.float32(x))


# ------------------------------------------------------------------------------------------
# objects: running the implementation

def case_raw(case):
    S, H, W = case["shape"]
    if case["ty"] == "potential":
        return np.array(case["raw"], dtype=np.float32).reshape(S, H, W)
    return (np.array(case["raw_re"], dtype=np.float32) + 1j * np.array(case["raw_im"], dtype=np.float32)
            ).astype(np.complex64).reshape(S, H, W)


_PASS = {}


def passthrough(raw):
    """a 'network' for the DIP wrappers whose output is a free parameter tensor (so that any raw value
    can be what the optimiser has driven the model to): forward(x) = 0 * x + raw"""
    import torch
    if "cls" not in _PASS:
        class Passthrough(torch.nn.Module):
            def __init__(self, raw):
                super().__init__()
                self.raw = torch.nn.Parameter(torch.as_tensor(raw))
                self.dtype = self.raw.dtype          # the quantem network blocks carry .dtype

            def forward(self, x):
                return x * 0 + self.raw[None]
        _PASS["cls"] = Passthrough
    return _PASS["cls"](raw)


def obj_model(case, raw=None, cfg=None):
    """the object model of the case: ObjectPixelated (from_array -> reset) or, case['wrap'] == 'dip',
    ObjectDIP.from_model around a pass-through network; mask and constraints set through the setters"""
    import torch
    from quantem.diffractive_imaging.object_models import ObjectDIP, ObjectPixelated
    S, H, W = case["shape"]
    raw = case_raw(case) if raw is None else raw
    cfg = dict(case["cfg"] if cfg is None else cfg)
    if case.get("wrap") == "dip":
        t = torch.as_tensor(raw)
        om = ObjectDIP.from_model(passthrough(raw), torch.zeros((S, H, W), dtype=t.dtype), num_slices=S,
                                  slice_thicknesses=2.0, obj_type=case["ty"], input_noise_std=0.0)
    else:
        om = ObjectPixelated.from_array(raw, obj_type=case["ty"], slice_thicknesses=2.0)
        om.reset()
    om.constraints = cfg
    if case["mask"] is not None:
        om.mask = np.array(case["mask"], dtype=np.float32).reshape(H, W)
    return om, cfg


def obj_out(case, raw=None, cfg=None):
    """what the object model hands to the forward model: ObjectPixelated.obj / ObjectDIP.obj (public
    route: constructor -> mask setter -> constraints setter -> obj)"""
    om, cfg = obj_model(case, raw, cfg)
    if case["mask"] is not None:
        out = om.obj
    elif case["ty"] == "potential" and cfg.get("fix_potential_baseline"):
        # no FOV mask configured: the `mask is None` branch is only reachable by the direct call
        out = om.apply_hard_constraints(om._obj, mask=None)
    else:
        out = om.obj
    return out.detach().cpu().numpy().copy()


SOFT_KEYS = ("tv_weight_z", "tv_weight_xy", "surface_zero_weight")


def obj_soft_check(case, out):
    """soft-constraint entries are loss terms: neither their presence in the dictionary nor
    evaluating them may change the object handed to the forward model -> list of (key, what)"""
    import warnings
    cfg = case["cfg"]
    if not any(cfg.get(k) for k in SOFT_KEYS) or (case["mask"] is None and case["ty"] == "potential"
                                                 and cfg.get("fix_potential_baseline")):
        return []
    bad = []
    hard = {k: v for k, v in cfg.items() if k not in SOFT_KEYS and k != "butterworth_order"}
    ref = obj_out(case, cfg=hard)
    if not np.array_equal(ref, out, equal_nan=True):
        bad.append(("soft-constraint-changes-object", "the soft-constraint entries %s change obj_model.obj (max |diff| %g)"
                    % ({k: cfg.get(k) for k in SOFT_KEYS}, float(np.nanmax(np.abs(ref - out))))))
    om, _ = obj_model(case)
    with warnings.catch_warnings():
        warnings.simplefilter("ignore")
        loss = om.apply_soft_constraints(om.obj, om.mask)
    again = om.obj.detach().cpu().numpy()
    if not np.array_equal(again, out, equal_nan=True):
        bad.append(("soft-constraint-changes-object", "evaluating apply_soft_constraints (loss %r) changes obj_model.obj "
                    "(max |diff| %g)" % (float(loss), float(np.nanmax(np.abs(again - out))))))
    return bad


def obj_oracle(case, out=None):
    """the property text on the implementation's output -> list of (key, what)"""
    bad = []
    ty, cfg = case["ty"], case["cfg"]
    S, H, W = case["shape"]
    if out is None:
        out = obj_out(case)
    if out.shape != (S, H, W):
        return [("object-shape", "obj has shape %s for raw parameters of shape %s" % (out.shape, (S, H, W)))]
    tied = bool(cfg["identical_slices"]) and S > 1
    if tied and not all(np.array_equal(out[0], out[k]) for k in range(1, S)):
        k = next(k for k in range(1, S) if not np.array_equal(out[0], out[k]))
        bad.append(("slices-not-identical", "identical_slices requested but slice 0 and slice %d differ (max |diff| %g)"
                    % (k, float(np.abs(out[0] - out[k]).max()))))
    if ty == "potential":
        if cfg["positivity"] and not bool(np.all(out >= 0)):
            bad.append(("potential-negative", "potential object under positivity has value %r (offset/baseline %s, mask %s)"
                        % (float(np.nanmin(out)) if not np.isnan(out).all() else float("nan"),
                           cfg["fix_potential_baseline"], "applied" if cfg["apply_fov_mask"] and case["mask"] else "not applied")))
        return bad
    if tied:
        return bad          # slice tying is only claimed to tie slices
    amp = np.abs(out.astype(np.complex128))
    masked = bool(cfg["apply_fov_mask"]) and case["mask"] is not None
    m = np.broadcast_to(np.array(case["mask"], dtype=np.float64).reshape(1, H, W), (S, H, W)) if masked else np.ones((S, H, W))
    worst("object amplitude (oracle)", np.max(amp - 1) if ty == "complex" else np.max(np.abs(amp - 1)), AMP_TOL)
    if ty == "complex":
        if not bool(np.all(amp <= 1 + AMP_TOL)):
            i = np.unravel_index(int(np.nanargmax(np.where(np.isnan(amp), np.inf, amp))), amp.shape)
            bad.append(("complex-amplitude-above-one", "complex object has amplitude %.9g > 1 at %s (raw amplitude %.6g, mask %s)"
                        % (float(amp[i]), tuple(int(t) for t in i), float(np.abs(case_raw(case)[i])), float(m[i]) if masked else None)))
    else:
        dev = ~(np.abs(amp - 1) <= AMP_TOL)
        if bool(dev.any()):
            i = tuple(int(t) for t in np.argwhere(dev)[0])
            only_masked = masked and bool(np.all(m[dev] < 1))
            bad.append(("pure-phase-amplitude-fov-mask" if only_masked else "pure-phase-amplitude-not-one",
                        "pure-phase object has amplitude %.9g at %s%s" % (
                            float(amp[i]), i,
                            " where the applied FOV mask is %.6g (amplitude = mask^%.3g): the mask is multiplied into the "
                            "amplitude" % (float(m[i]), math.log(max(float(amp[i]), 1e-300)) / math.log(float(m[i])) if 0 < m[i] < 1 else float("nan"))
                            if only_masked else "")))
    # applying the constraint to the already constrained object does not change its amplitude
    out2 = obj_out(case, raw=out.astype(np.complex64))
    amp2 = np.abs(out2.astype(np.complex128))
    ch = ~(np.abs(amp2 - amp) <= IDEM_TOL)
    if not (ty == "complex" and masked and bool(np.any((m > 0) & (m < 1)))):
        worst("re-applied amplitude (oracle)", np.max(np.abs(amp2 - amp)), IDEM_TOL)
    if bool(ch.any()):
        i = tuple(int(t) for t in np.argwhere(ch)[0])
        frac = masked and bool(np.all((m[ch] > 0) & (m[ch] < 1)))
        if ty == "complex" and frac:
            key = "complex-fov-mask-reapplication"
        elif ty == "pure_phase" and masked and bool(np.all(m[ch] < 1)):
            key = "pure-phase-amplitude-fov-mask"
        else:
            key = "amplitude-not-idempotent"
        bad.append((key, "re-applying the %s constraint changes the amplitude at %s from %.9g to %.9g%s"
                    % (ty, i, float(amp[i]), float(amp2[i]), " (applied FOV mask %.6g there)" % float(m[i]) if masked else "")))
    return bad


# ------------------------------------------------------------------------------------------
# objects: generators

def gen_mask(r, g, H, W, dyadic=False):
    kind = r.choice(["none", "ones", "binary", "soft", "soft", "edge"])
    if kind == "none":
        return None, kind
    if kind == "ones":
        m = np.ones((H, W))
    elif kind == "binary":
        m = (g.random((H, W)) < 0.6).astype(float)
    elif kind == "soft":
        m = g.random((H, W))
        m[g.random((H, W)) < 0.15] = 0.0
        m[g.random((H, W)) < 0.15] = 1.0
    else:   # a blurred edge like the real FOV mask
        x = np.linspace(-2, 2, W)[None, :] + np.linspace(-1, 1, H)[:, None] * g.uniform(-1, 1)
        m = np.clip(0.5 + 0.5 * np.tanh(2 * x), 0, 1)
    if dyadic:
        m = np.round(m * 8) / 8
    return [f32(v) for v in m.ravel()], kind


def gen_cfg(r, masked_possible):
    cfg = {"positivity": r.random() < 0.7,
           "fix_potential_baseline": r.random() < 0.5,
           "fix_potential_baseline_factor": r.choice([1.0, 1.0, 0.5, 0.25, 0.0, 1.5]),
           "identical_slices": r.random() < 0.35,
           "apply_fov_mask": masked_possible and r.random() < 0.75}
    if r.random() < 0.35:
        # soft constraints and the filter order WITHOUT a filter (q_lowpass = q_highpass = None): loss terms only
        cfg.update({"tv_weight_z": r.choice([0, 0.1, 1.0]), "tv_weight_xy": r.choice([0, 0.05, 2.0]),
                    "surface_zero_weight": r.choice([0, 0.3]), "butterworth_order": r.choice([2, 4, 6])})
    return cfg


def gen_obj_case(r):
    g = np_rng(r)
    ty = r.choice(TYPES)
    S = r.choice([1, 1, 2, 3, 4])
    H, W = r.randint(1, 6), r.randint(1, 6)
    n = S * H * W
    mask, mkind = gen_mask(r, g, H, W)
    case = {"kind": "obj", "ty": ty, "shape": [S, H, W], "mask": mask, "mask_kind": mkind, "cfg": gen_cfg(r, mask is not None),
            "wrap": r.choice(["pixelated", "pixelated", "pixelated", "dip"])}
    mag = r.choice(["unit", "large", "small", "mixed", "extreme"])
    case["mag_kind"] = mag
    if mag == "unit":
        a = g.uniform(0, 2, n)
    elif mag == "large":
        a = 10 ** g.uniform(0, 4, n)
    elif mag == "small":
        a = 10 ** g.uniform(-6, 0, n)
    elif mag == "mixed":
        a = g.uniform(0, 3, n)
        a[g.random(n) < 0.2] = 0.0
        a[g.random(n) < 0.2] = 1.0
    else:
        a = 10 ** g.uniform(-30, 30, n)
    if ty == "potential":
        v = a * g.choice([-1.0, 1.0], n) if mag != "extreme" else a * g.choice([-1.0, 1.0], n)
        case["raw"] = [f32(x) for x in v]
    else:
        ph = g.uniform(-math.pi, math.pi, n) if r.random() < 0.7 else g.normal(0, 10, n)
        z = a * np.exp(1j * ph)
        case["raw_re"] = [f32(x) for x in z.real]
        case["raw_im"] = [f32(x) for x in z.imag]
    return case


def gen_obj_dyadic(r):
    """dyadic amplitude / phase / mask / potential values: the exact model applies"""
    g = np_rng(r)
    ty = r.choice(TYPES)
    S = r.choice([1, 2, 2, 3])
    H, W = r.randint(1, 4), r.randint(1, 4)
    n = S * H * W
    mask, mkind = gen_mask(r, g, H, W, dyadic=True)
    cfg = gen_cfg(r, mask is not None)
    case = {"kind": "objd", "ty": ty, "shape": [S, H, W], "mask": mask, "mask_kind": mkind, "cfg": cfg,
            "wrap": r.choice(["pixelated", "pixelated", "dip"])}
    if ty == "potential":
        case["raw"] = [r.randint(-32, 32) / 8 for _ in range(n)]
    else:
        amp = [r.choice([0, 1, 2, 4, 6, 7, 8, 8, 9, 12, 16, 24]) / 8 for _ in range(n)]
        ph = [(r.randint(-48, 48) / 16) if a else 0.0 for a in amp]       # |phase| <= 3 < pi: no wrap
        case["amp"], case["ph"] = amp, ph
        z = np.array(amp) * np.exp(1j * np.array(ph))
        case["raw_re"] = [f32(x) for x in z.real]
        case["raw_im"] = [f32(x) for x in z.imag]
    return case


def cfg_expr(cfg):
    return "(mkcfg %s %s %s %s %s)" % (
        "true" if cfg["positivity"] else "false", "true" if cfg["fix_potential_baseline"] else "false",
        qlit(Fraction(cfg["fix_potential_baseline_factor"])), "true" if cfg["identical_slices"] else "false",
        "true" if cfg["apply_fov_mask"] else "false")


def mask_expr(case):
    return "None" if case["mask"] is None else "(Some %s)" % qlist(Fraction(v) for v in case["mask"])


def objd_expr(case):
    S, H, W = case["shape"]
    px = H * W
    if case["ty"] == "potential":
        sl = ["[" + "; ".join(qlit(Fraction(v)) for v in case["raw"][k * px:(k + 1) * px]) + "]" for k in range(S)]
        return "pot_case %s %s [%s]" % (cfg_expr(case["cfg"]), mask_expr(case), "; ".join(sl))
    sl = ["[" + "; ".join("(%s, %s)" % (qlit(Fraction(a)), qlit(Fraction(p))) for a, p in
                          zip(case["amp"][k * px:(k + 1) * px], case["ph"][k * px:(k + 1) * px])) + "]" for k in range(S)]
    return "polar_case %s %s %s [%s]" % (COQ_TY[case["ty"]], cfg_expr(case["cfg"]), mask_expr(case), "; ".join(sl))


def objd_prepare(case):
    """run the implementation; returns (observables, [coq exprs])"""
    S, H, W = case["shape"]
    cfg = case["cfg"]
    tied = cfg["identical_slices"] and S > 1
    obs = {"out": obj_out(case)}
    exprs = [objd_expr(case)]
    if case["ty"] != "potential" and tied:
        # the model of the wave branch is the object BEFORE the tying step; the tying step is
        # tie_if on the two real channels of that (implementation-produced) tensor
        un = dict(cfg)
        un["identical_slices"] = False
        u = obj_out(case, cfg=un)
        obs["untied"] = u
        for ch in (u.real, u.imag):
            exprs.append("tie_case true [%s]" % "; ".join(qlist(Fraction(float(v)) for v in ch[k].ravel()) for k in range(S)))
    return obs, exprs


def objd_correspond(case, obs, vals):
    bad = []
    S, H, W = case["shape"]
    cfg = case["cfg"]
    tied = cfg["identical_slices"] and S > 1
    v = vals[0]
    if case["ty"] == "potential":
        model = np.array([[float(fr_of(q)) for q in sl] for sl in v]).reshape(S, H, W)
        out = obs["out"].astype(np.float64)
        err = np.abs(out - model)
        worst("potential vs hard_potential", np.max(err / np.maximum(1.0, np.abs(model))), POT_CORR_TOL)
        if not bool(np.all(err <= POT_CORR_TOL * np.maximum(1.0, np.abs(model)))):
            i = tuple(int(t) for t in np.unravel_index(int(np.nanargmax(np.where(np.isnan(err), np.inf, err))), err.shape))
            bad.append(("potential-correspondence", "hard_potential and ObjectPixelated.obj differ at %s: model %.9g, implementation %.9g"
                        % (i, model[i], out[i])))
        return bad
    amp = np.array([[float(fr_of(p[0])) for p in sl] for sl in v]).reshape(S, H, W)
    ph = np.array([[float(fr_of(p[1])) for p in sl] for sl in v]).reshape(S, H, W)
    model = amp * np.exp(1j * ph)
    got = (obs["untied"] if tied else obs["out"]).astype(np.complex128)
    err = np.abs(got - model)
    worst("complex / pure-phase pixel vs hard_polar", np.max(err), OBJ_CORR_TOL)
    if not bool(np.all(err <= OBJ_CORR_TOL)):
        i = tuple(int(t) for t in np.unravel_index(int(np.nanargmax(np.where(np.isnan(err), np.inf, err))), err.shape))
        bad.append(("%s-correspondence" % case["ty"].replace("_", "-"),
                    "hard_polar and ObjectPixelated.obj differ at %s: model amplitude %.9g phase %.9g, implementation amplitude "
                    "%.9g phase %.9g" % (i, amp[i], ph[i], abs(got[i]), float(np.angle(got[i])))))
    if tied:
        t = obs["out"]
        for ch, name, vv in ((t.real, "real", vals[1]), (t.imag, "imaginary", vals[2])):
            mm = np.array([[float(fr_of(q)) for q in sl] for sl in vv]).reshape(S, H, W)
            worst("tied channel vs tie_if", np.max(np.abs(ch.astype(np.float64) - mm)), 2e-6)
            if not bool(np.all(np.abs(ch.astype(np.float64) - mm) <= 2e-6)):
                bad.append(("slice-tying-correspondence", "tie_if on the %s channel and the implementation differ by %g"
                            % (name, float(np.nanmax(np.abs(ch - mm))))))
                break
    return bad


# ------------------------------------------------------------------------------------------
# tomography object (clamp / shrinkage)

def gen_tomo_case(r):
    """every combination of the two entries apply_hard_constraints reads: positivity x shrinkage
    (off / 0.0 (falsy) / positive / negative), the entries it ignores, the soft tv_vol entry; through
    ObjectVoxelwise or the ObjectDIP wrapper"""
    d, h, w = r.randint(1, 3), r.randint(1, 3), r.randint(1, 4)
    return {"kind": "tomo", "shape": [d, h, w], "raw": [r.randint(-40, 40) / 16 for _ in range(d * h * w)],
            "positivity": r.random() < 0.6,
            "shrinkage": r.choice([False, False, 0.0, 0.25, 0.5, 1.0, 0.0625, -0.5, -0.125]),
            "extra": r.choice([{}, {}, {"fourier_filter": True}, {"circular_mask": True}, {"fourier_filter": True, "circular_mask": True}]),
            "tv_vol": r.choice([0, 0, 0.5]), "wrap": r.choice(["voxelwise", "voxelwise", "dip"])}


def tomo_out(case):
    import torch
    from quantem.tomography.object_models import ObjectDIP, ObjectVoxelwise
    vol = np.array(case["raw"], dtype=np.float32).reshape(case["shape"])
    hard = {"positivity": case["positivity"], "shrinkage": case["shrinkage"], **case.get("extra", {})}
    if case.get("wrap") == "dip":
        ov = ObjectDIP(passthrough(vol[None]), tuple(case["shape"]), model_input=torch.zeros((1, 1) + tuple(case["shape"])))
        ov.hard_constraints = hard
        ov.soft_constraints = {"tv_vol": case.get("tv_vol", 0)}
        return ov.obj.detach().cpu().numpy()[0].copy()
    ov = ObjectVoxelwise(tuple(case["shape"]), "cpu")
    ov.hard_constraints = hard
    ov.soft_constraints = {"tv_vol": case.get("tv_vol", 0)}
    ov.obj = torch.tensor(vol)
    return ov.obj.detach().cpu().numpy().copy()


def tomo_oracle(case, out):
    # C10_tomo_nonneg: positivity or an active shrinkage (any sign) gives a non-negative volume
    if (case["positivity"] or case["shrinkage"]) and not bool(np.all(out >= 0)):
        return [("tomography-negative", "tomography volume under positivity=%s, shrinkage=%s has value %r"
                 % (case["positivity"], case["shrinkage"], float(np.nanmin(out))))]
    return []


def tomo_expr(case):
    s = case["shrinkage"]
    return "tomo_case %s %s %s" % ("true" if case["positivity"] else "false",
                                   "(Some %s)" % qlit(Fraction(s)) if s else "None",
                                   qlist(Fraction(v) for v in case["raw"]))


# ------------------------------------------------------------------------------------------
# probes: orthogonalisation

def correlated_stack(g, K, n, rho):
    """K unit vectors in C^n with pairwise inner product exactly rho (n >= K + 1)"""
    a = g.normal(size=(n, K + 1)) + 1j * g.normal(size=(n, K + 1))
    q, _ = np.linalg.qr(a)
    s, e = q[:, 0], q[:, 1:]
    return np.stack([math.sqrt(rho) * s + math.sqrt(1 - rho) * e[:, i] for i in range(K)])


def gen_probe_case(r, dyadic=False):
    g = np_rng(r)
    K = r.choice([1, 2, 3, 3, 4, 5])
    while True:
        h, w = (r.randint(2, 4), r.randint(2, 4)) if dyadic else (r.randint(2, 8), r.randint(2, 8))
        if h * w >= K + 1 and (not dyadic or h * w <= 12):
            break
    rho = r.choice([0.0, 0.3, 0.9, 0.99, 0.99])
    P = correlated_stack(g, K, h * w, rho)
    if dyadic:
        # Gaussian integers; distinct mode intensities (>= 5 % apart) so that the descending order is
        # unambiguous in floating point
        f = r.sample([3, 4, 5, 6, 7, 8], K)
        while True:
            Z = np.stack([np.round(P[i] * 60 * f[i] / 3) for i in range(K)])
            I = sorted(float(np.sum(np.abs(Z[i]) ** 2)) for i in range(K))
            if all(b > 1.05 * a for a, b in zip(I, I[1:])):
                break
            f = r.sample([3, 4, 5, 6, 7, 8, 9, 10], K)
        P = Z
    else:
        scale = 10 ** g.uniform(-3, 3)
        rel = np.array([r.choice([1.0, 0.5, 2.0, 0.1, 3.0, 0.7, 1.3]) * g.uniform(0.8, 1.2) for _ in range(K)])
        P = P * (scale * rel * np.exp(1j * g.uniform(-math.pi, math.pi, K)))[:, None]
    P = P.reshape(K, h, w).astype(np.complex64)
    case = {"kind": "gsd" if dyadic else "gs", "K": K, "roi": [h, w], "rho": rho,
            "re": [float(x) for x in P.real.ravel()], "im": [float(x) for x in P.imag.ravel()]}
    if not dyadic:
        # round 3: the probe constraint dictionary (center_probe after the orthogonalisation, a soft
        # tv_weight) and the ProbeDIP wrapper
        case["center"] = r.random() < 0.3
        case["tv_weight"] = r.choice([0.0, 0.0, 0.1])
        case["wrap"] = r.choice(["pixelated", "pixelated", "dip"])
    else:
        case["wrap"] = r.choice(["pixelated", "pixelated", "dip"])
    return case


def case_probe(case):
    K = case["K"]
    h, w = case["roi"]
    return (np.array(case["re"], dtype=np.float32) + 1j * np.array(case["im"], dtype=np.float32)
            ).astype(np.complex64).reshape(K, h, w)


def probe_model(case):
    import torch
    from quantem.diffractive_imaging.probe_models import ProbeDIP, ProbePixelated
    P = case_probe(case)
    K, h, w = P.shape
    if case.get("wrap") == "dip":
        pm = ProbeDIP.from_model(passthrough(P.copy()), model_input=torch.zeros((1, K, h, w), dtype=torch.complex64),
                                 num_probes=K, roi_shape=(h, w), input_noise_std=0.0)
    else:
        pm = ProbePixelated.from_array(P.copy())
        pm.probe = P.copy()                     # the value the optimiser has driven the parameter to
    cons = {}
    if case.get("center"):
        cons["center_probe"] = True
    if case.get("tv_weight"):
        cons["tv_weight"] = case["tv_weight"]
    if cons:
        pm.constraints = cons
    return pm


def gs_out(case):
    """ProbePixelated.probe / ProbeDIP.probe for the raw parameter tensor (default constraints:
    orthogonalize_probe; optionally center_probe and the soft tv_weight)"""
    pm = probe_model(case)
    out = pm.probe.detach().cpu().numpy().copy()
    if case.get("tv_weight"):
        pm.apply_soft_constraints(pm.probe)      # a loss term: must not change what .probe returns
        again = pm.probe.detach().cpu().numpy()
        if not np.array_equal(again, out, equal_nan=True):
            case["_soft_changed"] = float(np.nanmax(np.abs(again - out)))
    return out


def gs_oracle_uncentred_fails(case):
    """does the orthogonality clause already fail without center_probe?  (classifies the finding)"""
    c2 = {k: v for k, v in case.items() if k not in ("center", "_soft_changed")}
    return any(k == "modes-not-orthogonal" for k, _ in gs_oracle(c2, gs_out(c2)))


def gs_oracle(case, out):
    bad = []
    K = case["K"]
    P = case_probe(case).astype(np.complex128).reshape(K, -1)
    if out.shape != case_probe(case).shape:
        return [("probe-shape", "probe has shape %s for a parameter of shape %s" % (out.shape, case_probe(case).shape))]
    O = out.astype(np.complex128).reshape(K, -1)
    Iin = np.sum(np.abs(P) ** 2, axis=1)
    Iout = np.sum(np.abs(O) ** 2, axis=1)
    G = O.conj() @ O.T
    nrm = np.sqrt(np.outer(Iout, Iout))
    with np.errstate(invalid="ignore", divide="ignore"):
        off = np.abs(G) / nrm
    off[np.arange(K), np.arange(K)] = 0
    worst("normalised off-diagonal Gram entry (oracle)", np.max(off), ORTH_TOL)
    worst("mode-intensity multiset, relative (oracle)", np.max(np.abs(np.sort(Iin) - np.sort(Iout)) / np.sort(Iin)), INT_TOL)
    if case.get("_soft_changed") is not None:
        bad.append(("soft-constraint-changes-probe", "evaluating the probe soft constraints (tv_weight %s) changes probe_model.probe "
                    "(max |diff| %g)" % (case.get("tv_weight"), case["_soft_changed"])))
    if not bool(np.all(off <= ORTH_TOL)):
        i, j = (int(t) for t in np.unravel_index(int(np.nanargmax(np.where(np.isnan(off), np.inf, off))), off.shape))
        if case.get("center") and not gs_oracle_uncentred_fails(case):
            bad.append(("center-probe-breaks-orthogonality", "with center_probe the modes %d and %d of probe_model.probe have "
                        "|<p_i,p_j>| / (|p_i||p_j|) = %.3g (%d modes; orthogonal without center_probe): the modes are not shifted "
                        "by one common shift" % (i, j, float(off[i, j]), K)))
        else:
            bad.append(("modes-not-orthogonal", "orthogonalised modes %d and %d have |<p_i,p_j>| / (|p_i||p_j|) = %.3g (%d modes, "
                        "pairwise input correlation %.2f)" % (i, j, float(off[i, j]), K, case["rho"])))
    a, b = np.sort(Iin)[::-1], np.sort(Iout)[::-1]
    if not bool(np.all(np.abs(a - b) <= INT_TOL * a)):
        bad.append(("mode-intensities-changed", "mode intensities %s after orthogonalisation are not the input multiset %s"
                    % (b.tolist(), a.tolist())))
    if not bool(np.all(Iout[:-1] >= Iout[1:] * (1 - 1e-5))):
        bad.append(("modes-not-descending", "mode intensities after orthogonalisation are not in descending order: %s" % Iout.tolist()))
    return bad


def gsd_expr(case):
    K = case["K"]
    n = case["roi"][0] * case["roi"][1]
    re, im = case["re"], case["im"]
    return "gs_case [%s]%%Z" % "; ".join(
        "[" + "; ".join("(%d, %d)" % (int(re[i * n + k]), int(im[i * n + k])) for k in range(n)) + "]" for i in range(K))


def gsd_correspond(case, out, v):
    bad = []
    K = case["K"]
    O = out.astype(np.complex128).reshape(K, -1)
    sc = 2.0 ** -44
    if len(v) != K:
        return [("gram-schmidt-correspondence", "model returns %d modes, implementation %d" % (len(v), K))]
    for i, (s, inten, u) in enumerate(v):
        s = int(s) * sc
        uu = np.array([int(a) * sc + 1j * int(b) * sc for a, b in u])
        m = math.sqrt(s) * uu
        nm = math.sqrt(float(fr_of(inten)))
        err = float(np.linalg.norm(O[i] - m))
        worst("orthogonalised mode vs sqrt(s) u, relative", err / nm, CORR_TOL)
        if not err <= CORR_TOL * nm:
            bad.append(("gram-schmidt-correspondence", "mode %d of ProbePixelated.probe differs from sqrt(s) u of the exact model by "
                        "%.3g relative to its norm %.6g (%d modes, correlation %.2f)" % (i, err / nm, nm, K, case["rho"])))
            break
    return bad



# ------------------------------------------------------------------------------------------
# probes: the clamp_min branch (zero / exactly dependent / tiny modes) and ties, against
# orthogonalize_c eps2_code

UNITS = [(1, 0), (-1, 0), (0, 1), (0, -1)]


def gen_exact_stack(r):
    """stacks on which complex64 Gram-Schmidt is EXACT: basis vectors with disjoint supports of 1 or 4
    pixels and entries unit * 2^a (norm sqrt(|S|) 2^a is a power of two); a mode is c*b (new or seen b),
    c*b_s + d*b_t with b_s already seen (residual d*b_t or 0), or zero.  Repeated / combined basis
    vectors are exactly dependent modes (residual exactly 0 -> clamp_min acts), equal |c| |b| are ties."""
    while True:
        h, w = r.randint(2, 4), r.randint(2, 4)
        n = h * w
        pix = list(range(n))
        r.shuffle(pix)
        basis = []
        while pix and len(basis) < 5:
            sz = 4 if (len(pix) >= 4 and r.random() < 0.5) else 1
            sup, pix = pix[:sz], pix[sz:]
            a = r.choice([0, 0, 1, 2])
            b = [(0, 0)] * n
            for k in sup:
                u = r.choice(UNITS)
                b[k] = (u[0] << a, u[1] << a)
            basis.append(b)
        if len(basis) >= 2:
            break
    K = r.choice([2, 3, 3, 4, 5])
    coef = lambda: tuple(t * r.choice([1, 1, 2, 4]) for t in r.choice(UNITS))
    cmul = lambda c, z: (c[0] * z[0] - c[1] * z[1], c[0] * z[1] + c[1] * z[0])
    seen, modes, kinds = [], [], []
    for _ in range(K):
        kind = r.choice(["new", "new", "new", "repeat", "combo", "zero"])
        if kind in ("repeat", "combo") and not seen:
            kind = "new"
        if kind == "new" and len(seen) == len(basis):
            kind = "repeat"
        if kind == "zero":
            v = [(0, 0)] * n
        elif kind == "new":
            i = r.choice([i for i in range(len(basis)) if i not in seen])
            seen.append(i)
            c = coef()
            v = [cmul(c, z) for z in basis[i]]
        elif kind == "repeat":
            c = coef()
            v = [cmul(c, z) for z in basis[r.choice(seen)]]
        else:
            i = r.choice(seen)
            j = r.choice([j for j in range(len(basis)) if j != i])
            if j not in seen:
                seen.append(j)
            c, d = coef(), coef()
            v = [(cmul(c, x)[0] + cmul(d, y)[0], cmul(c, x)[1] + cmul(d, y)[1]) for x, y in zip(basis[i], basis[j])]
        modes.append(v)
        kinds.append(kind)
    return {"kind": "xs", "K": K, "roi": [h, w], "sh": 0, "rho": 0.0, "mode_kinds": kinds,
            "zre": [z[0] for v in modes for z in v], "zim": [z[1] for v in modes for z in v]}


def gen_tiny_stack(r):
    """Gaussian integers * 2^-50: every mode is shorter than 1e-12, the clamp acts without the residual
    being zero (the normalisation divides by 1e-12 instead of the norm)"""
    K = r.choice([1, 1, 2, 3])
    h, w = r.randint(1, 3), r.randint(2, 3)
    n = h * w
    while True:
        z = [(r.randint(-9, 9), r.randint(-9, 9)) for _ in range(K * n)]
        if all(any(t != (0, 0) for t in z[i * n:(i + 1) * n]) for i in range(K)):
            break
    return {"kind": "xt", "K": K, "roi": [h, w], "sh": 50, "rho": 0.0,
            "zre": [t[0] for t in z], "zim": [t[1] for t in z]}


def gen_zero_stack(r):
    """a generic (correlated, Gaussian-integer) stack in which one mode is exactly zero: the zero mode
    takes the clamp_min branch, the others the ordinary one"""
    while True:
        c = gen_probe_case(r, dyadic=True)
        if c["K"] >= 2:
            break
    K = c["K"]
    n = c["roi"][0] * c["roi"][1]
    z = r.randrange(K)
    zre = [0 if i // n == z else int(v) for i, v in enumerate(c["re"])]
    zim = [0 if i // n == z else int(v) for i, v in enumerate(c["im"])]
    return {"kind": "xz", "K": K, "roi": c["roi"], "sh": 0, "rho": c["rho"], "zero_mode": z, "zre": zre, "zim": zim}


def xcase_probe(case):
    K = case["K"]
    h, w = case["roi"]
    sc = 2.0 ** -case["sh"]
    return ((np.array(case["zre"], dtype=np.float64) + 1j * np.array(case["zim"], dtype=np.float64)) * sc
            ).astype(np.complex64).reshape(K, h, w)


def x_out(case):
    from quantem.diffractive_imaging.probe_models import ProbePixelated
    P = xcase_probe(case)
    pm = ProbePixelated.from_array(P.copy())
    pm.probe = P.copy()
    return pm.probe.detach().cpu().numpy().copy()


def x_expr(case):
    K = case["K"]
    n = case["roi"][0] * case["roi"][1]
    re, im = case["zre"], case["zim"]
    return "gsc_case %d [%s]%%Z" % (case["sh"], "; ".join(
        "[" + "; ".join("(%d, %d)" % (re[i * n + k], im[i * n + k]) for k in range(n)) + "]" for i in range(K)))


def x_model(v):
    """-> (modes as complex128 arrays sqrt(s) u, exact intensities, flags [(zero, >= eps)], kept intensities)"""
    modes, inten = [], []
    for sq, iq, u in v[0]:
        s_ = float(fr_of(sq))
        modes.append(math.sqrt(s_) * np.array([float(fr_of(a)) + 1j * float(fr_of(b)) for a, b in u]))
        inten.append(fr_of(iq))
    flags = [(a is True, b is True) for a, b in v[1]]
    return modes, inten, flags, [fr_of(q) for q in v[2]]


def x_check(case, out, v):
    """-> (oracle failures inside the property's domain, 'what still holds' / correspondence failures)"""
    orc, bad = [], []
    K = case["K"]
    P = xcase_probe(case).astype(np.complex128).reshape(K, -1)
    O = out.astype(np.complex128).reshape(K, -1)
    if np.isnan(O).any():
        return [], [("clamp-branch-correspondence", "probe_model.probe contains NaN for a stack with zero / dependent / tiny modes")]
    modes, inten, flags, kept = x_model(v)
    independent = all((not z) and ge for z, ge in flags)       # no vanishing residual, clamp idle
    clean = all(z or ge for z, ge in flags)
    Iin = np.sum(np.abs(P) ** 2, axis=1)
    Iout = np.sum(np.abs(O) ** 2, axis=1)
    scale = max(float(Iin.max()), 1e-300)
    if independent:
        # inside the quantifier: the clauses of the property text
        pc = {"K": K, "roi": case["roi"], "rho": 0.0, "re": P.real.ravel().tolist(), "im": P.imag.ravel().tolist()}
        orc = gs_oracle(pc, out)
    # what still holds for ANY input (C10_gsc_sorted_desc, C10_gsc_total_intensity_le)
    if not bool(np.all(Iout[:-1] >= Iout[1:] - 1e-5 * scale)):
        bad.append(("clamp-branch-not-descending", "mode intensities %s are not in descending order (stack with zero / dependent / "
                    "tiny modes)" % Iout.tolist()))
    if not float(Iout.sum()) <= float(Iin.sum()) * (1 + 1e-5):
        bad.append(("clamp-branch-intensity-created", "total intensity %.9g after orthogonalisation exceeds the input total %.9g"
                    % (float(Iout.sum()), float(Iin.sum()))))
    if clean:
        # C10_gsc_orthogonal_dependent / C10_gsc_intensity_dependent: orthogonal; kept or lost entirely
        G = np.abs(O.conj() @ O.T)
        G[np.arange(K), np.arange(K)] = 0
        if not float(G.max()) <= ORTH_TOL * scale:
            bad.append(("clamp-branch-not-orthogonal", "modes are not orthogonal (max |<p_i,p_j>| %.3g, intensities %s) although every "
                        "residual is zero or >= 1e-12" % (float(G.max()), Iout.tolist())))
        want = sorted((float(k) for k in kept), reverse=True)
        if not np.allclose(sorted(Iout.tolist(), reverse=True), want, rtol=INT_TOL, atol=INT_TOL * scale * 1e-3):
            bad.append(("clamp-branch-intensities", "mode intensities %s, expected (kept or lost entirely) %s" % (Iout.tolist(), want)))
    # correspondence with orthogonalize_c: intensity sequence; modes up to the order inside a tie group
    mi = np.array([float(q) for q in inten])
    worst("clamp / tie stacks: intensity sequence vs orthogonalize_c, relative", np.max(np.abs(Iout - mi)) / max(float(mi.max()), 1e-300), CORR_TOL)
    if not np.allclose(Iout, mi, rtol=CORR_TOL, atol=CORR_TOL * max(float(mi.max()), 1e-300) * 1e-3):
        bad.append(("clamp-branch-correspondence", "mode intensities of probe_model.probe %s, orthogonalize_c eps2_code gives %s"
                    % (Iout.tolist(), mi.tolist())))
        return orc, bad
    groups = {}
    for i, q in enumerate(inten):
        groups.setdefault(q, []).append(i)
    stable = True
    floor = 1e-3 * math.sqrt(max(float(mi.max()), 0.0))
    for q, idx in groups.items():
        tol = CORR_TOL * max(math.sqrt(max(float(q), 0.0)), floor)
        free = list(idx)
        for i in idx:
            d = [float(np.linalg.norm(O[i] - modes[j])) for j in free]
            jbest = int(np.argmin(d))
            if not d[jbest] <= tol:
                bad.append(("clamp-branch-correspondence", "mode %d of probe_model.probe (intensity %.6g, tie group of %d) is none of the "
                            "modes sqrt(s) u of orthogonalize_c with that intensity (closest differs by %.3g)"
                            % (i, float(q), len(idx), d[jbest])))
                return orc, bad
            free.pop(jbest)
            if not float(np.linalg.norm(O[i] - modes[i])) <= tol:
                stable = False
    case["_ties"] = sum(1 for idx in groups.values() if len(idx) > 1)
    case["_stable"] = stable
    return orc, bad


def gen_parametric_case(r):
    return {"kind": "par", "roi": r.choice([[8, 8], [8, 10], [12, 8]]), "defocus": r.choice([0.0, 50.0, 120.0]),
            "C30": r.choice([0.0, 1e4]), "mean": float(10 ** r.uniform(-2, 6)), "center": r.random() < 0.3}


def parametric_run(case):
    """ProbeParametric (one mode by construction): .probe = apply_hard_constraints(_build_probe()).  One
    mode: the orthogonalisation must return it with its intensity, which is the mean intensity
    (real_space_probe is normalised; Parseval) -> list of (key, what)"""
    from quantem.diffractive_imaging.probe_models import ProbeParametric
    h, w = case["roi"]
    pa = ProbeParametric.from_params(probe_params={"energy": 80e3, "defocus": case["defocus"], "C30": case["C30"],
                                                   "semiangle_cutoff": 20.0}, roi_shape=(h, w))
    pa.set_initial_probe((h, w), np.array([1.0 / (h * 0.5), 1.0 / (w * 0.5)]), case["mean"])
    if case["center"]:
        pa.constraints = {"center_probe": True}
    out = pa.probe.detach().cpu().numpy().astype(np.complex128)
    built = pa._build_probe().detach().cpu().numpy().astype(np.complex128)
    bad = []
    if out.shape != (1, h, w):
        return [("probe-shape", "ProbeParametric.probe has shape %s" % (out.shape,))]
    Io, Ib = float(np.sum(np.abs(out) ** 2)), float(np.sum(np.abs(built) ** 2))
    Id = float(np.sum(np.abs(np.fft.fft2(out, norm="ortho")) ** 2))
    worst("ProbeParametric: intensity of .probe vs built probe, relative", abs(Io - Ib) / Ib, INT_TOL)
    worst("ProbeParametric: diffraction intensity vs mean, relative", abs(Id - case["mean"]) / case["mean"], INT_TOL)
    if not abs(Io - Ib) <= INT_TOL * Ib:
        bad.append(("mode-intensities-changed", "ProbeParametric.probe has intensity %.9g, the probe built from the parameters %.9g"
                    % (Io, Ib)))
    if not abs(Id - case["mean"]) <= INT_TOL * case["mean"]:
        bad.append(("initial-probe-total-intensity", "total diffraction intensity of ProbeParametric.probe is %.9g, measured mean "
                    "intensity %.9g" % (Id, case["mean"])))
    if not case["center"] and not float(np.abs(out - built).max()) <= CORR_TOL * math.sqrt(Ib):
        bad.append(("gram-schmidt-correspondence", "one mode: ProbeParametric.probe differs from the built probe by %g"
                    % float(np.abs(out - built).max())))
    return bad


# ------------------------------------------------------------------------------------------
# probes: initial-probe intensity and weights

def gen_weight_case(r, dyadic=False):
    g = np_rng(r)
    K = r.choice([1, 2, 3, 3, 4, 5])
    route = "array" if dyadic else r.choice(["array", "array", "params"])
    case = {"kind": "wd" if dyadic else "w", "K": K, "route": route, "seed": r.randrange(1 << 30)}
    wk = r.choice(["given", "given", "given", "default"])
    if wk == "default":
        case["weights"] = None
    elif dyadic:
        case["weights"] = [r.randint(1, 32) / 8 for _ in range(K)]
    else:
        case["weights"] = [float(x) for x in g.uniform(0.02, 1.0, K) * r.choice([1.0, 1.0, 7.0, 0.01])]
    # round 3: admissible requests at the edge (C10_weight_scales_nonneg): some weights exactly zero
    # (not all), or all weights negative (the relative weights w / sum w are positive)
    edge = r.choice(["", "", "", "zeros", "negative"]) if case["weights"] is not None and route == "array" else ""
    if edge == "zeros" and K >= 2:
        for i in r.sample(range(K), r.randint(1, K - 1)):
            case["weights"][i] = 0.0
    elif edge == "negative":
        case["weights"] = [-x for x in case["weights"]]
    case["weights_edge"] = edge if (edge != "zeros" or K >= 2) else ""
    case["mean"] = (r.randint(1, 4096) / 4.0) if dyadic else float(10 ** g.uniform(-2, 6))
    # 30 %: the SAME probe model was prepared before, for data of another dose (a model reused for a second
    # reconstruction, or set_initial_probe called again): the probe must carry the mean intensity of the LAST
    # preparation
    # (not combined with exact-zero requested weights: a zero-weight mode has zero intensity after the first
    # preparation and the second one computes sqrt(0 / 0) = nan for it - recorded as an observation in
    # C10.audit.md, the property's "requested weights" are taken to be positive for a model that is re-prepared)
    if r.random() < 0.3 and case.get("weights_edge") != "zeros":
        case["earlier_means"] = [float(case["mean"] * f) for f in r.sample([0.05, 0.5, 4.0, 20.0], r.randint(1, 2))]
    if route == "params":
        case["roi"] = r.choice([[8, 8], [8, 10], [12, 8]])
        case["defocus"] = r.choice([0.0, 50.0, 120.0])
        return case
    h, w = (r.randint(2, 3), r.randint(2, 4)) if dyadic else (r.randint(2, 8), r.randint(2, 8))
    while h * w < K + 1:
        h, w = h + 1, w + 1
    case["roi"] = [h, w]
    if dyadic:
        P = g.integers(-9, 10, size=(K, h, w)) + 1j * g.integers(-9, 10, size=(K, h, w))
        P[:, 0, 0] += 1 + 10        # no zero mode
    else:
        P = correlated_stack(g, K, h * w, r.choice([0.0, 0.5, 0.99])).reshape(K, h, w)
        P = P * (10 ** g.uniform(-3, 3) * g.uniform(0.2, 2, K))[:, None, None]
        # 30 %: modes of very different strength (a perturbation-sized mode next to the main one:
        # amplitude ratio 1e-3 ... 1e-6, i.e. an energy fraction down to 1e-12) with an ordinary request
        if K >= 2 and r.random() < 0.3:
            for i in r.sample(range(K), r.randint(1, K - 1)):
                P[i] *= 10 ** -g.uniform(3, 6)
            case["disparate_modes"] = True
    P = P.astype(np.complex64)
    case["re"] = [float(x) for x in P.real.ravel()]
    case["im"] = [float(x) for x in P.imag.ravel()]
    return case


def weights_out(case):
    """-> (initial_probe (K,h,w) complex, the relative weights the model was asked for)"""
    from quantem.diffractive_imaging.probe_models import ProbePixelated
    K = case["K"]
    h, w = case["roi"]
    if case["route"] == "params":
        pm = ProbePixelated.from_params(probe_params={"energy": 80e3, "defocus": case["defocus"], "semiangle_cutoff": 20.0},
                                        num_probes=K, initial_probe_weights=case["weights"], rng=case["seed"])
        for m in list(case.get("earlier_means", [])) + [case["mean"]]:
            pm.set_initial_probe((h, w), np.array([1.0 / (h * 0.5), 1.0 / (w * 0.5)]), m)
    else:
        pm = ProbePixelated.from_array(case_probe(case).copy(), initial_probe_weights=case["weights"], rng=case["seed"])
        for m in list(case.get("earlier_means", [])) + [case["mean"]]:
            pm.set_initial_probe((h, w), np.array([0.1, 0.1]), m)
    req = pm.initial_probe_weights.detach().cpu().numpy().astype(np.float64) if case["weights"] is None \
        else np.array(case["weights"], dtype=np.float64)
    return pm.initial_probe.detach().cpu().numpy().copy(), req


def weights_oracle(case, ip, req, mean=None):
    bad = []
    K = case["K"]
    mean = case["mean"] if mean is None else mean
    if ip.ndim != 3 or ip.shape[0] != K:
        return [("initial-probe-shape", "initial_probe has shape %s for %d modes" % (ip.shape, K))]
    I = np.sum(np.abs(np.fft.fft2(ip.astype(np.complex128), norm="ortho")) ** 2, axis=(1, 2))
    tot = float(I.sum())
    worst("initial-probe total intensity, relative (oracle)", abs(tot - mean) / mean, INT_TOL)
    if not abs(tot - mean) <= INT_TOL * mean:
        bad.append(("initial-probe-total-intensity", "total diffraction intensity of initial_probe is %.9g, measured mean intensity %.9g "
                    "(%d modes, weights %s)" % (tot, mean, K, case.get("weights"))))
    want = req / req.sum()
    if tot > 0 and not bool(np.all(np.abs(I / tot - want) <= INT_TOL)):
        bad.append(("initial-probe-mode-weights", "relative mode intensities of initial_probe %s, requested relative weights %s"
                    % ((I / tot).tolist(), want.tolist())))
    return bad


def wd_expr(case, req):
    K = case["K"]
    P = case_probe(case)
    I = [int(round(float(np.sum(np.abs(P[i].astype(np.complex128)) ** 2)))) for i in range(K)]
    raw = [Fraction(x) for x in (case["weights"] if case["weights"] is not None else [float(np.float32(t)) for t in req])]
    return "w_case %s %s %s" % (qlit(Fraction(case["mean"])), qlist(raw), qlist(I))


def wd_correspond(case, ip, v):
    bad = []
    K = case["K"]
    P = case_probe(case).astype(np.complex128)
    I2 = [float(fr_of(q)) for q in v[0]]
    sc = [float(fr_of(q)) for q in v[1]]
    got = np.sum(np.abs(ip.astype(np.complex128)) ** 2, axis=(1, 2))
    for i in range(K):
        worst("initial-probe mode intensity vs apply_weights, relative", abs(got[i] - I2[i]) / max(I2[i], 1e-30), CORR_TOL)
        if not abs(got[i] - I2[i]) <= CORR_TOL * max(I2[i], 1e-30):
            bad.append(("weights-correspondence", "mode %d of initial_probe has intensity %.9g, apply_weights gives %.9g" % (i, got[i], I2[i])))
            break
        ref = np.abs(P[i]) * math.sqrt(sc[i])
        if not bool(np.all(np.abs(np.abs(ip[i]) - ref) <= CORR_TOL * ref.max())):
            bad.append(("weights-correspondence", "|initial_probe[%d]| differs from |probe[%d]| * sqrt(weight_scales) by %g (max %g)"
                        % (i, i, float(np.abs(np.abs(ip[i]) - ref).max()), float(ref.max()))))
            break
    return bad


# ------------------------------------------------------------------------------------------
# in situ: a complete (toy) Ptychography object

def build_ptycho(case):
    import torch  # noqa
    from quantem.core.datastructures import Dataset4dstem
    from quantem.diffractive_imaging.dataset_models import PtychographyDatasetRaster
    from quantem.diffractive_imaging.detector_models import DetectorPixelated
    from quantem.diffractive_imaging.object_models import ObjectPixelated
    from quantem.diffractive_imaging.probe_models import ProbePixelated
    from quantem.diffractive_imaging.ptychography import Ptychography
    from ..toy_ptycho import simulate
    data, _, _, _ = simulate(case["seed"] % 97, tuple(case["scan"]), (8, 8), 2.0, 0.5, 80e3, 20.0, 50.0)
    data = (data * case["dose"]).astype(np.float32)
    d = Dataset4dstem.from_array(data, sampling=(2.0, 2.0, 0.25, 0.25), units=("A", "A", "A^-1", "A^-1"))
    pd = PtychographyDatasetRaster.from_dataset4dstem(d, verbose=0)
    pd.preprocess(com_fit_function="no_shift", plot_rotation=False, plot_com=False, probe_energy=80e3,
                  force_com_rotation=0, force_com_transpose=False)
    S = case["S"]
    om = ObjectPixelated.from_uniform(num_slices=S, slice_thicknesses=None if S == 1 else 2.0, obj_type=case["ty"])
    pm = ProbePixelated.from_params(num_probes=case["K"], probe_params={"energy": 80e3, "defocus": 50.0, "semiangle_cutoff": 20.0},
                                    initial_probe_weights=case["weights"])
    pt = Ptychography.from_models(dset=pd, obj_model=om, probe_model=pm, detector_model=DetectorPixelated(),
                                  rng=case["seed"], verbose=0)
    pt.preprocess(obj_padding_px=tuple(case["pad"]))
    return pt, float(np.mean(data.astype(np.float64).sum(axis=(-2, -1))))


def gen_insitu_case(r):
    K = r.choice([1, 2, 3, 4])
    return {"kind": "insitu", "seed": r.randrange(1, 1 << 20), "scan": r.choice([[3, 3], [3, 4], [4, 3]]),
            "dose": r.choice([1.0, 0.01, 37.5]), "K": K, "ty": r.choice(TYPES), "S": r.choice([1, 2]),
            "pad": r.choice([[8, 8], [4, 8], [0, 0]]),
            "weights": None if r.random() < 0.3 else [r.randint(1, 16) / 4 for _ in range(K)],
            "cfg": gen_cfg(r, True)}


def insitu_run(case):
    """-> list of (key, what); observation points obj_model.obj / probe_model.probe /
    probe_model.initial_probe of a preprocessed Ptychography object"""
    import torch
    bad = []
    pt, mean_ref = build_ptycho(case)
    g = np.random.default_rng(case["seed"])
    pm, om = pt.probe_model, pt.obj_model
    # initial probe against the independently measured mean intensity
    req = pm.initial_probe_weights.detach().cpu().numpy().astype(np.float64) if case["weights"] is None \
        else np.array(case["weights"], dtype=np.float64)
    bad += weights_oracle(case, pm.initial_probe.detach().cpu().numpy(), req, mean=mean_ref)
    # raw object parameters driven somewhere else; the real FOV mask
    shape = tuple(om.params.shape)
    n = int(np.prod(shape))
    if case["ty"] == "potential":
        raw = (g.normal(0, 2, n)).astype(np.float32).reshape(shape)
    else:
        raw = (g.uniform(0, 3, n) * np.exp(1j * g.uniform(-math.pi, math.pi, n))).astype(np.complex64).reshape(shape)
    mask = om.mask.detach().cpu().numpy()[0]
    sub = {"kind": "obj", "ty": case["ty"], "shape": list(shape), "mask": [float(v) for v in mask.ravel()], "cfg": case["cfg"]}
    if case["ty"] == "potential":
        sub["raw"] = [float(x) for x in raw.ravel()]
    else:
        sub["raw_re"] = [float(x) for x in raw.real.ravel()]
        sub["raw_im"] = [float(x) for x in raw.imag.ravel()]
    if not (mask.min() >= -1e-6 and mask.max() <= 1 + 1e-6):
        bad.append(("insitu-fov-mask-range", "the FOV mask built by preprocess has values in [%g, %g]" % (mask.min(), mask.max())))
    om.constraints = dict(case["cfg"])
    with torch.no_grad():
        om.params.copy_(torch.tensor(raw))
    out = om.obj.detach().cpu().numpy().copy()
    ref = obj_out(sub)
    if not np.allclose(out, ref, rtol=1e-6, atol=1e-7):
        bad.append(("insitu-object-differs", "obj_model.obj inside Ptychography differs from a stand-alone ObjectPixelated with the "
                    "same parameters, mask and constraints (max |diff| %g)" % float(np.abs(out - ref).max())))
    bad += obj_oracle(sub, out)
    # raw probe parameter driven to a correlated stack
    K = case["K"]
    h, w = (int(t) for t in pm.roi_shape)
    P = correlated_stack(g, K, h * w, 0.99 if K > 1 else 0.0).reshape(K, h, w) * (g.uniform(0.5, 20, K))[:, None, None]
    P = P.astype(np.complex64)
    pm.probe = P
    pcase = {"kind": "gs", "K": K, "roi": [h, w], "rho": 0.99, "re": [float(x) for x in P.real.ravel()],
             "im": [float(x) for x in P.imag.ravel()]}
    bad += gs_oracle(pcase, pm.probe.detach().cpu().numpy().copy())
    return bad, {"mean_intensity_measured": mean_ref, "mask_min": float(mask.min()), "mask_max": float(mask.max()),
                 "mask_fractional_pixels": int(np.sum((mask > 1e-6) & (mask < 1 - 1e-6)))}


# ------------------------------------------------------------------------------------------
# the phases of the check

def _corpus():
    from ..common import VERIF
    p = VERIF / "corpus" / "C10" / "corpus.json"
    return json.loads(p.read_text()) if p.exists() else []


# the recorded defect (Example C10_unrepaired_pure_phase_refuted) and the witness of
# C10_hard_idempotent_amp_refuted, on the implementation
# ------------------------------------------------------------------------------------------
# round 4: cross-test of the translator (harness/translate_C10.py).  The functions translated from the
# CURRENT source (build/C10/Gen_C10Tie.v) are run by vm_compute on the dyadic correspondence inputs of
# this run and compared with what the real Python functions returned, through the same comparators
# as the model (a translator that silently dropped or mis-read a statement would show up here).

XT: dict = {}

PRE_GEN = PRE.replace("From QV.model Require Import C10_Model.",
                      "From QV.lib Require Import C10_TieLib.\nFrom QV.model Require Import C10_Model.\n"
                      "From GenC10 Require Import Gen_C10Tie.") + """
Definition g_polar_case (ty : obj_type) (cfg : ocfg) (mask : option (list Q)) (obj : list (list polar)) :=
  map (map (fun p : polar => (showq (fst p), showq (snd p))))
      (gen_wave (fun _ x => x) (fun x => x) ty cfg false false false mask obj).
Definition g_pot_case (cfg : ocfg) (mask : option (list Q)) (obj : list (list Q)) :=
  map (map showq) (gen_pot (fun _ x => x) Potential cfg false false false mask obj).
Definition g_tomo_case (pos : bool) (shrink : option Q) (obj : list Q) := map showq (hd [] (gen_tomo pos shrink [obj])).
Definition g_gs_case (ps : list (list (Z * Z))) :=
  map (fun m : Qc * list C => (fx (fst m), showq (this (mode_intensity m)),
                               map (fun z : C => (fx (fst z), fx (snd z))) (snd m)))
      (gen_orth (map (map zc) ps)).
Definition g_w_case (mean : Q) (raw : list Q) (ps : list (list (Z * Z))) :=
  let out := gen_weights (fun v => v) (Q2Qc mean) (norm_weights (map Q2Qc raw)) (map (map zc) ps) in
  (map (fun m => showq (this (sv_int m))) out, map (fun m => showq (this (fst m))) out).
"""


def wg_expr(case, req):
    K = case["K"]
    P = case_probe(case).astype(np.complex128).reshape(K, -1)
    raw = [Fraction(x) for x in (case["weights"] if case["weights"] is not None else [float(np.float32(t)) for t in req])]
    return "g_w_case %s %s [%s]%%Z" % (qlit(Fraction(case["mean"])), qlist(raw), "; ".join(
        "[" + "; ".join("(%d, %d)" % (int(round(z.real)), int(round(z.imag))) for z in P[i]) + "]" for i in range(K)))


def cross_test(ctx: Ctx):
    exprs, todo = [], []
    if "objd" in XT:
        dcases, prepared = XT["objd"]
        for case, obs in list(zip(dcases, prepared))[:ctx.budget(100, 300)]:
            e = objd_expr(case)
            exprs.append("g_" + e)
            todo.append(("objd", case, obs))
    if "tomo" in XT:
        for case, out in list(zip(*XT["tomo"]))[:ctx.budget(40, 100)]:
            exprs.append("g_" + tomo_expr(case))
            todo.append(("tomo", case, out))
    if "gsd" in XT:
        for case, out in sorted(zip(*XT["gsd"]), key=lambda co: co[0]["K"] * co[0]["roi"][0] * co[0]["roi"][1])[:ctx.budget(10, 24)]:
            exprs.append("g_" + gsd_expr(case))
            todo.append(("gsd", case, out))
    if "wd" in XT:
        for case, (ip, req) in list(zip(*XT["wd"]))[:ctx.budget(60, 100)]:
            if not all(float(v).is_integer() for v in case_probe(case).view(np.float32).ravel()):
                continue
            exprs.append(wg_expr(case, req))
            todo.append(("wd", case, ip))
    if not exprs:
        return
    heavy = [i for i, t in enumerate(todo) if t[0] == "gsd"]
    light = [i for i, t in enumerate(todo) if t[0] != "gsd"]
    raw = [None] * len(exprs)
    for name, ids, shard in (("xt", light, 40), ("xtg", heavy, 2)):
        if ids:
            for i, v in zip(ids, ctx.coq_eval(name, PRE_GEN, [exprs[i] for i in ids], shard=shard, parse=False,
                                              extra_flags=["-Q", str(ctx.dir), "GenC10"])):
                raw[i] = v
    nbad = 0
    per = {}
    for (kind, case, obs), v in zip(todo, raw):
        v = re.sub(r"\s+", " ", v)
        v = re.sub(r"\(\s*(-\d+)\s*\)\s*%Z", r"\1", v)
        v = parse_coq_value(re.sub(r"%[ZQ]\b", "", v))
        per[kind] = per.get(kind, 0) + 1
        ctx.cov["traces_validated_against_impl"] += 1
        if kind == "objd":
            o2 = dict(obs)
            if "untied" in o2:          # the translated wave function is run with the tying step as identity
                o2["out"] = o2["untied"]
            c2 = dict(case)
            c2["cfg"] = dict(case["cfg"])
            if case["ty"] != "potential":
                c2["cfg"]["identical_slices"] = False
            bad = objd_correspond(c2, o2, [v])
        elif kind == "tomo":
            model = np.array([float(fr_of(q)) for q in v]).reshape(case["shape"])
            bad = [] if np.array_equal(model, obs.astype(np.float64)) else [("tomography", "gen_tomo %s, implementation %s"
                                                                            % (model.ravel().tolist(), obs.ravel().tolist()))]
        elif kind == "gsd":
            bad = gsd_correspond(case, obs, v)
        else:
            bad = wd_correspond(case, obs, v)
        for key, what in bad:
            nbad += 1
            ctx.cov["disagreements_checked"] += 1
            ctx.violation("translator-crosstest", "the function translated from the current source (vm_compute) and the real Python "
                          "function disagree [%s]: %s" % (key, what), dict(case), found_input=False)
    ctx.cov["translator_tie"]["crosstest"] = {"evaluated": per, "disagreements": nbad}
    ctx.log("translator cross-test: %s inputs through the translated functions, %d disagreements with the implementation" % (per, nbad))


WITNESSES = [
    {"kind": "obj", "ty": "pure_phase", "shape": [1, 1, 2], "raw_re": [3.0, 1.0], "raw_im": [0.0, 1.0], "mask": [0.5, 1.0],
     "mask_kind": "witness", "mag_kind": "witness",
     "cfg": {"positivity": True, "fix_potential_baseline": False, "fix_potential_baseline_factor": 1.0,
             "identical_slices": False, "apply_fov_mask": True}},
    {"kind": "obj", "ty": "complex", "shape": [1, 1, 1], "raw_re": [1.0], "raw_im": [0.0], "mask": [0.5],
     "mask_kind": "witness", "mag_kind": "witness",
     "cfg": {"positivity": True, "fix_potential_baseline": False, "fix_potential_baseline_factor": 1.0,
             "identical_slices": False, "apply_fov_mask": True}},
]


def check_objects(ctx: Ctx):
    r = ctx.rng
    cases = [dict(c) for c in _corpus() if c.get("kind") == "obj"] + [dict(c) for c in WITNESSES]
    for _ in range(ctx.budget(260, 4000)):
        cases.append(gen_obj_case(r))
    nbad = 0
    keys = {}
    for case in cases:
        S = case["shape"][0]
        cfg = case["cfg"]
        out0 = obj_out(case)
        bad = obj_oracle(case, out0)
        if out0.shape == tuple(case["shape"]):
            bad += obj_soft_check(case, out0)
        masked = cfg["apply_fov_mask"] and case["mask"] is not None
        ctx.dist("obj/type=%s" % case["ty"])
        ctx.dist("obj/model=%s" % ("ObjectDIP" if case.get("wrap") == "dip" else "ObjectPixelated"))
        if any(cfg.get(k) for k in SOFT_KEYS):
            ctx.dist("obj/soft-constraints-set")
        ctx.dist("obj/slices=%d" % S)
        ctx.dist("obj/mask=%s%s" % (case.get("mask_kind"), "(applied)" if masked else ""))
        ctx.dist("obj/magnitude=%s" % case.get("mag_kind"))
        if cfg["identical_slices"] and S > 1:
            ctx.dist("obj/tied")
        ctx.count(("obj", json.dumps(case, sort_keys=True)),
                  nontrivial=masked or (cfg["identical_slices"] and S > 1) or case["ty"] != "potential" or cfg["positivity"])
        for key, what in bad:
            nbad += 1
            keys[key] = keys.get(key, 0) + 1
            ctx.violation(key, what, dict(case))
    ctx.log("objects (oracle): %d cases, %d clause failures %s" % (len(cases), nbad, keys or ""))

    # exact model vs implementation
    dcases = [dict(c) for c in _corpus() if c.get("kind") == "objd"]
    for _ in range(ctx.budget(150, 2000)):
        dcases.append(gen_obj_dyadic(r))
    prepared, exprs, owner = [], [], []
    for ci, case in enumerate(dcases):
        obs, ex = objd_prepare(case)
        prepared.append(obs)
        for e in ex:
            exprs.append(e)
            owner.append(ci)
        ctx.dist("objd/type=%s" % case["ty"])
        ctx.dist("objd/model=%s" % ("ObjectDIP" if case.get("wrap") == "dip" else "ObjectPixelated"))
        ctx.dist("objd/mask=%s%s" % (case.get("mask_kind"), "(applied)" if case["cfg"]["apply_fov_mask"] and case["mask"] else ""))
        ctx.count(("objd", json.dumps(case, sort_keys=True)), nontrivial=True)
    vals = coq_vals(ctx, "objd", exprs, 40)
    XT["objd"] = (dcases, prepared)
    by_case = {}
    for v, ci in zip(vals, owner):
        by_case.setdefault(ci, []).append(v)
    nd = 0
    for ci, case in enumerate(dcases):
        ctx.cov["traces_validated_against_impl"] += len(by_case[ci])
        bad = objd_correspond(case, prepared[ci], by_case[ci])
        if bad:
            oc = dict(case)
            oc["kind"] = "obj"
            orc = obj_oracle(oc)
            for key, what in orc:
                ctx.violation(key, what, oc)
            for key, what in bad:
                nd += 1
                ctx.cov["disagreements_checked"] += 1
                ctx.violation(key, "model and implementation disagree (the object theorems no longer speak about this code): "
                              + what, dict(case), found_input=bool(orc))
    mid = dcases[len(dcases) // 2]
    ctx.sample({"kind": "objd", "case": {k: mid[k] for k in ("ty", "shape", "mask", "cfg")},
                "impl": np.abs(prepared[len(dcases) // 2]["out"]).ravel()[:6].tolist(), "model": str(by_case[len(dcases) // 2][0])[:300]})
    ctx.log("objects (correspondence): %d dyadic cases, %d model evaluations, %d disagreements" % (len(dcases), len(exprs), nd))

    # tomography clamp / shrinkage
    tcases = [gen_tomo_case(r) for _ in range(ctx.budget(40, 400))]
    touts = [tomo_out(c) for c in tcases]
    tvals = coq_vals(ctx, "tomo", [tomo_expr(c) for c in tcases], 40)
    XT["tomo"] = (tcases, touts)
    nd = 0
    for case, out, v in zip(tcases, touts, tvals):
        ctx.dist("tomo/positivity=%s,shrinkage=%s" % (case["positivity"], "off" if not case["shrinkage"] else
                                                      "positive" if case["shrinkage"] > 0 else "negative"))
        ctx.dist("tomo/model=%s" % ("ObjectDIP" if case.get("wrap") == "dip" else "ObjectVoxelwise"))
        ctx.count(("tomo", json.dumps(case, sort_keys=True)), nontrivial=case["positivity"] or bool(case["shrinkage"]))
        ctx.cov["traces_validated_against_impl"] += 1
        orc = tomo_oracle(case, out)
        for key, what in orc:
            ctx.violation(key, what, dict(case))
        model = np.array([float(fr_of(q)) for q in v]).reshape(case["shape"])
        if not np.array_equal(model, out.astype(np.float64)):
            nd += 1
            ctx.cov["disagreements_checked"] += 1
            ctx.violation("tomography-correspondence", "tomo_hard and ObjectVoxelwise.obj disagree: model %s, implementation %s"
                          % (model.ravel().tolist(), out.ravel().tolist()), dict(case), found_input=bool(orc))
    ctx.log("tomography: %d cases, %d disagreements" % (len(tcases), nd))


def check_probes(ctx: Ctx):
    r = ctx.rng
    cases = [dict(c) for c in _corpus() if c.get("kind") == "gs"]
    for _ in range(ctx.budget(200, 3000)):
        cases.append(gen_probe_case(r))
    nbad, worst = 0, 0.0
    for case in cases:
        out = gs_out(case)
        bad = gs_oracle(case, out)
        ctx.dist("gs/modes=%d" % case["K"])
        ctx.dist("gs/correlation=%.2f" % case["rho"])
        ctx.dist("gs/model=%s" % ("ProbeDIP" if case.get("wrap") == "dip" else "ProbePixelated"))
        if case.get("center"):
            ctx.dist("gs/center_probe")
        if case.get("tv_weight"):
            ctx.dist("gs/soft-tv_weight-set")
        ctx.count(("gs", json.dumps(case, sort_keys=True)), nontrivial=case["K"] > 1 and case["rho"] > 0)
        for key, what in bad:
            nbad += 1
            ctx.violation(key, what, dict(case))
    ctx.log("probe orthogonalisation (oracle): %d stacks, %d clause failures" % (len(cases), nbad))

    dcases = [dict(c) for c in _corpus() if c.get("kind") == "gsd"]
    for _ in range(ctx.budget(48, 600)):
        dcases.append(gen_probe_case(r, dyadic=True))
    outs = [gs_out(c) for c in dcases]
    vals = coq_vals(ctx, "gsd", [gsd_expr(c) for c in dcases], 4)
    XT["gsd"] = (dcases, outs)
    nd = 0
    for case, out, v in zip(dcases, outs, vals):
        ctx.dist("gsd/modes=%d" % case["K"])
        ctx.dist("gsd/correlation=%.2f" % case["rho"])
        ctx.count(("gsd", json.dumps(case, sort_keys=True)), nontrivial=case["K"] > 1)
        ctx.cov["traces_validated_against_impl"] += 1
        bad = gsd_correspond(case, out, v)
        if bad:
            orc = gs_oracle(case, out)
            for key, what in orc:
                ctx.violation(key, what, dict(case))
            for key, what in bad:
                nd += 1
                ctx.cov["disagreements_checked"] += 1
                ctx.violation(key, "model and implementation disagree (the Gram-Schmidt theorems no longer speak about this code): "
                              + what, dict(case), found_input=bool(orc))
    k = next((i for i, c in enumerate(dcases) if c["K"] == 3), 0)
    ctx.sample({"kind": "gsd", "modes": dcases[k]["K"], "roi": dcases[k]["roi"], "correlation": dcases[k]["rho"],
                "model_mode_intensities": [str(fr_of(m[1])) for m in vals[k]],
                "impl_mode_intensities": np.sum(np.abs(outs[k].astype(np.complex128)) ** 2, axis=(1, 2)).tolist()})
    ctx.log("probe orthogonalisation (correspondence): %d Gaussian-integer stacks, %d disagreements" % (len(dcases), nd))

    # round 3: the clamp_min branch and ties against orthogonalize_c eps2_code
    xcases = [dict(c) for c in _corpus() if c.get("kind") in ("xs", "xt", "xz")]
    for _ in range(ctx.budget(60, 400)):
        xcases.append(gen_exact_stack(r))
    for _ in range(ctx.budget(16, 80)):
        xcases.append(gen_tiny_stack(r))
    for _ in range(ctx.budget(12, 60)):
        xcases.append(gen_zero_stack(r))
    outs = [x_out(c) for c in xcases]
    vals = coq_vals(ctx, "gsx", [x_expr(c) for c in xcases], 8)
    nd = no = nties = 0
    stable_all = True
    for case, out, v in zip(xcases, outs, vals):
        orc, bad = x_check(case, out, v)
        flags = x_model(v)[2]
        cls = ("independent" if all((not z) and ge for z, ge in flags) else
               "zero/dependent modes (clamp acts, residual 0)" if all(z or ge for z, ge in flags) else "modes shorter than 1e-12 (clamp acts)")
        ctx.dist("gsx/%s=%s" % (case["kind"], cls))
        if case.get("_ties"):
            nties += 1
            ctx.dist("gsx/ties")
            stable_all = stable_all and bool(case.get("_stable"))
        c0 = {k: v_ for k, v_ in case.items() if not k.startswith("_")}
        ctx.count(("gsx", json.dumps(c0, sort_keys=True)), nontrivial=True)
        ctx.cov["traces_validated_against_impl"] += 1
        for key, what in orc:
            no += 1
            ctx.violation(key, what, dict(c0))
        for key, what in bad:
            nd += 1
            ctx.cov["disagreements_checked"] += 1
            ctx.violation(key, "clamp_min branch / ties (orthogonalize_c eps2_code and the theorems C10_gsc_* no longer describe this "
                          "code): " + what, dict(c0), found_input=bool(orc))
    ctx.cov["argsort_ties"] = {"stacks_with_ties": nties, "implementation_order_is_the_stable_one": bool(stable_all) if nties else None}
    k = next((i for i, c in enumerate(xcases) if c["kind"] == "xs" and c.get("_ties") and "repeat" in c.get("mode_kinds", [])), 0)
    ctx.sample({"kind": "gsx", "case": {kk: xcases[k].get(kk) for kk in ("kind", "K", "roi", "mode_kinds")},
                "input_mode_intensities": np.sum(np.abs(xcase_probe(xcases[k]).astype(np.complex128)) ** 2, axis=(1, 2)).tolist(),
                "model_mode_intensities": [str(q) for q in x_model(vals[k])[1]],
                "impl_mode_intensities": np.sum(np.abs(outs[k].astype(np.complex128)) ** 2, axis=(1, 2)).tolist()})
    ctx.log("probe orthogonalisation (clamp branch / ties): %d stacks (%d with ties; implementation order stable: %s), "
            "%d clause failures, %d disagreements" % (len(xcases), nties, stable_all if nties else None, no, nd))

    # round 3: ProbeParametric (its .probe runs the same apply_hard_constraints on the built probe)
    npar = 0
    for _ in range(ctx.budget(12, 100)):
        case = gen_parametric_case(r)
        bad = parametric_run(case)
        ctx.dist("parametric/center_probe=%s" % case["center"])
        ctx.count(("par", json.dumps(case, sort_keys=True)), nontrivial=True)
        for key, what in bad:
            npar += 1
            ctx.violation(key, what, dict(case))
    ctx.log("ProbeParametric: %d clause failures" % npar)


def check_weights(ctx: Ctx):
    r = ctx.rng
    cases = [dict(c) for c in _corpus() if c.get("kind") == "w"]
    for _ in range(ctx.budget(160, 2500)):
        cases.append(gen_weight_case(r))
    nbad = 0
    for case in cases:
        ip, req = weights_out(case)
        bad = weights_oracle(case, ip, req)
        ctx.dist("weights/modes=%d" % case["K"])
        ctx.dist("weights/route=%s" % case["route"])
        ctx.dist("weights/requested=%s" % ("default" if case["weights"] is None else "given"))
        if case.get("weights_edge"):
            ctx.dist("weights/edge=%s" % case["weights_edge"])
        if case.get("disparate_modes"):
            ctx.dist("weights/mode-strengths=disparate(1e-3..1e-6)")
        if case.get("earlier_means"):
            ctx.dist("weights/model-prepared-before=%d-times" % len(case["earlier_means"]))
        ctx.count(("w", json.dumps(case, sort_keys=True)), nontrivial=case["K"] > 1)
        for key, what in bad:
            nbad += 1
            ctx.violation(key, what, dict(case))
    ctx.log("initial probe (oracle): %d cases, %d clause failures" % (len(cases), nbad))

    dcases = [gen_weight_case(r, dyadic=True) for _ in range(ctx.budget(60, 800))]
    obs = [weights_out(c) for c in dcases]
    vals = coq_vals(ctx, "wd", [wd_expr(c, o[1]) for c, o in zip(dcases, obs)], 30)
    XT["wd"] = (dcases, obs)
    nd = 0
    for case, (ip, req), v in zip(dcases, obs, vals):
        ctx.dist("wd/modes=%d" % case["K"])
        if case.get("weights_edge"):
            ctx.dist("wd/edge=%s" % case["weights_edge"])
        ctx.count(("wd", json.dumps(case, sort_keys=True)), nontrivial=case["K"] > 1)
        ctx.cov["traces_validated_against_impl"] += 1
        bad = wd_correspond(case, ip, v)
        if bad:
            orc = weights_oracle(case, ip, req)
            for key, what in orc:
                ctx.violation(key, what, dict(case))
            for key, what in bad:
                nd += 1
                ctx.cov["disagreements_checked"] += 1
                ctx.violation(key, "model and implementation disagree (the weight theorems no longer speak about this code): "
                              + what, dict(case), found_input=bool(orc))
    k = next((i for i, c in enumerate(dcases) if c["K"] == 3 and c["weights"]), 0)
    ctx.sample({"kind": "wd", "modes": dcases[k]["K"], "mean": dcases[k]["mean"], "weights": dcases[k]["weights"],
                "model_mode_intensities": [str(fr_of(q)) for q in vals[k][0]],
                "impl_mode_intensities": np.sum(np.abs(obs[k][0].astype(np.complex128)) ** 2, axis=(1, 2)).tolist()})
    # the default weights of the model (theorem C10_weights_total_default) against the library's
    from quantem.diffractive_imaging.probe_models import ProbePixelated
    same = all(np.allclose(ProbePixelated.from_array(np.ones((n, 2, 2), np.complex64)).initial_probe_weights.numpy(),
                           [1 - 0.02 * (n - 1)] + [0.02] * (n - 1)) for n in range(1, 6))
    ctx.cov["default_weights_match_model"] = bool(same)
    # requests outside weights_admissible: the setter guards only the length (C10_weights_unguarded_refuted,
    # C10_weight_scale_negative).  Recorded, not judged: they are outside the property's domain.
    info = {}
    P3 = (np.arange(1, 13).reshape(3, 2, 2) * (1 + 0.5j)).astype(np.complex64)
    for name, ws in (("mixed_sign [2,-1,1]", [2.0, -1.0, 1.0]), ("zero_sum [1,-1,0]", [1.0, -1.0, 0.0]), ("all_zero", [0.0, 0.0, 0.0])):
        try:
            pm = ProbePixelated.from_array(P3.copy(), initial_probe_weights=ws, rng=1)
            pm.set_initial_probe((2, 2), np.array([0.1, 0.1]), 100.0)
            I = np.sum(np.abs(pm.initial_probe.detach().cpu().numpy().astype(np.complex128)) ** 2, axis=(1, 2))
            info[name] = "no exception; mode intensities %s" % ["nan" if v != v else "inf" if abs(v) == float("inf") else round(float(v), 4) for v in I]
        except Exception as e:          # noqa: BLE001 - recorded only
            info[name] = "%s: %s" % (type(e).__name__, str(e)[:80])
    try:
        ProbePixelated.from_array(P3.copy(), initial_probe_weights=[1.0, 1.0])
        info["wrong_length [1,1] for 3 modes"] = "no exception"
    except Exception as e:              # noqa: BLE001
        info["wrong_length [1,1] for 3 modes"] = "%s" % type(e).__name__
    ctx.cov["weights_outside_the_admissible_domain (recorded, not judged)"] = info
    ctx.log("initial probe (correspondence): %d dyadic cases, %d disagreements; library default weights = model default: %s"
            % (len(dcases), nd, same))


def check_insitu(ctx: Ctx):
    r = ctx.rng
    nbad = 0
    keys = {}
    n = ctx.budget(5, 40)
    for _ in range(n):
        case = gen_insitu_case(r)
        bad, info = insitu_run(case)
        ctx.dist("insitu/type=%s" % case["ty"])
        ctx.dist("insitu/fov_mask=%s" % ("fractional" if info["mask_fractional_pixels"] else "binary/ones"))
        ctx.count(("insitu", json.dumps(case, sort_keys=True)), nontrivial=True)
        ctx.cov["traces_validated_against_impl"] += 1
        for key, what in bad:
            nbad += 1
            keys[key] = keys.get(key, 0) + 1
            ctx.violation(key, "inside a preprocessed Ptychography object: " + what, dict(case))
        ctx.sample({"kind": "insitu", "case": {k: case[k] for k in ("ty", "S", "K", "pad", "weights")}, **info}, limit=8)
    ctx.log("in situ (toy Ptychography): %d objects, %d clause failures %s" % (n, nbad, keys or ""))


def run(ctx: Ctx):
    ctx.hash_sources("diffractive_imaging/object_models.py",
                     ["ObjectConstraints.apply_hard_constraints", "ObjectPixelated.obj", "ObjectBase.mask", "ObjectDIP.obj",
                      "ObjectConstraints.apply_soft_constraints"])
    ctx.hash_sources("diffractive_imaging/probe_models.py",
                     ["ProbeConstraints._probe_orthogonalization_constraint", "ProbeConstraints.apply_hard_constraints",
                      "ProbePixelated._apply_weights", "ProbePixelated.set_initial_probe", "ProbePixelated.initial_probe_weights",
                      "ProbePixelated._apply_random_phase_shifts", "ProbeConstraints._probe_center_of_mass_constraint",
                      "ProbePixelated.probe", "ProbeDIP.probe", "ProbeParametric.probe", "ProbeParametric._build_probe"])
    ctx.hash_sources("diffractive_imaging/constraints.py", ["BaseConstraints"])
    ctx.hash_sources("tomography/object_models.py", ["ObjectConstraints.apply_hard_constraints", "ObjectVoxelwise.obj", "ObjectDIP.obj"])
    ctx.cov["rule"] = (
        "objects: (type, 1-4 slices, 1..6 x 1..6 pixels, raw magnitudes unit / large / small / mixed with exact 0 and 1 / "
        "10^+-30, any phase, FOV mask none / ones / binary / soft / blurred edge, random constraint dictionary without "
        "smoothing filters) -> every clause of the property text on ObjectPixelated.obj, including re-application; dyadic "
        "cases (amplitude k/8, phase k/16 with |phase| <= 3, mask k/8, potential k/8) -> entrywise against hard_polar / "
        "hard_potential / tie_if; tomography volumes k/16 against tomo_hard (exact).  probes: 1-5 modes in C^(h*w) built from an "
        "orthonormal frame with pairwise correlation exactly 0 / 0.3 / 0.9 / 0.99, random norms 1e-3..1e3 and phases -> "
        "orthogonality, intensity multiset, descending order on ProbePixelated.probe; Gaussian-integer stacks (distinct "
        "intensities) -> every mode against sqrt(s) u of `orthogonalize`.  initial probe: from_array and from_params, given or "
        "default weights, mean 1e-2..1e6 -> total diffraction intensity and relative mode intensities; Gaussian-integer stacks, "
        "dyadic weights and means -> mode intensities and |initial_probe| against apply_weights / weight_scales.  in situ: "
        "complete toy Ptychography objects.  A case is distinct by its full input; non-trivial when a mask is applied, slices "
        "are tied or a clause is active (objects), more than one correlated mode (probes).  Round 3 dimensions: object model "
        "ObjectPixelated / ObjectDIP (pass-through network), probe model ProbePixelated / ProbeDIP, ProbeParametric (one mode, "
        "defocus / C30 / centre), tomography ObjectVoxelwise / ObjectDIP with positivity x shrinkage off / 0.0 / positive / "
        "negative and the ignored keys; soft-constraint entries (tv weights, surface_zero_weight, butterworth_order without a "
        "cut-off, probe tv_weight, tv_vol) set and evaluated -> object unchanged bit for bit; center_probe on 30 % of the "
        "stacks; stacks on which complex64 Gram-Schmidt is exact (disjoint-support basis vectors with power-of-two entries: "
        "repeated / combined / zero modes = exactly dependent, equal norms = ties), Gaussian integers * 2^-50 (modes shorter "
        "than 1e-12), correlated Gaussian-integer stacks with one zero mode -> orthogonalize_c eps2_code (intensity sequence, "
        "modes up to the order inside a tie group) and the clauses that survive; requested weights with exact zeros or all "
        "negative")
    ctx.assumptions += [
        "torch.abs / torch.angle / torch.exp / torch.clamp on complex64 and float32 tensors are the real functions to within "
        "the stated tolerances (amplitude 3e-6, re-application 5e-6, model-vs-implementation 2e-5 on unit-scale pixels)",
        "torch.fft.fft2(norm='ortho') is unitary (Parseval): the total diffraction intensity of a mode equals its real-space "
        "intensity; the oracle measures the diffraction intensity with numpy.fft on the returned initial_probe",
        "linear independence of the mode stack is the premise of C10_gs_orthogonal / C10_gs_intensity_multiset; the clamp_min(1e-12) "
        "guard is modelled (orthogonalize_c) and proved idle when every exact residual is >= 1e-12 long "
        "(C10_gsc_clamp_idle_is_model); in complex64 a numerically dependent mode leaves a rounding-noise residual that is "
        "normalised to full intensity - outside the quantifier, exercised only where the arithmetic is exact",
        "torch.argsort(descending=True) returns a permutation that sorts; the order inside a group of equal intensities is "
        "not assumed (C10_gs_any_tiebreak_same_intensities), the observed order is recorded in coverage.argsort_ties",
        "the Fourier shift of center_probe (fourier_shift_expand with ONE shift) is unitary on the whole stack: premise "
        "`isometry` of C10_common_isometry_preserves; validated by the orthogonality / intensity oracle on centred stacks",
    ]
    ctx.cov["trusted_base"] += [
        "Coq 8.16.1 kernel incl. vm_compute (used to run the model); no native_compute",
        "hand-written model coq/model/C10_Model.v + coq/lib/C10_Cplx.v tied to /repo by this correspondence run; the model "
        "describes /repo with fixes/C10-pure-phase-fov-mask.diff applied",
        "harness/props/C10.py (generators, float64 oracle, Python->Coq printers, sqrt(s) u reconstruction), harness/common.py",
        "complex / pure-phase objects are modelled in amplitude-phase form over Q (amplitude = torch.abs, phase = torch.angle); "
        "Gram-Schmidt over Q(i) with the normalise-and-restore step as the squared scale |p|^2/|u|^2 (no square roots in the "
        "theorems); floating point is not modelled",
        "round 3: the clamp is modelled on squared norms (max(|u|, eps)^2 = max(|u|^2, eps^2), eps^2 = 1e-24 exactly; the code "
        "compares in float32 with float32(1e-12), relative difference 4e-9); the DIP wrappers are reached through a "
        "pass-through torch module defined in harness/props/C10.py (forward(x) = 0 * x + parameter)",
    ]
    ctx.proofs_or_violation()
    # round 4: the translator tie (the four anchored functions, re-translated and re-proved on this run)
    try:
        from ..translate_C10 import run_tie
        run_tie(ctx)
    except Exception as e:  # noqa: BLE001 - fail closed
        ctx.broken_obligation = "; ".join(filter(None, [ctx.broken_obligation, "translator tie could not run: %r" % (e,)]))
        ctx.log("PROOF OBLIGATION BROKEN (translator tie could not run): %r" % (e,))
    import torch
    torch.set_num_threads(2)
    XT.clear()
    check_objects(ctx)
    check_probes(ctx)
    check_weights(ctx)
    check_insitu(ctx)
    if ctx.cov.get("translator_tie", {}).get("compiled"):
        cross_test(ctx)
    ctx.cov["worst_observed_vs_tolerance"] = WORST
    kf = [k for k in ctx._known().get("known", []) if k.get("property") == "C10"]
    for k in kf:
        if k["key"] not in ctx.cov["known_findings_seen"]:
            ctx.expect_known(k["key"])


# ------------------------------------------------------------------------------------------

def replay(ctx: Ctx, path):
    rp = json.loads(open(path).read())
    kind = rp.get("kind")
    import torch  # noqa: F401
    bad = []
    if kind in ("obj", "objd"):
        oc = dict(rp)
        oc["kind"] = "obj"
        out = obj_out(oc)
        print("input: %s object (%s), shape %s, constraints %s" % (rp["ty"], rp.get("wrap", "pixelated"), rp["shape"], rp["cfg"]))
        print("FOV mask:", rp["mask"])
        print("raw parameters:", case_raw(oc).ravel().tolist())
        print("obj_model.obj:", out.ravel().tolist())
        print("amplitude:", np.abs(out).ravel().tolist())
        bad = obj_oracle(oc, out) + obj_soft_check(oc, out)
        if kind == "objd":
            obs, exprs = objd_prepare(rp)
            vals = coq_vals(ctx, "replay", exprs, 10)
            print("model:", vals[0])
            bad += objd_correspond(rp, obs, vals)
    elif kind == "tomo":
        out = tomo_out(rp)
        v = coq_vals(ctx, "replay", [tomo_expr(rp)], 1)[0]
        model = np.array([float(fr_of(q)) for q in v]).reshape(rp["shape"])
        print("input:", rp["raw"], "positivity", rp["positivity"], "shrinkage", rp["shrinkage"])
        print("ObjectVoxelwise.obj:", out.ravel().tolist())
        print("model:", model.ravel().tolist())
        bad = tomo_oracle(rp, out)
        if not np.array_equal(model, out.astype(np.float64)):
            bad.append(("tomography-correspondence", "model and implementation differ"))
    elif kind in ("gs", "gsd"):
        out = gs_out(rp)
        O = out.astype(np.complex128).reshape(rp["K"], -1)
        print("input: %d modes, roi %s, pairwise correlation %.2f, center_probe %s, model %s"
              % (rp["K"], rp["roi"], rp["rho"], bool(rp.get("center")), rp.get("wrap", "pixelated")))
        print("input mode intensities:", np.sum(np.abs(case_probe(rp).astype(np.complex128)) ** 2, axis=(1, 2)).tolist())
        print("output mode intensities:", np.sum(np.abs(O) ** 2, axis=1).tolist())
        print("|Gram| of the output:", np.abs(O.conj() @ O.T).tolist())
        bad = gs_oracle(rp, out)
        if kind == "gsd":
            bad += gsd_correspond(rp, out, coq_vals(ctx, "replay", [gsd_expr(rp)], 1)[0])
    elif kind in ("xs", "xt", "xz"):
        out = x_out(rp)
        v = coq_vals(ctx, "replay", [x_expr(rp)], 1)[0]
        modes, inten, flags, kept = x_model(v)
        print("input: %d modes, roi %s, kind %s %s" % (rp["K"], rp["roi"], kind, rp.get("mode_kinds", "")))
        print("input mode intensities:", np.sum(np.abs(xcase_probe(rp).astype(np.complex128)) ** 2, axis=(1, 2)).tolist())
        print("exact residual flags (zero, >= 1e-12):", flags)
        print("output mode intensities:", np.sum(np.abs(out.astype(np.complex128)) ** 2, axis=(1, 2)).tolist())
        print("orthogonalize_c eps2_code:", [float(q) for q in inten], "kept:", [float(q) for q in kept])
        orc, b2 = x_check(rp, out, v)
        bad = orc + b2
    elif kind == "par":
        print("input:", rp)
        bad = parametric_run(rp)
    elif kind in ("w", "wd"):
        ip, req = weights_out(rp)
        I = np.sum(np.abs(np.fft.fft2(ip.astype(np.complex128), norm="ortho")) ** 2, axis=(1, 2))
        print("input: %d modes via %s, requested weights %s, mean intensity %r" % (rp["K"], rp["route"], rp["weights"], rp["mean"]))
        print("diffraction intensity per mode:", I.tolist(), "total:", float(I.sum()))
        print("relative:", (I / I.sum()).tolist(), "requested:", (req / req.sum()).tolist())
        bad = weights_oracle(rp, ip, req)
        if kind == "wd":
            bad += wd_correspond(rp, ip, coq_vals(ctx, "replay", [wd_expr(rp, req)], 1)[0])
    elif kind == "insitu":
        bad, info = insitu_run(rp)
        print("input:", {k: rp[k] for k in ("seed", "scan", "dose", "K", "ty", "S", "pad", "weights", "cfg")})
        print(info)
    else:
        print("replay of kind %r: re-run ./check C10 (%s)" % (kind, rp.get("what", "")[:400]))
        return 0
    known = {k["key"] for k in ctx._known().get("known", []) if k.get("property") == "C10"}
    for key, what in bad:
        print("oracle/correspondence: [%s]%s %s" % (key, " (listed in known_findings.json)" if key in known else "", what))
    bad = [b for b in bad if b[0] not in known]
    if not bad:
        print("oracle: property holds on this case (known findings aside)")
    return 1 if bad else 0
