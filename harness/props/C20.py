"""C20 — display normalisation is a monotone map into [0, 1] with invertible stretches.

Obligations
  coq/props/C20_Properties.v            theorems about the executable model (NaN / inf algebra for
                                        any carrier, quantile / min-max / centred limits over Q)
  coq/gen_proofs/C20_GenProperties.v    theorems about the functions TRANSLATED on this run from
                                        the current custom_normalizations.py (harness/translate_norm.py
                                        -> build/C20/Gen_Norm.v), proved by the fixed script
                                        coq/gen_proofs/C20_GenProofs.v + proof/C20_RLemmas.v
Ties
  (2) translator cross-test: every generated function is enclosed with the `interval` tactic at
      rational points and must contain the implementation's float result
  (3) executable model vs implementation: interval map (binary64 transcription bit-exact, Q model
      to rounding), limits of the three interval types, masks — arrays with NaN / inf, int and
      float dtypes
  (4) oracle: the property text evaluated on CustomNormalization(...)(data), the stretch /
      inverse pairs, the presets and the normalisation objects built by visualization.py
"""
from __future__ import annotations

import json
import math
import re
import threading
import warnings
from fractions import Fraction
from pathlib import Path

import numpy as np

from .. import translate_norm as TN
from ..common import COQ, COQ_FLAGS, SRC, VERIF, Ctx, cfloat, clist, copt, cq, parse_coq_value, sh

SRC_REL = "core/visualization/custom_normalizations.py"
VIS_REL = "core/visualization/visualization.py"
GEN_DIR = COQ / "gen_proofs"

EXPECTED_STRETCHES = ["LinearStretch", "PowerLawStretch", "LogarithmicStretch", "InverseLogarithmicStretch",
                      "InverseHyperbolicSineStretch", "HyperbolicSineStretch"]
EXPECTED_PAIRS = {"LinearStretch": "LinearStretch", "PowerLawStretch": "PowerLawStretch",
                  "LogarithmicStretch": "InverseLogarithmicStretch",
                  "InverseLogarithmicStretch": "LogarithmicStretch",
                  "InverseHyperbolicSineStretch": "HyperbolicSineStretch",
                  "HyperbolicSineStretch": "InverseHyperbolicSineStretch"}
EXPECTED_CN_STRETCHES = {"PowerLawStretch", "LinearStretch", "LogarithmicStretch", "InverseHyperbolicSineStretch"}
EXPECTED_CN_INTERVALS = {"QuantileInterval", "ManualInterval", "CenteredInterval"}

TOL = 1e-9          # "to numerical precision" for range / endpoints / inverse on [0, 1]
MONO_TOL = 1e-12    # rounding slack when comparing neighbouring outputs

PRE = """From QV.lib Require Import Prelude FloatBits.
From QV.model Require Import C20_Model.
From Coq Require Import QArith PrimFloat.
Local Close Scope Q_scope.
"""


def coq_values(ctx, name, exprs, shard):
    """ctx.coq_eval + parsing; scope delimiters (`(-5)%Z`) are stripped first"""
    raw = ctx.coq_eval(name, PRE, exprs, shard=shard, parse=False)
    return [parse_coq_value(re.sub(r"\s+", " ", re.sub(r"%\w+", "", v))) for v in raw]


def _quiet():
    warnings.simplefilter("ignore")
    return np.errstate(all="ignore")


def CN():
    import quantem.core.visualization.custom_normalizations as m
    return m


# ==========================================================================================
# (1) proofs


def _enclosing_lemma(script: Path, out: str) -> str:
    m = re.search(r'line (\d+), characters', out)
    if not m:
        return ""
    ln = int(m.group(1))
    name = ""
    for i, line in enumerate(script.read_text().splitlines(), 1):
        if i > ln:
            break
        mm = re.match(r"\s*(?:Lemma|Theorem|Example|Definition)\s+(\w+)", line)
        if mm:
            name = mm.group(1)
    return name


GEN_FLAGS = lambda ctx: COQ_FLAGS + ["-Q", str(ctx.dir), "Gen20"]  # noqa


def static_proofs(ctx: Ctx, problems: list):
    """theorems about the hand-written executable model (coq/props/C20_Properties.v)"""
    rc, out = ctx.coq_make(["props/C20_Properties.vo", "proof/C20_RLemmas.vo", "lib/C20_NpReal.vo"])
    if rc != 0:
        (ctx.dir / "make_failure.log").write_text(out)
    if not ctx.require_proofs():
        problems += ctx._proof_problems
    return ctx.cov["checker_cmd"]


def _theorems_of(path: Path):
    return re.findall(r"(?m)^\s*Theorem\s+(\w+)", path.read_text())


def _not_checked(ctx, path: Path, why: str):
    ths = _theorems_of(path)
    ctx.cov["obligations"] += len(ths)
    for th in ths:
        ctx.cov["theorems"][th] = "NOT CHECKED (%s)" % why


def translate_phase(ctx: Ctx, problems: list):
    """translate the CURRENT sources and compile the generated files; returns (T, C):
    T  Translation of custom_normalizations.py (None: rejected), Gen_Norm.vo present iff it compiled
    C  ConfigTranslation (None: rejected), Gen_Cfg.vo present iff it compiled"""
    src = SRC / "quantem" / SRC_REL
    vis = SRC / "quantem" / VIS_REL
    T = None
    try:
        T = TN.translate(src)
        ctx.cov["translator"] = {"status": "ok", "source_sha256": T.source_sha256}
    except TN.DtypeError as e:
        problems.append("translator (fail closed): %s" % e)
        ctx.cov["translator"] = {"status": "rejected: integer-dtype arithmetic", "error": str(e)}
        try:
            T = TN.translate(src, strict_dtype=False)
            ctx.cov["translator"]["note"] = ("re-translated with every array operation read as real arithmetic, only "
                                             "to keep checking the remaining obligations")
        except TN.TranslateError as e2:
            problems.append("translator (lenient) also failed: %s" % e2)
    except TN.TranslateError as e:
        problems.append("translator (fail closed): source outside the accepted grammar: %s" % e)
        ctx.cov["translator"] = {"status": "rejected", "error": str(e)}
    except Exception as e:  # noqa  (syntax error in the source, missing file ...)
        problems.append("translator could not read the source: %r" % e)
        ctx.cov["translator"] = {"status": "failed", "error": repr(e)}

    for stale in ("Gen_Norm.vo", "Gen_Cfg.vo", "C20_GenProofs.vo", "C20_GenProofs2.vo", "C20_GenProofsCfg.vo",
                  "C20_GenProperties.vo", "C20_GenPropertiesCfg.vo"):
        if (ctx.dir / stale).exists():
            (ctx.dir / stale).unlink()
    flags = GEN_FLAGS(ctx)
    if T is not None:
        if list(T.stretches) != EXPECTED_STRETCHES or T.pairs != EXPECTED_PAIRS \
                or set(T.cn_stretches) != EXPECTED_CN_STRETCHES or set(T.cn_intervals) != EXPECTED_CN_INTERVALS:
            problems.append("the set of stretch / interval classes or their inverse pairing changed: the fixed "
                            "theorems no longer cover the source (stretches=%s pairs=%s constructed=%s/%s)"
                            % (T.stretches, T.pairs, T.cn_stretches, T.cn_intervals))
        gen = ctx.dir / "Gen_Norm.v"
        gen.write_text(TN.coq_text(T))
        rc, out = sh(["timeout", "300", "coqc"] + flags + [str(gen)], cwd=ctx.dir, timeout=330)
        if rc != 0:
            problems.append("generated file Gen_Norm.v does not compile:\n" + "\n".join(out.strip().splitlines()[-12:]))

    C = None
    try:
        C = TN.translate_config(src.read_text(), vis.read_text())
        ctx.cov["translator_config"] = {"status": "ok", "config_fields": [f[0] for f in C.fields],
                                        "constructor_parameters": [p[0] for p in C.params],
                                        "presets": sorted(C.presets)}
    except TN.TranslateError as e:
        problems.append("configuration translator (fail closed): %s" % e)
        ctx.cov["translator_config"] = {"status": "rejected", "error": str(e)}
    except Exception as e:  # noqa
        problems.append("configuration translator could not read the sources: %r" % e)
        ctx.cov["translator_config"] = {"status": "failed", "error": repr(e)}
    if C is not None and (ctx.dir / "Gen_Norm.vo").exists():
        gen = ctx.dir / "Gen_Cfg.v"
        gen.write_text(TN.config_coq_text(C))
        rc, out = sh(["timeout", "300", "coqc"] + flags + [str(gen)], cwd=ctx.dir, timeout=330)
        if rc != 0:
            problems.append("generated file Gen_Cfg.v does not compile:\n" + "\n".join(out.strip().splitlines()[-12:]))
    return T, C


class GenChain(threading.Thread):
    """the fixed proof scripts over the generated files, then the property files (Print
    Assumptions parsed by the framework).  Runs next to the Python-side checks: it only touches the
    proof-related keys of ctx.cov (obligations / discharged / theorems / trusted_base / checker_cmd)."""

    def __init__(self, ctx):
        super().__init__(daemon=True)
        self.ctx = ctx
        self.problems: list = []
        self.error = None

    def _script(self, name):
        ctx = self.ctx
        script = GEN_DIR / (name + ".v")
        rc, out = sh(["timeout", "600", "coqc"] + GEN_FLAGS(ctx) + ["-o", str(ctx.dir / (name + ".vo")), str(script)],
                     cwd=ctx.dir, timeout=630)
        (ctx.dir / (name + ".out")).write_text(out)
        if rc != 0:
            lem = _enclosing_lemma(script, out)
            self.problems.append("the model translated from the current source no longer satisfies the fixed proof "
                                 "script %s.v (at `%s`):\n%s" % (name, lem, "\n".join(out.strip().splitlines()[-14:])))
            return "fixed proof script %s fails at %s" % (name, lem)
        return None

    def _props(self, name):
        ctx = self.ctx
        if not ctx.require_proofs(props_name=name, props_path=GEN_DIR / (name + ".v"),
                                  extra_flags=["-Q", str(ctx.dir), "Gen20"], make_targets=[]):
            self.problems += ctx._proof_problems

    def run(self):
        try:
            self._run()
        except Exception as e:  # noqa
            import traceback
            self.error = traceback.format_exc()
            self.problems.append("proof chain died: %r" % e)

    def _run(self):
        ctx = self.ctx
        gp, gpc = GEN_DIR / "C20_GenProperties.v", GEN_DIR / "C20_GenPropertiesCfg.v"
        scripts = [GEN_DIR / (n + ".v") for n in ("C20_GenProofs", "C20_GenProofs2", "C20_GenProofsCfg")]
        gens = [f for f in (ctx.dir / "Gen_Norm.v", ctx.dir / "Gen_Cfg.v") if f.exists()]
        bad = ctx.static_scan(gens + scripts + [gp, gpc])
        if bad:
            self.problems.append("forbidden declarations: %s" % bad[:5])
        why = None
        if not (ctx.dir / "Gen_Norm.vo").exists():
            why = "translator rejected the source / generated file does not compile"
        else:
            why = self._script("C20_GenProofs") or self._script("C20_GenProofs2")
        if why:
            _not_checked(ctx, gp, why)
            _not_checked(ctx, gpc, why)
            return
        self._props("C20_GenProperties")
        if not (ctx.dir / "Gen_Cfg.vo").exists():
            why = "configuration translator rejected the sources / generated file does not compile"
        else:
            why = self._script("C20_GenProofsCfg")
        if why:
            _not_checked(ctx, gpc, why)
            return
        self._props("C20_GenPropertiesCfg")


# ==========================================================================================
# (2) translator cross-test with `interval`


def _fr(x) -> Fraction:
    return Fraction(*float(x).as_integer_ratio())


def _cr(fr) -> str:
    fr = Fraction(fr)
    if fr.denominator == 1:
        return "%d" % fr.numerator if fr.numerator >= 0 else "(- %d)" % -fr.numerator
    if fr.numerator >= 0:
        return "(%d / %d)" % (fr.numerator, fr.denominator)
    return "(- (%d / %d))" % (-fr.numerator, fr.denominator)


def _copt_r(v):
    return "None" if v is None else "(Some %s)" % _cr(_fr(v))


XT_TACTIC = r"""
Ltac xt_dec := first [ lra | interval with (i_prec 80) ].
Ltac xt_if :=
  match goal with
  | |- context [Req_EM_T ?a ?b] =>
    let xe := fresh "xe" in let xn := fresh "xn" in
    first
      [ destruct (Req_EM_T a b) as [xe | xn];
        [ exfalso; first [ apply (Rlt_not_eq a b); [xt_dec | exact xe]
                         | apply (Rgt_not_eq a b); [xt_dec | exact xe] ]
        | clear xn ]
      | destruct (Req_EM_T a b) as [xe | xn];
        [ clear xe | exfalso; apply xn; first [ reflexivity | lra | field ] ] ]
  end.
Ltac xt_minmax :=
  match goal with
  | |- context [Rmax ?a ?b] =>
    first [ rewrite (Rmax_left a b) by xt_dec | rewrite (Rmax_right a b) by xt_dec ]
  | |- context [Rmin ?a ?b] =>
    first [ rewrite (Rmin_left a b) by xt_dec | rewrite (Rmin_right a b) by xt_dec ]
  end.
Ltac xt := xt_unfold; repeat first [ xt_if | xt_minmax ]; interval with (i_prec 80).
"""


def build_crosstest(ctx: Ctx, T):
    """list of (label, coq_expression, implementation float) — one per generated function and point"""
    m = CN()
    r = ctx.rng
    pts = []
    n_x = ctx.budget(3, 14)
    n_rp = ctx.budget(1, 2)          # random parameter sets per class, next to the fixed ones

    def xs():
        base = [0.0, 1.0, -0.5, 1.75, 0.5]
        return base + [r.randrange(1, 64) / 64.0 for _ in range(n_x)]

    def params_for(cls):
        if cls == "PowerLawStretch":
            return [(1.0,), (0.5,), (2.0,)] + [(r.randrange(1, 48) / 8.0,) for _ in range(n_rp)]
        if cls in ("LogarithmicStretch", "InverseLogarithmicStretch"):
            return [(1000.0,), (0.125,)] + [(r.choice([0.5, 3.0, 17.25, 250.0, 4096.0]),) for _ in range(n_rp)]
        if cls == "InverseHyperbolicSineStretch":
            return [(0.1,), (2.0,)] + [(r.randrange(1, 40) / 16.0,) for _ in range(n_rp)]
        if cls == "HyperbolicSineStretch":
            return [(1.0 / 3.0,), (2.0,)] + [(r.randrange(3, 40) / 16.0,) for _ in range(n_rp)]
        if cls == "LinearStretch":
            return [(1.0, 0.0), (0.5, 0.25), (1.0, 0.125), (2.0, 0.0), (-0.5, 0.75)]
        raise AssertionError(cls)

    with _quiet():
        for cls in T.stretches:
            C = getattr(m, cls)
            for ps in params_for(cls):
                obj = C(*ps)
                ptxt = " ".join(_cr(_fr(p)) for p in ps)
                for x in xs():
                    y = float(np.asarray(obj(np.array([x], dtype=np.float64)))[0])
                    pts.append(("%s%s(%r)" % (cls, ps, x), "%s_call %s %s" % (cls, ptxt, _cr(_fr(x))), y))
                    if cls == "LinearStretch" and ps[0] == 0:
                        continue
                    yi = float(np.asarray(obj.inverse(np.array([x], dtype=np.float64)))[0])
                    pts.append(("%s%s.inverse(%r)" % (cls, ps, x),
                                "%s_inverse_call %s %s" % (cls, ptxt, _cr(_fr(x))), yi))
            obj = C()
            for x in xs()[:4]:
                y = float(np.asarray(obj(np.array([x], dtype=np.float64)))[0])
                pts.append(("%s()(%r)" % (cls, x), "%s_default_call %s" % (cls, _cr(_fr(x))), y))
        # interval map / inverse
        lims = [(1.0, 5.0), (-2.5, 0.75), (3.0, 3.0), (0.0, 1.0), (5.0, 1.0), (-8.0, 1024.0)]
        for vmin, vmax in lims:
            iv = m.ManualInterval(vmin, vmax)
            cand = [vmin, vmax, (vmin + vmax) / 2, vmin - 1.5, vmax + 2.25, vmin + (vmax - vmin) * 0.1875,
                    vmin + 0.375]
            for x in cand:
                y = float(iv(np.array([x], dtype=np.float64))[0])
                pts.append(("interval_map(%r,%r)(%r)" % (vmin, vmax, x),
                            "interval_map %s %s %s" % (_cr(_fr(vmin)), _cr(_fr(vmax)), _cr(_fr(x))), y))
            for yv in (0.0, 1.0, 0.3125):
                xv = float(iv.inverse(np.array([yv], dtype=np.float64))[0])
                pts.append(("interval_inverse(%r,%r)(%r)" % (vmin, vmax, yv),
                            "interval_inverse %s %s %s" % (_cr(_fr(vmin)), _cr(_fr(vmax)), _cr(_fr(yv))), xv))
        # get_limits
        data = np.array([3.0, -1.5, np.nan, 7.25, np.inf, 0.5, -np.inf])
        dmin, dmax = -1.5, 7.25
        for a, b in [(None, None), (0.25, None), (None, 4.5), (1.0, 2.0)]:
            lo, hi = m.ManualInterval(a, b).get_limits(data)
            e = "ManualInterval_get_limits %s %s %s %s" % (_copt_r(a), _copt_r(b), _cr(_fr(dmin)), _cr(_fr(dmax)))
            pts.append(("ManualInterval(%r,%r).vmin" % (a, b), "fst (%s)" % e, float(lo)))
            pts.append(("ManualInterval(%r,%r).vmax" % (a, b), "snd (%s)" % e, float(hi)))
        for c, h in [(0.0, None), (1.0, None), (10.0, None), (-4.0, None), (2.0, 3.5)]:
            lo, hi = m.CenteredInterval(c, h).get_limits(data)
            e = "CenteredInterval_get_limits %s %s %s %s" % (_cr(_fr(c)), _copt_r(h), _cr(_fr(dmin)), _cr(_fr(dmax)))
            pts.append(("CenteredInterval(%r,%r).vmin" % (c, h), "fst (%s)" % e, float(lo)))
            pts.append(("CenteredInterval(%r,%r).vmax" % (c, h), "snd (%s)" % e, float(hi)))
        lin = np.concatenate([np.linspace(0.0, 16.0, 17), [np.nan, np.inf]])     # quantile(q) = 16 q
        for lq, uq in [(0.02, 0.98), (0.25, 0.5), (0.0, 1.0)]:
            lo, hi = m.QuantileInterval(lq, uq).get_limits(lin)
            e = "QuantileInterval_get_limits (fun q => 16 * q) %s %s" % (_cr(_fr(lq)), _cr(_fr(uq)))
            pts.append(("QuantileInterval(%r,%r).vmin" % (lq, uq), "fst (%s)" % e, float(lo)))
            pts.append(("QuantileInterval(%r,%r).vmax" % (lq, uq), "snd (%s)" % e, float(hi)))
        # the composition, through the constructors CustomNormalization uses
        combos = [("linear", {}, "CustomNormalization_stretch_LinearStretch", (), "LinearStretch_default_inverse_call"),
                  ("power", {"power": 0.5}, "CustomNormalization_stretch_PowerLawStretch", (0.5,),
                   "PowerLawStretch_inverse_call"),
                  ("power", {"power": 3.0}, "CustomNormalization_stretch_PowerLawStretch", (3.0,),
                   "PowerLawStretch_inverse_call"),
                  ("logarithmic", {"logarithmic_index": 64.0}, "CustomNormalization_stretch_LogarithmicStretch",
                   (64.0,), "LogarithmicStretch_inverse_call"),
                  ("asinh", {"asinh_linear_range": 0.25}, "CustomNormalization_stretch_InverseHyperbolicSineStretch",
                   (0.25,), "InverseHyperbolicSineStretch_inverse_call")]
        for st, kw, gname, ps, iname in combos:
            if gname[len("CustomNormalization_stretch_"):] not in T.cn_stretches:
                continue
            vmin, vmax = -1.0, 3.0
            N = m.CustomNormalization("manual", st, vmin=vmin, vmax=vmax, **kw)
            ptxt = "".join(" " + _cr(_fr(p)) for p in ps)
            for x in [-1.0, 3.0, 0.25, 2.5, -7.0, 11.0]:
                y = float(np.ma.filled(N(np.array([x])), np.nan)[0])
                pts.append(("CustomNormalization(manual,%s,%s)(%r)" % (st, kw, x),
                            "CustomNormalization_call (interval_map %s %s) (%s%s) %s" % (
                                _cr(_fr(vmin)), _cr(_fr(vmax)), gname, ptxt, _cr(_fr(x))), y))
            for yv in [0.0, 1.0, 0.4375]:
                xv = float(np.asarray(N.inverse(np.array([yv])))[0])
                pts.append(("CustomNormalization(manual,%s,%s).inverse(%r)" % (st, kw, yv),
                            "CustomNormalization_inverse (%s%s) (interval_inverse %s %s) %s" % (
                                iname, ptxt, _cr(_fr(vmin)), _cr(_fr(vmax)), _cr(_fr(yv))), xv))
    return pts


CFG_TACTIC = r"""
Ltac cfg_req :=
  repeat match goal with
         | |- context [Req_EM_T ?a ?b] =>
           let e := fresh "e" in let n := fresh "n" in
           destruct (Req_EM_T a b) as [e | n];
           [ try (exfalso; lra) | try (exfalso; apply n; lra) ]
         end.
Ltac cfg_xt :=
  cbv beta iota delta [show_2d_array_args show_2d_combined_args CN_init_interval CN_init_stretch so_domain
    a_interval_type a_stretch_type a_lower_quantile a_upper_quantile a_vmin a_vmax a_vcenter
    a_half_range a_power a_logarithmic_index a_asinh_linear_range
    nc_interval_type nc_stretch_type nc_lower_quantile nc_upper_quantile nc_vmin nc_vmax nc_vcenter
    nc_half_range nc_power nc_logarithmic_index nc_asinh_linear_range
    LinearStretch_domain PowerLawStretch_domain LogarithmicStretch_domain InverseLogarithmicStretch_domain
    InverseHyperbolicSineStretch_domain HyperbolicSineStretch_domain];
  cbn [String.eqb Ascii.eqb Bool.eqb];
  cfg_req;
  first [ reflexivity | exact I | lra | (intros ?; lra) | (intros Hdom; apply Hdom; lra) ].
"""


def crosstest_file(T, pts, indices, with_cfg) -> str:
    """one shard: the points pts[i] for i in indices (global numbering in the XT-FAIL markers)"""
    names = list(T.defs) + ["np_clip", "np_power", "fst", "snd"]
    for s in T.stretches:
        names += [s + "_default_inverse_call"]
    lines = ["From Coq Require Import Reals Lra String.", "From Interval Require Import Tactic.",
             "From QV.lib Require Import C20_NpReal.", "From Gen20 Require Import Gen_Norm.",
             "From Gen20 Require Import Gen_Cfg." if with_cfg else "",
             "Local Open Scope R_scope.",
             "Ltac xt_unfold := cbv beta iota delta [%s]." % " ".join(names), XT_TACTIC,
             CFG_TACTIC if with_cfg else ""]
    for i in indices:
        label, expr, y = pts[i]
        if isinstance(expr, tuple):          # ("prop", <Coq proposition about the configuration path>)
            if not with_cfg:
                lines.append('Goal True. idtac "XT-FAIL %d". exact I. Qed.' % i)
                continue
            lines.append('Goal True. first [ assert (%s) by cfg_xt | idtac "XT-FAIL %d" ]. exact I. Qed.' % (expr[1], i))
            continue
        if not math.isfinite(y):
            lines.append('Goal True. idtac "XT-NONFINITE %d". exact I. Qed.' % i)
            continue
        tol = Fraction(1, 10 ** 11) * max(1, abs(_fr(y)))
        lo, hi = _fr(y) - tol, _fr(y) + tol
        lines.append('Goal True. first [ assert (%s <= %s <= %s) by xt | idtac "XT-FAIL %d" ]. exact I. Qed.'
                     % (_cr(lo), expr, _cr(hi), i))
    return "\n".join(lines) + "\n"


class CrossTest(threading.Thread):
    """the enclosure / configuration goals, sharded over several coqc processes (each `interval`
    call costs ~0.1 s; one process took 70 s of the quick tier)"""

    N_SHARDS = 12

    def __init__(self, ctx, T, pts, with_cfg):
        super().__init__(daemon=True)
        self.ctx, self.T, self.pts, self.with_cfg = ctx, T, pts, with_cfg
        self.rc, self.out = None, ""

    def run(self):
        from concurrent.futures import ThreadPoolExecutor
        n = len(self.pts)
        k = max(1, min(self.N_SHARDS, n // 20 or 1))
        shards = [list(range(j, n, k)) for j in range(k)]       # round-robin: even load per shard
        flags = GEN_FLAGS(self.ctx)

        def one(j):
            fn = self.ctx.dir / ("crosstest_%02d.v" % j)
            fn.write_text(crosstest_file(self.T, self.pts, shards[j], self.with_cfg))
            return sh(["timeout", "900", "coqc"] + flags + [str(fn)], cwd=self.ctx.dir, timeout=930)

        with ThreadPoolExecutor(max_workers=k) as ex:
            res = list(ex.map(one, range(k)))
        self.rc = max(rc for rc, _ in res)
        self.out = "\n".join(o for _, o in res)
        (self.ctx.dir / "crosstest.out").write_text(self.out)


def finish_crosstest(ctx: Ctx, xt: CrossTest):
    xt.join()
    pts = xt.pts
    n_cfg = sum(1 for p in pts if isinstance(p[1], tuple))
    ctx.cov["translator_crosstest"] = {"points": len(pts), "configuration_goals": n_cfg, "rule":
                                       "implementation float must lie in the `interval` enclosure (i_prec 80) of the "
                                       "generated Coq expression widened by 1e-11 relative; configuration goals: the "
                                       "interval / stretch object the implementation built from a configuration must be "
                                       "the value of the translated CN_init_interval / CN_init_stretch (exact rationals)"}
    if xt.rc != 0:
        ctx.violation("translator-crosstest-machinery",
                      "the translator cross-test file did not compile (tie between generated Coq and implementation not "
                      "established): " + "\n".join(xt.out.strip().splitlines()[-6:]),
                      {"kind": "crosstest", "log": xt.out[-3000:]}, found_input=False)
        return
    fails = sorted(int(x) for x in re.findall(r"XT-(?:FAIL|NONFINITE) (\d+)", xt.out))
    ctx.cov["translator_crosstest"]["enclosed"] = len(pts) - len(fails)
    ctx.cov["evaluations"] += len(pts)
    ctx.cov["traces_validated_against_impl"] += len(pts) - len(fails)
    ctx.dist("crosstest/points", len(pts) - n_cfg)
    ctx.dist("crosstest/configuration-goals", n_cfg)
    num_fails = [i for i in fails if not isinstance(pts[i][1], tuple)]
    cfg_fails = [i for i in fails if isinstance(pts[i][1], tuple)]
    if num_fails:
        i = num_fails[0]
        label, expr, y = pts[i]
        ctx.cov["disagreements_checked"] += len(num_fails)
        ctx.violation("translator-crosstest",
                      "generated Coq expression does not enclose the implementation's value at %d of %d points; first: "
                      "%s = %r but `%s` is not within 1e-11 of it (translator or vocabulary no longer matches the code)"
                      % (len(num_fails), len(pts), label, y, expr),
                      {"kind": "crosstest", "label": label, "coq": expr, "impl": y,
                       "all_failing": [pts[j][0] for j in num_fails[:40]]}, found_input=False)
    if cfg_fails:
        i = cfg_fails[0]
        label, expr, _ = pts[i]
        ctx.cov["disagreements_checked"] += len(cfg_fails)
        ctx.violation("config-dispatch-correspondence",
                      "the objects the implementation builds from a configuration are not what the translated "
                      "CustomNormalization.__init__ / visualization call site yields at %d of %d goals; first: %s — could "
                      "not prove `%s`" % (len(cfg_fails), n_cfg, label, expr[1]),
                      {"kind": "crosstest", "label": label, "coq": expr[1],
                       "all_failing": [pts[j][0] for j in cfg_fails[:40]]}, found_input=False)
    ctx.log("translator cross-test: %d points (%d configuration goals), %d not established" % (len(pts), n_cfg, len(fails)))


# ==========================================================================================
# data generation (shared by correspondence and oracle)

INT_DTYPES = ["int8", "uint8", "int16", "uint16", "int32", "int64"]
FLOAT_DTYPES = ["float64", "float64", "float64", "float32"]


def gen_array(r, dtype=None, n=None, specials=None):
    """returns {"dtype", "data": [python numbers / 'nan' / 'inf' / '-inf']}"""
    dtype = dtype or r.choice(FLOAT_DTYPES + FLOAT_DTYPES + INT_DTYPES)
    n = n or r.choice([2, 3, 4, 5, 7, 9, 12, 16, 25, 40])
    if dtype.startswith("float"):
        kind = r.choice(["grid", "grid", "wide", "small", "dups", "tight"])
        vals = []
        # "tight": distinct values whose spread is tiny next to their magnitude (counts on a pedestal,
        # values a few 1e-9 apart): still "at least two distinct finite values", so the limits must go
        # to 0 and 1 — a closeness test standing in for `vmax != vmin` would swallow these
        t_base, t_step = r.choice([(1000.0, 2.0 ** -12), (-30000.0, 2.0 ** -7), (0.0, 2.0 ** -30), (1.0, 2.0 ** -20)])
        for _ in range(n):
            if kind == "tight":
                v = t_base + r.randint(0, 12) * t_step
            elif kind == "grid":
                v = r.randint(-400, 400) / 8.0
            elif kind == "wide":
                v = r.choice([-1, 1]) * r.randint(1, 4096) * 2.0 ** r.randint(-12, 14)
            elif kind == "small":
                v = r.randint(0, 1 << 12) / float(1 << 14)
            else:
                v = float(r.choice([0, 0, 0, 1, 2, 5]))
            vals.append(float(np.dtype(dtype).type(v)))
        if len(set(vals)) < 2:
            vals[0] = vals[-1] + 1.0
        if specials is None:
            specials = r.random() < 0.55
        if specials:
            for _ in range(r.randint(1, 3)):
                vals[r.randrange(n)] = r.choice(["nan", "inf", "-inf", "nan"])
            fin = [v for v in vals if not isinstance(v, str)]
            if len(set(fin)) < 2:
                vals += [1.5, -2.25]
        return {"dtype": dtype, "data": vals}
    info = np.iinfo(dtype)
    kind = r.choice(["full", "full", "narrow", "extreme"])
    if kind == "narrow":
        lo, hi = max(info.min, -20), min(info.max, 50)
    elif kind == "extreme":
        lo, hi = info.min, info.max
    else:
        lo, hi = max(info.min, -(1 << 20)), min(info.max, 1 << 20)
    vals = [r.randint(lo, hi) for _ in range(n)]
    if kind == "extreme":
        vals[0], vals[-1] = info.min, info.max
    if len(set(vals)) < 2:
        vals[0] = vals[-1] - 1 if vals[-1] > info.min else vals[-1] + 1
    return {"dtype": dtype, "data": vals}


def to_np(a):
    """the array of a case; optional "shape" (any rank) and "layout": "F" (Fortran order),
    "strided" (every second element of a larger buffer), "reversed" (negative stride)"""
    if a["dtype"].startswith("float"):
        arr = np.array([float(v) for v in a["data"]], dtype=a["dtype"])
    else:
        arr = np.array(a["data"], dtype=a["dtype"])
    if a.get("shape") is not None:
        arr = arr.reshape(a["shape"])
    lay = a.get("layout")
    if lay == "F":
        arr = np.asfortranarray(arr)
    elif lay == "strided":
        big = np.zeros(arr.shape[:-1] + (2 * arr.shape[-1],), dtype=arr.dtype) if arr.ndim else None
        if big is not None:
            big[..., ::2] = arr
            big[..., 1::2] = arr[..., ::-1]
            arr = big[..., ::2]
    elif lay == "reversed":
        arr = np.ascontiguousarray(arr[..., ::-1])[..., ::-1]
    return arr


def gen_shape(r, a):
    """in place: a random shape (rank 1..4, unit axes included) and memory layout for the case"""
    n = len(a["data"])
    if r.random() < 0.45:
        return a
    facs = [d for d in range(1, n + 1) if n % d == 0]
    d1 = r.choice(facs)
    rest = n // d1
    d2 = r.choice([d for d in range(1, rest + 1) if rest % d == 0])
    shape = [d1, d2, rest // d2]
    if r.random() < 0.3:
        shape.insert(r.randrange(4), 1)
    if r.random() < 0.5:
        shape = [s for s in shape if s != 1] or [n]
    a["shape"] = shape
    a["layout"] = r.choice([None, None, "F", "strided", "reversed"])
    return a


EXTRA_DTYPES = ["uint32", "uint64", "float16"]


def gen_array_extra(r):
    """dtypes beyond those of the interval correspondence (whose Q / binary64 models compare to
    float64 / float32 results): unsigned 32 / 64-bit integers up to the top of their range, float16"""
    dtype = r.choice(EXTRA_DTYPES)
    n = r.choice([3, 4, 6, 8, 12, 16])
    if dtype == "float16":
        vals = [float(np.float16(r.randint(-256, 256) / 16.0)) for _ in range(n)]
        if len(set(vals)) < 2:
            vals[0] = vals[-1] + 1.0
        if r.random() < 0.5:
            vals[r.randrange(n)] = r.choice(["nan", "inf", "-inf"])
            if len({v for v in vals if not isinstance(v, str)}) < 2:
                vals += [1.5, -2.25]
        return {"dtype": dtype, "data": vals}
    info = np.iinfo(dtype)
    kind = r.choice(["low", "top", "spread"])
    if kind == "low":
        vals = [r.randint(0, 1 << 12) for _ in range(n)]
    elif kind == "top":
        vals = [info.max - r.randint(0, 1 << 20) for _ in range(n)]
    else:
        vals = [r.randint(0, info.max) for _ in range(n)]
        vals[0], vals[-1] = 0, info.max
    if len(set(vals)) < 2:
        vals[0] = vals[-1] - 1
    return {"dtype": dtype, "data": vals}


def finite_values(a):
    return [float(v) for v in a["data"] if not isinstance(v, str)] if a["dtype"].startswith("float") else \
        [int(v) for v in a["data"]]


def gen_interval_cfg(r, a):
    """interval configuration valid for the array (ordered limits)"""
    fin = finite_values(a)
    lo, hi = min(fin), max(fin)
    is_int = not a["dtype"].startswith("float")
    kind = r.choice(["quantile", "quantile", "manual-default", "manual-explicit", "manual-explicit", "manual-half",
                     "centered-default", "centered-explicit", "manual-degenerate"])
    if kind == "quantile":
        lq, uq = r.choice([(0.02, 0.98), (0.0, 1.0), (0.25, 0.75), (0.1, 0.5), (0.05, 0.95), (0.5, 1.0), (0.0, 0.3)])
        return {"itype": "quantile", "lower_quantile": lq, "upper_quantile": uq}
    if kind == "manual-default":
        return {"itype": "manual"}
    span = float(hi) - float(lo)
    if kind in ("manual-explicit", "manual-half", "manual-degenerate"):
        if is_int and r.random() < 0.6:
            # Python-int limits, anywhere in / around the data range
            vmin = int(r.randint(int(lo) - 3, int(hi)))
            vmax = int(r.randint(vmin + 1, int(hi) + 4)) if kind != "manual-degenerate" else vmin
        else:
            vmin = float(lo) + span * r.choice([-0.25, 0.0, 0.125, 0.5])
            vmax = vmin + span * r.choice([0.25, 0.5, 1.0, 1.5]) if kind != "manual-degenerate" else vmin
            if not (vmax > vmin) and kind != "manual-degenerate":
                vmax = vmin + 1.0
        if kind == "manual-half":
            return {"itype": "manual", "vmin": vmin} if r.random() < 0.5 else {"itype": "manual", "vmax": vmax}
        return {"itype": "manual", "vmin": vmin, "vmax": vmax}
    vc = r.choice([0.0, 0.0, float(lo), (float(lo) + float(hi)) / 2.0, float(hi) + span * 0.5])
    if is_int and r.random() < 0.5:
        vc = int(round(vc))
    if kind == "centered-default":
        return {"itype": "centered", "vcenter": vc}
    return {"itype": "centered", "vcenter": vc, "half_range": r.choice([span * 0.5, span, 1.0, float(abs(hi)) + 1.0])}


def make_interval(cfg):
    m = CN()
    if cfg["itype"] == "quantile":
        return m.QuantileInterval(cfg["lower_quantile"], cfg["upper_quantile"])
    if cfg["itype"] == "manual":
        return m.ManualInterval(cfg.get("vmin"), cfg.get("vmax"))
    return m.CenteredInterval(cfg.get("vcenter", 0.0), cfg.get("half_range"))


def norm_kwargs(cfg):
    kw = {k: v for k, v in cfg.items() if k not in ("itype", "stype")}
    return kw


# ==========================================================================================
# (3) executable model vs implementation


def _xq(v):
    if isinstance(v, str):
        return {"nan": "XNaN", "inf": "PInf", "-inf": "NInf"}[v]
    if isinstance(v, float) and v != v:
        return "XNaN"
    if isinstance(v, float) and math.isinf(v):
        return "PInf" if v > 0 else "NInf"
    return "(Fin %s)" % cq(Fraction(v) if isinstance(v, int) else _fr(v))


def _xf(v):
    if isinstance(v, str):
        return {"nan": "nan%float", "inf": "infinity%float", "-inf": "neg_infinity%float"}[v]
    return cfloat(float(v))


def run_interval_impl(a, cfg):
    arr = to_np(a)
    iv = make_interval(cfg)
    with _quiet():
        try:
            vmin, vmax = iv.get_limits(arr)
            vmin, vmax = float(vmin), float(vmax)
            out = iv(arr)
        except Exception as e:  # noqa
            return {"err": type(e).__name__}
    if not (math.isfinite(vmin) and math.isfinite(vmax)):
        return {"err": "nonfinite-limits"}
    return {"vmin": vmin, "vmax": vmax, "out": [float(v) for v in np.asarray(out, dtype=np.float64).ravel()],
            "out_dtype": str(out.dtype)}


def interval_expr(a, cfg, obs):
    data = clist(a["data"], _xq)
    if cfg["itype"] == "quantile":
        lim = "limits_quantile %s %s %s" % (cq(_fr(cfg["lower_quantile"])), cq(_fr(cfg["upper_quantile"])), data)
    elif cfg["itype"] == "manual":
        f = lambda v: cq(Fraction(v) if isinstance(v, int) else _fr(v))  # noqa
        lim = "limits_manual %s %s %s" % (copt(cfg.get("vmin"), f), copt(cfg.get("vmax"), f), data)
    else:
        f = lambda v: cq(Fraction(v) if isinstance(v, int) else _fr(v))  # noqa
        lim = "limits_centered %s %s %s" % (f(cfg.get("vcenter", 0.0)), copt(cfg.get("half_range"), f), data)
    if "err" in obs:
        return "(qshow_pair (%s), @nil (Z*Z*Z), @nil (Z*Z*Z), @nil bool)" % lim
    vmin, vmax = obs["vmin"], obs["vmax"]
    fmap = "map fshow (map (f_interval_map %s %s) %s)" % (cfloat(vmin), cfloat(vmax), clist(a["data"], _xf))
    qmap = "map qshow (map (x_interval_map Qcarrier %s %s) %s)" % (cq(_fr(vmin)), cq(_fr(vmax)), data)
    mask = "map (fun v => x_masked (x_norm Qcarrier (fun q => q) %s %s v)) %s" % (cq(_fr(vmin)), cq(_fr(vmax)), data)
    return "(qshow_pair (%s), %s, %s, %s)" % (lim, fmap, qmap, mask)


def cancellation_slack(dtype, vals, vmin, vmax):
    """float32 / float16 data: the limits are Python floats, NumPy casts them to the data's dtype when it
    subtracts (NEP 50), so `x - vmin` carries an absolute error of up to one ulp of the operands'
    magnitude; relative to the span vmax - vmin that is eps * scale / span (catastrophic cancellation when
    the data's spread is tiny next to its magnitude — inherent to the dtype, outside the theorems).
    Factor 4 of margin.  float64 data and integer data (computed in float64) keep the fixed slack."""
    if dtype not in ("float16", "float32") or not (vmax >= vmin):
        return 0.0
    scale = max([abs(vmin), abs(vmax)] + [abs(v) for v in vals if math.isfinite(v)])
    if vmax == vmin:
        # degenerate interval: the map is `x - vmin` without the division, the same one-ulp error of the cast
        # limit shows up unscaled (thorough-tier false alarm: manual vmin = vmax = 1000.00095 on float32 data)
        return 4.0 * float(np.finfo(dtype).eps) * scale
    return 4.0 * float(np.finfo(dtype).eps) * scale / (vmax - vmin)


def oracle_interval(a, cfg, obs):
    """property clauses that concern the interval map alone (identity stretch)"""
    if "err" in obs:
        if finite_values(a):
            return "the interval raised / returned non-finite limits (%s) on data with finite values" % obs["err"]
        return None
    vmin, vmax, out = obs["vmin"], obs["vmax"], obs["out"]
    if vmin > vmax:
        return None
    vals = [float(v) for v in a["data"]]
    # the interval map runs in the dtype of the data (float32 stays float32): slack in its ulps
    rt = 16 * float(np.finfo(a["dtype"]).eps) if a["dtype"] in ("float16", "float32") else TOL
    mt = rt if a["dtype"] in ("float16", "float32") else MONO_TOL
    fin = [(x, y) for x, y in zip(vals, out) if math.isfinite(x)]
    for x, y in zip(vals, out):
        if (x != x) != (y != y):
            return "NaN handling: input %r -> output %r" % (x, y)
    for x, y in fin:
        if not (-rt <= y <= 1 + rt):
            return "finite datum %r mapped to %r outside [0, 1] (limits %r, %r)" % (x, y, vmin, vmax)
    fin.sort()
    for (x1, y1), (x2, y2) in zip(fin, fin[1:]):
        if y2 < y1 - mt:
            return "not monotone: %r -> %r but %r -> %r (limits %r, %r)" % (x1, y1, x2, y2, vmin, vmax)
    if vmin < vmax:
        et = rt + cancellation_slack(a["dtype"], vals, vmin, vmax)
        for x, y in fin:
            if x == vmin and abs(y) > et:
                return "lower limit %r mapped to %r, not 0" % (x, y)
            if x == vmax and abs(y - 1) > et:
                return "upper limit %r mapped to %r, not 1" % (x, y)
    return None


def classify_failure(a, cfg, msg, rerun):
    """integer-dtype wrap-around is recognised by the same data passing in float64, half-precision
    overflow inside a stretch by the same data passing in float32"""
    if a["dtype"] == "float16":
        b = dict(a)
        b["dtype"] = "float32"
        return "float16-overflow" if rerun(b, cfg) is None else None
    if a["dtype"].startswith("float"):
        return None
    b = dict(a)
    b["dtype"] = "float64"
    b["data"] = [float(v) for v in a["data"]]
    c = {k: (float(v) if isinstance(v, int) and not isinstance(v, bool) else v) for k, v in cfg.items()}
    if rerun(b, c) is None:
        return "int-dtype-wraparound"
    return None


def check_interval_correspondence(ctx: Ctx):
    r = ctx.rng
    cases = []
    for c in corpus(ctx).get("interval", []):
        cases.append((c["array"], c["cfg"]))
    # NaN / inf algebra table: every special value against ordered, equal and reversed limits
    for vmin, vmax in [(1.0, 5.0), (2.0, 2.0), (5.0, 1.0), (-3.5, -3.25), (0.0, 1e-3)]:
        cases.append(({"dtype": "float64", "data": ["nan", "inf", "-inf", 0.0, -0.0, vmin, vmax, vmin - 1, vmax + 1,
                                                    (vmin + vmax) / 2]},
                      {"itype": "manual", "vmin": vmin, "vmax": vmax}))
    cases.append(({"dtype": "float64", "data": ["nan", "inf", "-inf"]}, {"itype": "manual"}))
    cases.append(({"dtype": "float64", "data": ["nan", "inf"]}, {"itype": "centered"}))
    for _ in range(ctx.budget(170, 2500)):
        a = gen_array(r)
        cases.append((a, gen_interval_cfg(r, a)))
    obs_all, exprs = [], []
    for a, cfg in cases:
        obs = run_interval_impl(a, cfg)
        obs_all.append(obs)
        exprs.append(interval_expr(a, cfg, obs))
    vals = coq_values(ctx, "interval", exprs, 25)
    nd = 0
    for (a, cfg), obs, v in zip(cases, obs_all, vals):
        lim, fm, qm, mk = v
        ctx.dist("interval/dtype=%s" % a["dtype"])
        ctx.dist("interval/kind=%s%s" % (cfg["itype"], "" if len(cfg) > 1 else "-default"))
        has_special = any(isinstance(x, str) for x in a["data"])
        ctx.dist("interval/specials=%s" % has_special)
        ctx.count(("interval", json.dumps(a, sort_keys=True), json.dumps(cfg, sort_keys=True)),
                  nontrivial="err" not in obs and len(set(obs["out"])) > 1)
        bad_o = oracle_interval(a, cfg, obs)
        if bad_o:
            key = classify_failure(a, cfg, bad_o, lambda b, c: oracle_interval(b, c, run_interval_impl(b, c)))
            ctx.violation(key or "interval-map-oracle/%s" % cfg["itype"],
                          "interval %s on %s data: %s" % (cfg, a["dtype"], bad_o),
                          {"kind": "interval", "array": a, "cfg": cfg, "impl": obs})
        problems = []
        if "err" in obs:
            if lim is not None and obs["err"] != "nonfinite-limits":
                problems.append("implementation raised %s, model returns limits %r" % (obs["err"], lim))
        else:
            if lim is None:
                problems.append("model has no limits, implementation returned (%r, %r)" % (obs["vmin"], obs["vmax"]))
            else:
                an, ad, (bn, bd) = lim[1]       # Coq prints ((a, b), (c, d)) as (a, b, (c, d))
                scale = max([1.0] + [abs(float(x)) for x in a["data"] if not isinstance(x, str)])
                ltol = 1e-12 * scale if a["dtype"] != "float32" else 1e-6 * scale
                for nm, mv, iv in (("vmin", Fraction(an, ad), obs["vmin"]), ("vmax", Fraction(bn, bd), obs["vmax"])):
                    if abs(float(mv) - iv) > ltol:
                        problems.append("%s: model %s = %r, implementation %r" % (nm, mv, float(mv), iv))
            out = obs["out"]
            if obs["out_dtype"] == "float64":
                if len(fm) != len(out):
                    problems.append("length mismatch")
                for i, ((tag, mm, ee), y) in enumerate(zip(fm, out)):
                    same = (tag == 1 and y != y) or (tag == 0 and y == y and not math.isinf(y)
                                                    and Fraction(mm) * Fraction(2) ** ee == _fr(y)) \
                        or (tag == 2 and y == math.inf) or (tag == 3 and y == -math.inf)
                    if not same:
                        problems.append("binary64 transcription differs at index %d (input %r): model %r, "
                                        "implementation %r" % (i, a["data"][i], (tag, mm, ee), y))
                        break
            rtol = 2.0 ** -46 if obs["out_dtype"] == "float64" else 2.0 ** -18
            cs = cancellation_slack(a["dtype"], [float(x) for x in a["data"]], obs["vmin"], obs["vmax"])
            for i, ((tag, qn, qd), y) in enumerate(zip(qm, out)):
                if tag == 1:
                    ok = y != y
                elif tag == 0:
                    q = float(Fraction(qn, qd))
                    ok = y == y and abs(q - y) <= rtol * max(1.0, abs(q)) + cs + 1e-300
                else:
                    ok = False
                if not ok:
                    problems.append("Q model differs at index %d (input %r): model %r, implementation %r"
                                    % (i, a["data"][i], (tag, qn, qd), y))
                    break
            imask = [bool(y != y) for y in out]
            if list(mk) != imask:
                problems.append("mask: model %r, implementation NaN pattern %r" % (mk, imask))
        ctx.cov["traces_validated_against_impl"] += 1
        if problems:
            nd += 1
            ctx.cov["disagreements_checked"] += 1
            ctx.violation("interval-correspondence",
                          "interval map / limits of the implementation and the model disagree (the theorems no longer "
                          "speak about this code): %s; case %s on %s %s" % (problems[0], cfg, a["dtype"], a["data"][:12]),
                          {"kind": "interval", "array": a, "cfg": cfg, "impl": obs, "model": repr(v)[:2000],
                           "problems": problems},
                          found_input=bad_o is not None)
    mid = len(cases) // 2
    ctx.sample({"kind": "interval", "array": cases[mid][0], "cfg": cases[mid][1], "impl": obs_all[mid]})
    ctx.log("interval correspondence: %d cases, %d disagreements" % (len(cases), nd))


# ==========================================================================================
# (4) the oracle on CustomNormalization


STRETCH_CFGS = [
    {"stype": "linear"},
    {"stype": "power", "power": 2.0}, {"stype": "power", "power": 0.5}, {"stype": "power", "power": 1.0},
    {"stype": "logarithmic"}, {"stype": "logarithmic", "logarithmic_index": 0.5},
    {"stype": "logarithmic", "logarithmic_index": 1e5},
    {"stype": "asinh"}, {"stype": "asinh", "asinh_linear_range": 2.0}, {"stype": "asinh", "asinh_linear_range": 0.01},
]


def gen_stretch_cfg(r):
    c = dict(r.choice(STRETCH_CFGS))
    if r.random() < 0.35:
        if c["stype"] == "power":
            c["power"] = r.choice([0.1, 0.25, 0.75, 1.5, 3.0, 8.0, r.uniform(0.1, 6.0)])
        elif c["stype"] == "logarithmic":
            c["logarithmic_index"] = r.choice([1e-3, 1.0, 10.0, 5e3, r.uniform(0.01, 2000.0)])
        elif c["stype"] == "asinh":
            c["asinh_linear_range"] = r.choice([0.02, 0.5, 1.0, 10.0, r.uniform(0.02, 5.0)])
    return c


def build_norm(icfg, scfg, arr, with_data):
    m = CN()
    kw = norm_kwargs(icfg)
    kw.update(norm_kwargs(scfg))
    if with_data:
        kw["data"] = arr
    return m.CustomNormalization(icfg["itype"], scfg["stype"], **kw)


def oracle_norm(a, icfg, scfg, with_data=True, opts=None):
    """the property text on CustomNormalization(...)(data); returns (clause, message) or None.
    opts: {"clip": None | True | False — the `clip` argument of __call__;
           "refreeze": True — call _set_limits again with other data after construction (the limits are
                       frozen: C20_set_limits_frozen)}"""
    arr = to_np(a)
    opts = opts or {}
    with _quiet():
        try:
            N = build_norm(icfg, scfg, arr, with_data)
            if with_data:
                vmin, vmax = float(N.vmin), float(N.vmax)
                if opts.get("refreeze"):
                    # compared as floats: matplotlib's vmin / vmax setters turn a Python int into a float on
                    # re-assignment, which for |limit| > 2**53 is not the same number object-wise
                    def snap():
                        return (float(N.vmin), float(N.vmax), type(N.interval).__name__,
                                float(N.interval.vmin), float(N.interval.vmax))
                    before = snap()
                    other = np.where(np.isfinite(arr), arr, 0).astype(np.float64) * 3.0 + 7.0
                    N._set_limits(other)
                    after = snap()
                    if after != before:
                        return ("limits-frozen", "a second _set_limits on other data changed the frozen limits "
                                                 "%r -> %r" % (before, after))
            else:
                lo, hi = N.interval.get_limits(arr)
                vmin, vmax = float(lo), float(hi)
            out = N(arr) if opts.get("clip") is None else N(arr, clip=opts["clip"])
        except Exception as e:  # noqa
            return ("exception", "CustomNormalization raised %r" % e)
        if np.shape(out) != arr.shape:
            return ("shape", "input of shape %r came back with shape %r" % (arr.shape, np.shape(out)))
        mask = np.ma.getmaskarray(out).ravel().tolist()
        vals = np.ma.getdata(out).astype(np.float64).ravel().tolist()
        # rounding slack follows the dtype the implementation computed in (float32 data stay float32:
        # one ulp is 1.2e-7); float64 results keep the 1e-9 / 1e-12 slack
        odt = np.ma.getdata(out).dtype
        rt = TOL if odt == np.float64 else 16 * float(np.finfo(odt).eps) if odt.kind == "f" else TOL
        mt = MONO_TOL if odt == np.float64 else rt
        if a["dtype"] == "float16":
            # the subtraction of vmin is carried out in the data's half precision whatever the result dtype
            rt = mt = max(rt, 16 * float(np.finfo(np.float16).eps))
        xs = [float(v) for v in arr.ravel().tolist()]
        fin = finite_values(a)
        if a["dtype"] == "float16":
            fin = [v for v in xs if math.isfinite(v)]
        if not (math.isfinite(vmin) and math.isfinite(vmax)):
            return ("limits", "limits (%r, %r) are not finite although the data have finite values" % (vmin, vmax))
        span = max(abs(float(max(fin))), abs(float(min(fin))), 1.0)
        ordered_cfg = not (icfg["itype"] == "quantile" and icfg["lower_quantile"] > icfg["upper_quantile"])
        if icfg["itype"] == "manual" and icfg.get("vmin") is not None and icfg.get("vmax") is not None:
            ordered_cfg = icfg["vmin"] <= icfg["vmax"]
        if icfg["itype"] == "manual" and (icfg.get("vmin") is None) != (icfg.get("vmax") is None):
            # one limit given, the other taken from the data: a given upper limit below the data's minimum (or a given
            # lower limit above their maximum) is a caller's disordered interval like vmin > vmax, not the code's doing
            ordered_cfg = (icfg["vmax"] >= float(min(fin))) if icfg.get("vmin") is None else (icfg["vmin"] <= float(max(fin)))
        if icfg["itype"] == "centered" and icfg.get("half_range") is not None:
            ordered_cfg = icfg["half_range"] >= 0
        if ordered_cfg and vmin > vmax:
            return ("limits", "limits are not ordered: vmin=%r > vmax=%r" % (vmin, vmax))
        ltol = 1e-9 * span if a["dtype"] != "float32" else 1e-5 * span
        if icfg["itype"] == "quantile" and ordered_cfg and 0 <= icfg["lower_quantile"] and icfg["upper_quantile"] <= 1:
            if vmin < min(fin) - ltol or vmax > max(fin) + ltol:
                return ("limits", "quantile limits (%r, %r) outside the finite data range [%r, %r]"
                        % (vmin, vmax, min(fin), max(fin)))
        if icfg["itype"] == "manual" and "vmin" not in icfg and "vmax" not in icfg:
            if abs(vmin - float(min(fin))) > ltol or abs(vmax - float(max(fin))) > ltol:
                return ("limits", "min/max limits (%r, %r) differ from the finite data range [%r, %r]"
                        % (vmin, vmax, min(fin), max(fin)))
        if icfg["itype"] == "centered" and "half_range" not in icfg:
            c = float(icfg.get("vcenter", 0.0))
            if abs((vmin + vmax) / 2 - c) > ltol or vmin > min(fin) + ltol or vmax < max(fin) - ltol:
                return ("limits", "centred limits (%r, %r) are not symmetric about %r or do not cover [%r, %r]"
                        % (vmin, vmax, c, min(fin), max(fin)))
        if vmin > vmax:
            return None     # reversed limits: outside the domain of the property
        for x, y, mk in zip(xs, vals, mask):
            if x != x:
                if not mk:
                    return ("nan-masking", "NaN input came back unmasked with value %r" % y)
            else:
                if mk:
                    return ("nan-masking", "input %r came back masked" % x)
                if not (-rt <= y <= 1 + rt):
                    return ("range", "datum %r mapped to %r outside [0, 1] (limits %r, %r)" % (x, y, vmin, vmax))
                if x == math.inf and abs(y - 1) > rt:
                    return ("inf-clipping", "+inf mapped to %r, not 1" % y)
                if x == -math.inf and abs(y) > rt:
                    return ("inf-clipping", "-inf mapped to %r, not 0" % y)
        pairs = sorted((x, y) for x, y, mk in zip(xs, vals, mask) if not mk)
        for (x1, y1), (x2, y2) in zip(pairs, pairs[1:]):
            if y2 < y1 - mt:
                return ("monotone", "not monotone: %r -> %r but %r -> %r (limits %r, %r)" % (x1, y1, x2, y2, vmin, vmax))
        if vmin < vmax:
            # frozen limits, evaluated on other data: endpoints, an interior point, neighbours
            if with_data:
                probe = np.array([vmin, vmax, vmin + (vmax - vmin) * 0.375, vmin - 1.0, vmax + 1.0], dtype=np.float64)
                po = np.ma.filled(N(probe), np.nan).astype(np.float64).tolist()
                if abs(po[0]) > rt:
                    return ("endpoints", "lower limit %r mapped to %r, not 0" % (vmin, po[0]))
                if abs(po[1] - 1) > rt:
                    return ("endpoints", "upper limit %r mapped to %r, not 1" % (vmax, po[1]))
                if not (po[3] <= po[0] + mt and po[0] <= po[2] + mt and po[2] <= po[1] + mt
                        and po[1] <= po[4] + mt):
                    return ("monotone", "not monotone on probe %r -> %r" % (probe.tolist(), po))
                # (limits one float64 ulp apart — uint64 data near 2**64 — have no representable interior point)
                # strictly inside (0, 1), with no margin: 0.375**8 = 3.9e-4 is a correct value (a margin of
                # 16 float16 ulps flagged it: false alarm); only a collapsed (step) map is meant here
                if vmin < float(probe[2]) < vmax and not (0.0 < po[2] < 1.0):
                    return ("endpoints", "interior point mapped to %r (normalisation is constant?)" % po[2])
                back = np.asarray(N.inverse(np.array(po[:3])), dtype=np.float64).tolist()
                scale = max(1.0, abs(vmin), abs(vmax))
                for xb, xo in zip(back, probe[:3].tolist()):
                    if abs(xb - xo) > 1e-7 * scale:
                        return ("norm-inverse", "inverse(norm(%r)) = %r" % (xo, xb))
                # the other order: colour-bar positions y -> data value -> y; the inverse is monotone and
                # stays between the limits
                ys = [0.0, 0.25, 0.5, 0.75, 1.0]
                xb = np.asarray(N.inverse(np.array(ys)), dtype=np.float64).tolist()
                if any(not (vmin - 1e-7 * scale <= v <= vmax + 1e-7 * scale) for v in xb):
                    return ("norm-inverse", "inverse(%r) = %r leaves the limits (%r, %r)" % (ys, xb, vmin, vmax))
                if any(b < a_ - 1e-9 * scale for a_, b in zip(xb, xb[1:])):
                    return ("norm-inverse", "inverse is not monotone: %r -> %r" % (ys, xb))
                if abs(xb[0] - vmin) > 1e-7 * scale or abs(xb[-1] - vmax) > 1e-7 * scale:
                    return ("norm-inverse", "inverse(0), inverse(1) = %r, %r are not the limits (%r, %r)"
                            % (xb[0], xb[-1], vmin, vmax))
                if (vmax - vmin) >= 1e-3 * scale:
                    yb = np.ma.filled(N(np.array([xb[0], xb[2], xb[-1]])), np.nan).astype(np.float64).tolist()
                    for y0, y1 in zip([0.0, 0.5, 1.0], yb):
                        if not abs(y0 - y1) <= 1e-6:
                            return ("norm-inverse", "norm(inverse(%r)) = %r" % (y0, y1))
            else:
                # the data's own dtype computes here: cancellation slack of the interval map, carried
                # through the stretch (its slope at the ends can be large: logarithmic index 1e5)
                cs = min(1.0, cancellation_slack(a["dtype"], xs, vmin, vmax))
                t0 = t1 = rt
                if cs > 0:
                    ends = np.asarray(N.stretch(np.array([cs, 1.0 - cs], dtype=np.float64)), dtype=np.float64)
                    t0, t1 = rt + abs(float(ends[0])), rt + abs(1.0 - float(ends[1]))
                for x, y, mk in zip(xs, vals, mask):
                    if x == vmin and abs(y) > t0:
                        return ("endpoints", "lower limit %r mapped to %r, not 0" % (x, y))
                    if x == vmax and abs(y - 1) > t1:
                        return ("endpoints", "upper limit %r mapped to %r, not 1" % (x, y))
    return None


def check_oracle_norm(ctx: Ctx):
    r = ctx.rng
    cases = []
    for c in corpus(ctx).get("norm", []):
        cases.append((c["array"], c["icfg"], c["scfg"], c.get("with_data", True)))
    # every interval type x every stretch setting on one array with NaN / +-inf
    base = {"dtype": "float64", "data": [1.0, 2.0, "nan", "inf", "-inf", 5.0, 3.5, -0.25]}
    ibase = [{"itype": "quantile", "lower_quantile": 0.02, "upper_quantile": 0.98}, {"itype": "manual"},
             {"itype": "centered"}, {"itype": "manual", "vmin": 0.5, "vmax": 4.0},
             {"itype": "centered", "vcenter": 1.0, "half_range": 3.0}]
    for ic in ibase:
        for sc in STRETCH_CFGS:
            cases.append((base, ic, sc, True))
            cases.append((base, ic, sc, False))
    cases = [c + ({},) for c in cases]
    for _ in range(ctx.budget(450, 6000)):
        a = gen_shape(r, gen_array(r) if r.random() < 0.85 else gen_array_extra(r))
        wd = r.random() < 0.7
        opts = {}
        if r.random() < 0.3:
            opts["clip"] = r.choice([True, False])
        if wd and r.random() < 0.25:
            opts["refreeze"] = True
        cases.append((a, gen_interval_cfg(r, a), gen_stretch_cfg(r), wd, opts))
    nbad = 0
    for a, ic, sc, wd, opts in cases:
        res = oracle_norm(a, ic, sc, wd, opts)
        ctx.dist("norm/interval=%s" % ic["itype"])
        ctx.dist("norm/stretch=%s" % sc["stype"])
        ctx.dist("norm/dtype=%s" % a["dtype"])
        ctx.dist("norm/rank=%d" % (len(a["shape"]) if a.get("shape") else 1))
        ctx.dist("norm/layout=%s" % (a.get("layout") or "C"))
        ctx.dist("norm/clip-argument=%s" % opts.get("clip"))
        if opts.get("refreeze"):
            ctx.dist("norm/second-_set_limits")
        ctx.count(("norm", json.dumps(a, sort_keys=True), json.dumps(ic, sort_keys=True), json.dumps(sc, sort_keys=True), wd,
                   json.dumps(opts, sort_keys=True)), nontrivial=True)
        if res:
            nbad += 1
            clause, msg = res
            key = classify_failure(a, ic, msg, lambda b, c: oracle_norm(b, c, sc, wd, opts))
            ctx.violation(key or "%s/%s/%s" % (clause, ic["itype"], sc["stype"]),
                          "CustomNormalization(%s, %s%s) on %s data%s: %s" % (
                              ic, sc, ", data=..." if wd else "", a["dtype"],
                              " (shape %s, layout %s, %s)" % (a.get("shape"), a.get("layout"), opts) if (a.get("shape") or opts)
                              else "", msg),
                          {"kind": "norm", "array": a, "icfg": ic, "scfg": sc, "with_data": wd, "opts": opts})
    ctx.sample({"kind": "norm", "array": cases[-1][0], "icfg": cases[-1][1], "scfg": cases[-1][2]})
    ctx.log("oracle on CustomNormalization: %d cases, %d failing" % (len(cases), nbad))


def oracle_stretch_pair(cls, params, ys):
    m = CN()
    with _quiet():
        try:
            S = getattr(m, cls)(*params)
            G = S.inverse
        except Exception as e:  # noqa
            return "constructing %s%r or its inverse raised %r" % (cls, tuple(params), e)
        y = np.array(ys, dtype=np.float64)
        fy = np.asarray(S(y.copy()), dtype=np.float64)
        if np.any(~np.isfinite(fy)) or fy.min() < -TOL or fy.max() > 1 + TOL:
            return "%s%r maps [0, 1] outside [0, 1]: min %r max %r" % (cls, tuple(params), fy.min(), fy.max())
        if np.any(np.diff(fy) < -MONO_TOL):
            return "%s%r is not monotone on [0, 1]" % (cls, tuple(params))
        gf = np.asarray(G(fy.copy()), dtype=np.float64)
        fg = np.asarray(S(np.asarray(G(y.copy()), dtype=np.float64).copy()), dtype=np.float64)
        tol = 1e-7
        i = int(np.argmax(np.abs(gf - y)))
        if not abs(gf[i] - y[i]) <= tol:
            return "%s%r: inverse(stretch(%r)) = %r  (inverse is %r)" % (cls, tuple(params), y[i], gf[i], G)
        i = int(np.argmax(np.abs(fg - y)))
        if not abs(fg[i] - y[i]) <= tol:
            return "%s%r: stretch(inverse(%r)) = %r  (inverse is %r)" % (cls, tuple(params), y[i], fg[i], G)
    return None


def check_stretch_pairs(ctx: Ctx):
    r = ctx.rng
    ys = sorted({0.0, 1.0, 0.5, 0.25, 0.75, 1e-6, 1 - 1e-6} | {i / 40.0 for i in range(41)})
    cases = [("LinearStretch", ())]
    grids = {
        "PowerLawStretch": [0.1, 0.25, 0.5, 1.0, 2.0, 3.0, 6.0],
        "LogarithmicStretch": [1e-3, 0.5, 10.0, 1000.0, 1e5],
        "InverseLogarithmicStretch": [1e-3, 0.5, 10.0, 1000.0, 1e5],
        "InverseHyperbolicSineStretch": [0.02, 0.1, 1.0, 5.0],
        "HyperbolicSineStretch": [0.1, 1.0 / 3.0, 1.0, 5.0],
    }
    for cls, g in grids.items():
        for p in g:
            cases.append((cls, (p,)))
        for _ in range(ctx.budget(6, 60)):
            lo, hi = min(g), max(g)
            cases.append((cls, (math.exp(r.uniform(math.log(lo), math.log(hi))),)))
    nbad = 0
    for cls, ps in cases:
        ctx.dist("stretch-pair/%s" % cls)
        ctx.count(("pair", cls, ps), nontrivial=True)
        bad = oracle_stretch_pair(cls, ps, ys)
        if bad:
            nbad += 1
            ctx.violation("stretch-inverse/%s" % cls, bad, {"kind": "pair", "cls": cls, "params": list(ps), "ys": ys})
    ctx.log("stretch / inverse pairs: %d cases, %d failing" % (len(cases), nbad))


def presets_and_show(ctx: Ctx):
    """all named presets, resolved and constructed exactly as visualization._show_2d_array does;
    and the normalisation objects that _show_2d_array / _show_2d_combined build from a
    configuration with explicit limits must have those limits"""
    m = CN()
    r = ctx.rng
    arrays = [{"dtype": "float64", "data": [1.0, 2.0, "nan", "inf", "-inf", 5.0, 3.5, -0.25]},
              {"dtype": "float32", "data": [0.5, 0.25, 8.0, 3.0, -1.0]},
              {"dtype": "int16", "data": [-30000, 0, 12, 30000]},
              {"dtype": "uint8", "data": [0, 3, 200, 255, 17]}]
    for _ in range(ctx.budget(3, 30)):
        arrays.append(gen_array(r))
    names = sorted(m.NORMALIZATION_PRESETS)
    for name in names:
        cfg = m._resolve_normalization(name)
        ic = {"itype": cfg.interval_type}
        if cfg.interval_type == "quantile":
            ic.update(lower_quantile=cfg.lower_quantile, upper_quantile=cfg.upper_quantile)
        if cfg.interval_type == "manual":
            if cfg.vmin is not None:
                ic["vmin"] = cfg.vmin
            if cfg.vmax is not None:
                ic["vmax"] = cfg.vmax
        if cfg.interval_type == "centered":
            ic["vcenter"] = cfg.vcenter
            if cfg.half_range is not None:
                ic["half_range"] = cfg.half_range
        sc = {"stype": cfg.stretch_type, "power": cfg.power, "logarithmic_index": cfg.logarithmic_index,
              "asinh_linear_range": cfg.asinh_linear_range}
        for a in arrays:
            ctx.dist("preset/%s" % name)
            ctx.count(("preset", name, json.dumps(a, sort_keys=True)), nontrivial=True)
            res = oracle_norm(a, ic, sc, True)
            if res:
                clause, msg = res
                key = classify_failure(a, ic, msg, lambda b, c: oracle_norm(b, c, sc, True))
                ctx.violation(key or "preset/%s/%s" % (name, clause),
                              "preset %r on %s data: %s" % (name, a["dtype"], msg),
                              {"kind": "norm", "array": a, "icfg": ic, "scfg": sc, "with_data": True, "preset": name})
    # normalisation objects built by visualization.py
    import matplotlib
    matplotlib.use("Agg")
    import matplotlib.pyplot as plt
    import quantem.core.visualization.visualization as V
    rec = []
    orig = V.CustomNormalization

    class Rec(orig):
        def __init__(self, *a, **k):
            super().__init__(*a, **k)
            rec.append(self)

    img = np.linspace(0.0, 1.0, 36).reshape(6, 6)
    img2 = img[::-1].copy()
    vmin, vmax = 0.125, 0.625
    probes = []
    V.CustomNormalization = Rec
    try:
        with _quiet():
            for label, call in (
                ("_show_2d_array", lambda: V._show_2d_array(img, norm={"interval_type": "manual", "vmin": vmin, "vmax": vmax})),
                ("_show_2d_combined", lambda: V._show_2d_combined([img, img2], norm={"interval_type": "manual",
                                                                                     "vmin": vmin, "vmax": vmax})),
                ("show_2d(combine_images=True, vmin, vmax)",
                 lambda: V.show_2d([img, img2], combine_images=True, vmin=vmin, vmax=vmax)),
                ("show_2d(vmin, vmax)", lambda: V.show_2d(img, vmin=vmin, vmax=vmax)),
            ):
                rec.clear()
                try:
                    call()
                except Exception as e:  # noqa
                    probes.append((label, "raised %r" % e))
                    continue
                finally:
                    plt.close("all")
                if not rec:
                    probes.append((label, "constructed no CustomNormalization"))
                    continue
                N = rec[-1]
                out = np.ma.filled(N(np.array([vmin, vmax, (vmin + vmax) / 2])), np.nan).tolist()
                ctx.count(("show", label), nontrivial=True)
                ctx.dist("show2d/%s" % label.split("(")[0])
                if abs(out[0]) > TOL or abs(out[1] - 1) > TOL or abs(out[2] - 0.5) > TOL:
                    probes.append((label, "configured limits vmin=%r, vmax=%r are mapped to %r and %r (midpoint to %r): the "
                                          "normalisation object has limits (%r, %r)" % (vmin, vmax, out[0], out[1], out[2],
                                                                                        N.interval.vmin, N.interval.vmax)))
    finally:
        V.CustomNormalization = orig
    for label, msg in probes:
        slug = "show2d-combined-limits" if "combine" in label else "show2d-limits/%s" % label.split("(")[0]
        ctx.violation(slug, "%s with norm limits: %s" % (label, msg),
                      {"kind": "show", "label": label, "vmin": vmin, "vmax": vmax})
    ctx.log("presets: %d x %d arrays; show_2d limit probes: %d failing" % (len(names), len(arrays), len(probes)))


# ==========================================================================================
# (4b) the frozen-limits state and inputs at / outside the edge of the quantified domain


def state_and_edge_cases(ctx: Ctx):
    """Judged (the model has a theorem about it, so a deviation is a correspondence break):
         boolean data freeze the limits (0, 1)           C20_set_limits_frozen (CN_set_limits_bool)
         limits stay frozen under a second _set_limits   C20_set_limits_frozen
         constant data (vmin = vmax)                      C20_degenerate_safe: in range, no NaN
       Recorded only (outside "arrays with at least two distinct finite values"; the outcome is written to
       the evidence so that a silent change of behaviour is visible): scalar and 0-d input, masked-array
       input, data without any finite value, inverse() before the limits are frozen, matplotlib's
       inherited autoscale()/autoscale_None()."""
    m = CN()
    obs = {}
    with _quiet():
        # ---- boolean data
        barr = np.array([[True, False, True], [False, False, True]])
        for it in ("quantile", "manual", "centered"):
            for st, kw in (("linear", {}), ("power", {"power": 2.0}), ("logarithmic", {}), ("asinh", {})):
                ctx.count(("bool", it, st), nontrivial=True)
                ctx.dist("state/bool-data")
                try:
                    N = m.CustomNormalization(it, st, data=barr, **kw)
                    lims = (float(N.vmin), float(N.vmax))
                    out = np.ma.filled(N(barr), np.nan).astype(np.float64)
                    err = None
                except Exception as e:  # noqa
                    err, lims, out = e, None, None
                ctx.cov["traces_validated_against_impl"] += 1
                if err is not None or lims != (0.0, 1.0):
                    ctx.violation("set-limits-bool-correspondence",
                                  "CustomNormalization(%r, %r, data=<bool array>): model freezes the limits (0, 1), "
                                  "implementation %s" % (it, st, "raised %r" % err if err is not None else "has %r" % (lims,)),
                                  {"kind": "state", "what": "bool", "itype": it, "stype": st}, found_input=False)
                    continue
                want = barr.astype(np.float64)
                if not np.allclose(out, want, atol=TOL, rtol=0):
                    ctx.violation("endpoints/bool/%s" % st,
                                  "boolean data under (%r, %r): False / True must go to the limits' images 0 / 1, got %r"
                                  % (it, st, out.tolist()),
                                  {"kind": "state", "what": "bool", "itype": it, "stype": st})
        # ---- limits frozen: a second _set_limits, other data through __call__
        d1 = np.array([1.0, 2.0, 5.0, np.nan, 3.5])
        d2 = np.array([-40.0, 17.0, 900.0])
        for it, kw in (("quantile", {}), ("manual", {}), ("manual", {"vmin": 1.5}), ("centered", {"vcenter": 2.0}),
                       ("centered", {"vcenter": 2.0, "half_range": 4.0})):
            ctx.count(("frozen", it, json.dumps(kw, sort_keys=True)), nontrivial=True)
            ctx.dist("state/frozen-limits")
            N = m.CustomNormalization(it, "linear", data=d1, **kw)
            l0 = (float(N.vmin), float(N.vmax))
            o0 = np.ma.filled(N(d2), np.nan).tolist()
            N(d2)
            N._set_limits(d2)
            N._set_limits(d1 * 2)
            l1 = (float(N.vmin), float(N.vmax))
            il = tuple(float(v) for v in N.interval.get_limits(d2))
            o1 = np.ma.filled(N(d2), np.nan).tolist()
            ctx.cov["traces_validated_against_impl"] += 1
            if not (l0 == l1 == il and o0 == o1):
                ctx.violation("set-limits-correspondence",
                              "limits frozen by data= do not stay frozen (model: C20_set_limits_frozen): (%r, %r): "
                              "attributes %r -> %r, interval limits %r, outputs %r -> %r" % (it, kw, l0, l1, il, o0, o1),
                              {"kind": "state", "what": "frozen", "itype": it, "kw": kw}, found_input=False)
        # ---- constant data: vmin = vmax
        for dt in ("float64", "float32", "int16", "uint8"):
            const = np.full((2, 3), 3, dtype=dt)
            for it in ("quantile", "manual", "centered"):
                for st in ("linear", "power", "logarithmic", "asinh"):
                    ctx.count(("constant", dt, it, st), nontrivial=False)
                    ctx.dist("edge/constant-data")
                    try:
                        N = m.CustomNormalization(it, st, data=const, **({"power": 0.5} if st == "power" else {}))
                        out = N(const)
                        vals = np.ma.getdata(out).astype(np.float64)
                        bad = bool(np.ma.getmaskarray(out).any()) or bool((~np.isfinite(vals)).any()) \
                            or vals.min() < -TOL or vals.max() > 1 + TOL
                        res = "limits (%r, %r) -> all %r" % (float(N.vmin), float(N.vmax), float(vals.flat[0]))
                    except Exception as e:  # noqa
                        bad, res = True, "raised %r" % e
                    ctx.cov["traces_validated_against_impl"] += 1
                    obs.setdefault("constant data", {})["%s/%s/%s" % (dt, it, st)] = res
                    if bad:
                        ctx.violation("degenerate-correspondence",
                                      "constant %s data under (%r, %r): the model (C20_degenerate_safe) stays inside [0, 1] "
                                      "without NaN, implementation: %s" % (dt, it, st, res),
                                      {"kind": "state", "what": "constant", "dtype": dt, "itype": it, "stype": st},
                                      found_input=False)

        # ---- recorded only
        def record(label, fn):
            try:
                obs[label] = repr(fn())[:300]
            except Exception as e:  # noqa
                obs[label] = "raises %s: %s" % (type(e).__name__, str(e)[:120])
            ctx.dist("edge/recorded")

        Nf = m.CustomNormalization("manual", "power", power=2.0, vmin=0.0, vmax=2.0)
        record("scalar input N(1.0)", lambda: Nf(1.0))
        record("0-d array input N(np.array(1.0))", lambda: Nf(np.array(1.0)))
        record("list input N([0.5, 1.0])", lambda: Nf([0.5, 1.0]).tolist())
        record("masked-array input (third entry masked, fourth NaN)",
               lambda: Nf(np.ma.masked_array([0.5, 1.0, 5.0, np.nan], mask=[0, 0, 1, 0])))
        record("masked-array input, limits from the data (masked entry 500 is ignored or not)",
               lambda: (lambda N: (float(N.vmin), float(N.vmax)))(m.CustomNormalization(
                   "manual", "linear", data=np.ma.masked_array([0.5, 1.0, 500.0], mask=[0, 0, 1]))))
        for it in ("quantile", "manual", "centered"):
            for label, d in (("only NaN", np.array([np.nan, np.nan])), ("only NaN / inf", np.array([np.nan, np.inf, -np.inf])),
                             ("empty", np.array([], dtype=np.float64))):
                record("data with no finite value (%s), %s interval, data=" % (label, it),
                       lambda it=it, d=d: (lambda N: ("limits", float(N.vmin), float(N.vmax), "output", N(d)))(
                           m.CustomNormalization(it, "linear", data=d)))
                record("data with no finite value (%s), %s interval, per call" % (label, it),
                       lambda it=it, d=d: m.CustomNormalization(it, "linear")(d))
        record("inverse() of a quantile normalisation whose limits were never frozen",
               lambda: m.CustomNormalization("quantile", "linear").inverse(np.array([0.0, 0.5, 1.0])).tolist())

        def autoscale():
            N = m.CustomNormalization("manual", "linear", data=np.array([1.0, 5.0]))
            N.autoscale(np.array([10.0, 20.0]))
            return {"vmin/vmax attributes": (float(N.vmin), float(N.vmax)), "interval": repr(N.interval),
                    "N([10, 20])": np.ma.filled(N(np.array([10.0, 20.0])), np.nan).tolist()}
        record("matplotlib's inherited autoscale() after data= (attributes move, the interval does not)", autoscale)
    ctx.cov["observations_outside_domain"] = obs
    ctx.log("state / edge cases: bool data, frozen limits, constant data judged; %d outcomes recorded" % len(obs))


# ==========================================================================================
# (5) configuration -> constructor arguments -> objects   (visualization.py)


def _same(a, b):
    if a is None or b is None:
        return a is None and b is None
    if isinstance(a, str) or isinstance(b, str):
        return isinstance(a, str) and isinstance(b, str) and a == b
    try:
        return float(a) == float(b)
    except Exception:  # noqa
        return False


def _cfg_defaults(C):
    return {n: (d if (d is None or isinstance(d, str)) else float(d)) for n, ty, d in C.fields}


def ref_resolve(norm, kwargs, C):
    """what the user asked for, as configuration fields: explicit entries of a dict / fields of a
    NormalizationConfig / the named preset (as translated into Gen_Cfg.v) / vmin, vmax or the
    quantiles given as keyword arguments; everything else at the dataclass defaults"""
    import dataclasses
    m = CN()
    out = _cfg_defaults(C)
    if norm is None:
        if "vmin" in kwargs or "vmax" in kwargs:
            out.update(interval_type="manual", vmin=kwargs.get("vmin"), vmax=kwargs.get("vmax"),
                       stretch_type=kwargs.get("stretch_type", out["stretch_type"]))
        elif "lower_quantile" in kwargs or "upper_quantile" in kwargs:
            out.update(interval_type="quantile",
                       lower_quantile=kwargs.get("lower_quantile", out["lower_quantile"]),
                       upper_quantile=kwargs.get("upper_quantile", out["upper_quantile"]))
    elif isinstance(norm, dict):
        out.update(norm)
    elif isinstance(norm, str):
        for k, v in C.presets[norm].items():
            out[k] = v if (v is None or isinstance(v, str)) else float(v)
    elif isinstance(norm, m.NormalizationConfig):
        out.update(dataclasses.asdict(norm))
    return out


def _coq_cfg_value(v, ty):
    if ty == "string":
        return '"%s"%%string' % v
    if ty == "optR":
        return "None" if v is None else "(Some %s)" % _cr(_fr(v))
    return _cr(_fr(v))


def coq_config(expected, C):
    return "{| %s |}" % "; ".join("nc_%s := %s" % (n, _coq_cfg_value(expected[n], ty)) for n, ty, _ in C.fields)


def coq_obj(prefix, obj):
    import dataclasses
    args = []
    for f in dataclasses.fields(obj):
        v = getattr(obj, f.name)
        optional = "None" in str(f.type)
        if v is None:
            args.append("None")
        else:
            args.append(("(Some %s)" if optional else "%s") % _cr(_fr(v)))
    return "(%s_%s %s)" % (prefix, type(obj).__name__, " ".join(args))


def gen_user_config(r, C, names):
    """(norm argument, keyword arguments) in the forms the public functions accept"""
    m = CN()
    kind = r.choice(["preset", "dict", "dict", "config", "kwargs-limits", "kwargs-quantile", "none"])
    if kind == "preset":
        return kind, r.choice(names), {}
    if kind == "none":
        return kind, None, {}
    if kind == "kwargs-limits":
        lo = r.randint(-8, 8) / 16.0
        kw = r.choice([{"vmin": lo, "vmax": lo + r.randint(1, 16) / 16.0}, {"vmin": lo}, {"vmax": lo + 1.5}])
        if r.random() < 0.4:
            kw["stretch_type"] = r.choice(["logarithmic", "asinh", "power"])
        return kind, None, kw
    if kind == "kwargs-quantile":
        lq = r.choice([0.0, 0.05, 0.1, 0.25])
        return kind, None, r.choice([{"lower_quantile": lq, "upper_quantile": 1 - lq / 2}, {"lower_quantile": lq},
                                     {"upper_quantile": 0.75}])
    d = {}
    it = r.choice(["quantile", "manual", "centered"])
    d["interval_type"] = it
    if it == "quantile" and r.random() < 0.7:
        d["lower_quantile"] = r.choice([0.0, 0.01, 0.125, 0.3])
        d["upper_quantile"] = r.choice([0.7, 0.9, 0.99, 1.0])
    if it == "manual":
        lo = r.randint(-8, 8) / 16.0
        if r.random() < 0.8:
            d["vmin"] = lo
        if r.random() < 0.8:
            d["vmax"] = lo + r.randint(1, 24) / 16.0
    if it == "centered":
        if r.random() < 0.8:
            d["vcenter"] = r.randint(-8, 16) / 16.0
        if r.random() < 0.6:
            d["half_range"] = r.randint(1, 32) / 16.0
    st = r.choice(["linear", "power", "logarithmic", "asinh"])
    d["stretch_type"] = st
    if st == "power" or r.random() < 0.15:
        d["power"] = r.choice([0.25, 0.5, 1.0, 2.0, 3.0, r.randint(1, 40) / 8.0])
    if st == "logarithmic" and r.random() < 0.8:
        d["logarithmic_index"] = r.choice([0.5, 10.0, 250.0, 4096.0])
    if st == "asinh" and r.random() < 0.8:
        d["asinh_linear_range"] = r.choice([0.03125, 0.25, 1.0, 2.5])
    if kind == "config":
        return kind, m.NormalizationConfig(**d), {}
    return kind, d, {}


def config_path_check(ctx: Ctx, C):
    """Every way of giving a configuration to visualization.py, through every function that builds a
    CustomNormalization.  Observed: the keyword arguments the constructor receives (exact), the
    interval / stretch objects __init__ builds (-> Coq goals against the translated dispatch), and —
    the property itself — the normalisation the display then applies to the image.
    Returns the list of configuration goals for the cross-test."""
    import dataclasses
    import matplotlib
    matplotlib.use("Agg")
    import matplotlib.pyplot as plt
    import quantem.core.visualization.visualization as V
    m = CN()
    r = ctx.rng
    goals = []
    names = sorted(m.NORMALIZATION_PRESETS)
    if C is not None and set(names) != set(C.presets):
        ctx.violation("config-presets-correspondence",
                      "NORMALIZATION_PRESETS at run time %s differ from the translated ones %s" % (names, sorted(C.presets)),
                      {"kind": "show-config", "note": "preset names"}, found_input=False)
    rec = []
    orig = V.CustomNormalization

    class Rec(orig):
        def __init__(self, *a, **k):
            self._c20 = {"args": a, "kwargs": dict(k), "interval0": None, "stretch0": None, "frozen": False}
            rec.append(self)
            super().__init__(*a, **k)
            if self._c20["interval0"] is None:
                self._c20["interval0"], self._c20["stretch0"] = self.interval, self.stretch

        def _set_limits(self, data):
            if self._c20["interval0"] is None:
                self._c20["interval0"], self._c20["stretch0"] = self.interval, self.stretch
            self._c20["frozen"] = True
            return super()._set_limits(data)

    img = (np.arange(48, dtype=np.float64).reshape(6, 8) * 0.046875 - 0.5)      # -0.5 .. 1.703125, dyadic
    img[1, 2] = np.nan
    img2 = np.ascontiguousarray(img[::-1] * 0.5 + 0.25)
    entries = ["_show_2d_array", "_show_2d_combined", "show_2d", "show_2d-combined", "show_2d-list"]
    cases = []
    fixed = [("dict", {"interval_type": "manual", "vmin": 0.125, "vmax": 0.625}, {}),
             ("dict", {"interval_type": "centered", "vcenter": 0.25, "half_range": 0.75, "stretch_type": "asinh",
                       "asinh_linear_range": 0.5}, {}),
             ("dict", {"interval_type": "quantile", "lower_quantile": 0.125, "upper_quantile": 0.875,
                       "stretch_type": "logarithmic", "logarithmic_index": 64.0}, {}),
             ("dict", {"stretch_type": "logarithmic", "power": 2.0}, {}),      # a power != 1 wins over stretch_type
             ("kwargs-limits", None, {"vmin": 0.125, "vmax": 0.625}),
             ("kwargs-quantile", None, {"lower_quantile": 0.25, "upper_quantile": 0.75})]
    for kind, norm, kw in fixed:
        for e in entries:
            cases.append((e, kind, norm, kw))
    for name in names:                       # every named preset through every entry point
        for e in entries:
            cases.append((e, "preset", name, {}))
    if C is not None:
        for _ in range(ctx.budget(24, 400)):
            kind, norm, kw = gen_user_config(r, C, names)
            cases.append((r.choice(entries), kind, norm, kw))
    nbad = 0
    seen_goals = set()
    V.CustomNormalization = Rec
    try:
        with _quiet():
            for entry, kind, norm, kw in cases:
                if C is None:
                    break
                rec.clear()
                expected = ref_resolve(norm, kw, C)
                n_expected = 1
                try:
                    if entry == "_show_2d_array":
                        V._show_2d_array(img, norm=norm, **kw)
                    elif entry == "_show_2d_combined":
                        V._show_2d_combined([img, img2], norm=norm, **kw)
                    elif entry == "show_2d":
                        V.show_2d(img, norm=norm, **kw)
                    elif entry == "show_2d-combined":
                        V.show_2d([img, img2], combine_images=True, norm=norm, **kw)
                    else:
                        n_expected = 2
                        V.show_2d([img, img2], norm=[norm, norm] if norm is not None else None, **kw)
                    err = None
                except Exception as e:  # noqa
                    err = e
                finally:
                    plt.close("all")
                shown = norm if not dataclasses.is_dataclass(norm) else dataclasses.asdict(norm)
                rp = {"kind": "show-config", "entry": entry, "form": kind, "norm": shown, "kwargs": kw}
                ctx.count(("show-config", entry, kind, json.dumps(shown, sort_keys=True), json.dumps(kw, sort_keys=True)),
                          nontrivial=True)
                ctx.dist("show-config/entry=%s" % entry)
                ctx.dist("show-config/form=%s" % kind)
                if err is not None or len(rec) != n_expected:
                    nbad += 1
                    ctx.violation("show2d-config/%s/no-normalisation" % entry,
                                  "%s with norm=%r, %r: %s" % (entry, shown, kw, "raised %r" % err if err is not None else
                                                               "constructed %d CustomNormalization objects" % len(rec)), rp)
                    continue
                for N in rec:
                    got = dict(zip([p[0] for p in C.params], N._c20["args"]))
                    got.update({k: v for k, v in N._c20["kwargs"].items() if k != "data"})
                    for pname, _ty, d in C.params:
                        got.setdefault(pname, d if (d is None or isinstance(d, str)) else float(d))
                    wrong = [k for k in expected if not _same(got.get(k), expected[k])]
                    ctx.cov["traces_validated_against_impl"] += 1
                    if wrong:
                        nbad += 1
                        # the property, on this input: the display's normalisation against the configured one
                        ref = orig(**expected)
                        probe = img if entry != "show_2d-combined" and "combined" not in entry else img
                        a_out = np.ma.filled(N(probe), np.nan)
                        if N._c20["frozen"]:
                            ref._set_limits(probe)
                        r_out = np.ma.filled(ref(probe), np.nan)
                        differs = not np.allclose(a_out, r_out, rtol=0, atol=1e-9, equal_nan=True)
                        what = ("%s(norm=%r%s): configuration field(s) %s do not reach CustomNormalization: asked %s, "
                                "constructor received %s" % (entry, shown, "".join(", %s=%r" % kv for kv in kw.items()), wrong,
                                                             {k: expected[k] for k in wrong}, {k: got.get(k) for k in wrong}))
                        if differs:
                            lim = ""
                            if expected["interval_type"] == "manual" and expected["vmin"] is not None \
                                    and expected["vmax"] is not None:
                                po = np.ma.filled(N(np.array([expected["vmin"], expected["vmax"]])), np.nan).tolist()
                                lim = "; the configured limits %r, %r are displayed at %r, %r instead of 0, 1" % (
                                    expected["vmin"], expected["vmax"], po[0], po[1])
                            what += "; the displayed normalisation differs from the configured one by %.3g%s" % (
                                float(np.nanmax(np.abs(a_out - r_out))), lim)
                        slug = "show2d-combined-norm-dropped" if entry == "show_2d-combined" else \
                            "show2d-config/%s/%s" % (entry, wrong[0])
                        ctx.cov["disagreements_checked"] += 1
                        ctx.violation(slug, what, rp, found_input=differs)
                        continue
                    # objects built by __init__ (before _set_limits froze the interval) -> Coq goals
                    fn = "show_2d_combined_args" if "combined" in entry else "show_2d_array_args"
                    cc = coq_config(expected, C)
                    for lbl, g in (("interval", "CN_init_interval (%s %s) = Some %s" % (fn, cc, coq_obj("IO", N._c20["interval0"]))),
                                   ("stretch", "CN_init_stretch (%s %s) = Some %s" % (fn, cc, coq_obj("SO", N._c20["stretch0"])))):
                        if g not in seen_goals:
                            seen_goals.add(g)
                            goals.append(("%s: %s object for %r %r" % (entry, lbl, shown, kw), ("prop", g), None))
            # configurations the constructor must reject
            if C is not None:
                for bad_cfg, goal_of in (
                        ({"interval_type": "percentile"}, lambda cc: ["CN_init_interval (show_2d_array_args %s) = None" % cc]),
                        ({"stretch_type": "sqrt"}, lambda cc: ["CN_init_stretch (show_2d_array_args %s) = None" % cc]),
                        ({"stretch_type": "power", "power": -1.0},
                         lambda cc: ["CN_init_stretch (show_2d_array_args %s) = Some (SO_PowerLawStretch (- 1))" % cc,
                                     "~ so_domain (SO_PowerLawStretch (- 1))"]),
                        ({"power": 0.0},
                         lambda cc: ["CN_init_stretch (show_2d_array_args %s) = Some (SO_PowerLawStretch 0)" % cc,
                                     "~ so_domain (SO_PowerLawStretch 0)"]),
                        ({"stretch_type": "logarithmic", "logarithmic_index": 0.0},
                         lambda cc: ["~ so_domain (SO_LogarithmicStretch 0)"]),
                        ({"stretch_type": "asinh", "asinh_linear_range": -0.5},
                         lambda cc: ["~ so_domain (SO_InverseHyperbolicSineStretch (- (1 / 2)))"])):
                    rec.clear()
                    try:
                        V._show_2d_array(img, norm=bad_cfg)
                        raised = None
                    except ValueError as e:
                        raised = e
                    except Exception as e:  # noqa
                        raised = e
                    finally:
                        plt.close("all")
                    ctx.count(("show-config-rejected", json.dumps(bad_cfg, sort_keys=True)), nontrivial=True)
                    ctx.dist("show-config/rejected")
                    if not isinstance(raised, ValueError):
                        nbad += 1
                        ctx.violation("config-dispatch-correspondence",
                                      "_show_2d_array(norm=%r): the model's constructor rejects this configuration, the "
                                      "implementation %s" % (bad_cfg, "raised %r" % raised if raised else "accepted it"),
                                      {"kind": "show-config", "entry": "_show_2d_array", "form": "dict", "norm": bad_cfg,
                                       "kwargs": {}}, found_input=False)
                    cc = coq_config(ref_resolve(bad_cfg, {}, C), C)
                    for g in goal_of(cc):
                        goals.append(("rejected configuration %r" % bad_cfg, ("prop", g), None))
    finally:
        V.CustomNormalization = orig
    ctx.log("configuration path: %d calls, %d failing, %d configuration goals" % (len(cases), nbad, len(goals)))
    return goals


# ==========================================================================================


def corpus(ctx):
    p = VERIF / "corpus" / "C20" / "corpus.json"
    return json.loads(p.read_text()) if p.exists() else {}


def run(ctx: Ctx):
    ctx.hash_sources(SRC_REL, ["BaseInterval.__call__", "BaseInterval.inverse", "ManualInterval.get_limits",
                               "CenteredInterval.get_limits", "QuantileInterval.get_limits",
                               "LinearStretch", "PowerLawStretch", "LogarithmicStretch", "InverseLogarithmicStretch",
                               "InverseHyperbolicSineStretch", "HyperbolicSineStretch",
                               "CustomNormalization.__init__", "CustomNormalization._set_limits",
                               "CustomNormalization.__call__", "CustomNormalization.inverse",
                               "_resolve_normalization"])
    ctx.hash_sources("core/visualization/visualization.py", ["_show_2d_array", "_show_2d_combined"])
    # (further definitions the configuration path runs through are read by translate_config on every run and
    # exercised by config_path_check; they are not in the drift-guard baseline)
    ctx.cov["rule"] = (
        "cases: (array [dtype in float64/float32/int8..int64/uint8/16, dyadic-grid / wide-range / duplicate-heavy values, "
        "NaN and +-inf entries], interval configuration [quantile pairs, manual default/one-sided/explicit float or int "
        "limits/degenerate, centred default/explicit], stretch configuration [linear, power, logarithmic, asinh with "
        "default and random parameters], limits frozen by data= or per call) + every preset + every stretch class x "
        "parameter grid for the inverse pairs + the translator cross-test points; a case is distinct by its full "
        "content; non-trivial = implementation output has at least two different values (interval cases) / always "
        "(oracle cases have >= 2 distinct finite data values by construction)")
    ctx.assumptions += [
        "np.quantile(method='linear'), np.min/np.max, np.isfinite, np.clip and the float64 ufuncs behave as documented "
        "(exercised on every run by the correspondence, never proved)",
        "matplotlib.colors.Normalize stores vmin/vmax unchanged apart from conversion to float",
        "stretch parameters and manual limits are finite numbers; reversed limits (vmin > vmax) and quantiles outside "
        "[0, 1] are outside the domain (C20_reversed_limits_refuted shows the first restriction is necessary)",
    ]
    ctx.cov["trusted_base"] += [
        "Coq 8.16.1 kernel incl. vm_compute (runs the executable model)",
        "harness/translate_norm.py (Python ast -> Coq; fail closed; cross-tested with `interval` enclosures at every "
        "run) and the vocabulary coq/lib/C20_NpReal.v (np.clip, np.power over R)",
        "Coq standard-library reals (classical axioms listed per theorem); Interval tactic only in the cross-test",
        "hand-written executable model coq/model/C20_Model.v tied to /repo by this correspondence run",
        "harness/props/C20.py (generators, tolerances, Python->Coq printers), harness/common.py",
        "PrimFloat primitives (binary64 sub/div/compare) = NumPy float64 operations",
    ]
    problems: list = []
    cmd1 = static_proofs(ctx, problems)
    T, C = translate_phase(ctx, problems)
    chain = GenChain(ctx)
    chain.start()                                   # fixed proof scripts + Print Assumptions, in the background
    have_norm = T is not None and (ctx.dir / "Gen_Norm.vo").exists()
    have_cfg = C is not None and (ctx.dir / "Gen_Cfg.vo").exists()
    goals = config_path_check(ctx, C if have_cfg else None)
    xt = None
    if have_norm:
        pts = build_crosstest(ctx, T) + (goals if have_cfg else [])
        xt = CrossTest(ctx, T, pts, have_cfg)
        xt.start()
    check_interval_correspondence(ctx)
    check_stretch_pairs(ctx)
    check_oracle_norm(ctx)
    presets_and_show(ctx)
    state_and_edge_cases(ctx)
    if xt is not None:
        finish_crosstest(ctx, xt)
    chain.join()
    problems += chain.problems
    if chain.error:
        (ctx.dir / "proof_chain_error.log").write_text(chain.error)
    ctx.cov["checker_cmd"] = (
        cmd1 + "  ;  python -m harness.translate_norm > build/C20/Gen_Norm.v (+ translate_config > build/C20/Gen_Cfg.v) "
        "&& coqc %s Gen_Norm.v Gen_Cfg.v && coqc ... -o build/C20/<script>.vo coq/gen_proofs/{C20_GenProofs,C20_GenProofs2,"
        "C20_GenProofsCfg}.v && coqc ... coq/gen_proofs/{C20_GenProperties,C20_GenPropertiesCfg}.v" % " ".join(GEN_FLAGS(ctx)))
    if problems:
        ctx.broken_obligation = "; ".join(problems)
        ctx.log("PROOF OBLIGATION BROKEN:", ctx.broken_obligation[:3000])


def replay_show_config(rp):
    """re-run one call of the configuration path and print what reaches the constructor"""
    import matplotlib
    matplotlib.use("Agg")
    import matplotlib.pyplot as plt
    import quantem.core.visualization.visualization as V
    m = CN()
    C = TN.translate_config((SRC / "quantem" / SRC_REL).read_text(), (SRC / "quantem" / VIS_REL).read_text())
    entry, norm, kw = rp["entry"], rp["norm"], rp.get("kwargs", {})
    if rp.get("form") == "config":
        norm = m.NormalizationConfig(**norm)
    expected = ref_resolve(norm, kw, C)
    rec, orig = [], V.CustomNormalization

    class Rec(orig):
        def __init__(self, *a, **k):
            rec.append((a, {x: y for x, y in k.items() if x != "data"}))
            super().__init__(*a, **k)

    img = (np.arange(48, dtype=np.float64).reshape(6, 8) * 0.046875 - 0.5)
    img2 = np.ascontiguousarray(img[::-1] * 0.5 + 0.25)
    V.CustomNormalization = Rec
    try:
        with _quiet():
            if entry == "_show_2d_array":
                V._show_2d_array(img, norm=norm, **kw)
            elif entry == "_show_2d_combined":
                V._show_2d_combined([img, img2], norm=norm, **kw)
            elif entry == "show_2d":
                V.show_2d(img, norm=norm, **kw)
            elif entry == "show_2d-combined":
                V.show_2d([img, img2], combine_images=True, norm=norm, **kw)
            else:
                V.show_2d([img, img2], norm=[norm, norm] if norm is not None else None, **kw)
    except Exception as e:  # noqa
        print("raised", repr(e))
        return 1
    finally:
        V.CustomNormalization = orig
        plt.close("all")
    bad = 0
    print("entry:", entry, "\nnorm:", rp["norm"], "\nkeyword arguments:", kw, "\nasked for:", expected)
    for a, k in rec:
        got = dict(zip([p[0] for p in C.params], a))
        got.update(k)
        for pname, _ty, d in C.params:
            got.setdefault(pname, d if (d is None or isinstance(d, str)) else float(d))
        wrong = [x for x in expected if not _same(got.get(x), expected[x])]
        print("CustomNormalization received:", got, "\n  fields that differ:", wrong)
        bad += bool(wrong)
    print("oracle:", "the configuration does not reach the normalisation" if bad or not rec else "property holds on this case")
    return 1 if bad or not rec else 0


def replay(ctx: Ctx, path):
    rp = json.loads(open(path).read())
    kind = rp.get("kind")
    if kind == "interval":
        a, cfg = rp["array"], rp["cfg"]
        obs = run_interval_impl(a, cfg)
        bad = oracle_interval(a, cfg, obs)
        v = coq_values(ctx, "replay", [interval_expr(a, cfg, obs)], 1)[0]
        print("array:", a, "\ncfg:", cfg, "\nimpl:", obs, "\nmodel (limits, binary64 map, Q map, mask):", v)
        print("oracle:", bad or "property holds on this case")
        return 1 if bad else 0
    if kind == "norm":
        res = oracle_norm(rp["array"], rp["icfg"], rp["scfg"], rp.get("with_data", True), rp.get("opts"))
        print("array:", rp["array"], "\ninterval:", rp["icfg"], "\nstretch:", rp["scfg"], "\noptions:", rp.get("opts"))
        with _quiet():
            try:
                N = build_norm(rp["icfg"], rp["scfg"], to_np(rp["array"]), rp.get("with_data", True))
                print("limits:", N.vmin, N.vmax, "\noutput:", N(to_np(rp["array"])))
            except Exception as e:  # noqa
                print("raised", repr(e))
        print("oracle:", "%s: %s" % res if res else "property holds on this case")
        return 1 if res else 0
    if kind == "pair":
        bad = oracle_stretch_pair(rp["cls"], tuple(rp["params"]), rp["ys"])
        print("oracle:", bad or "property holds on this case")
        return 1 if bad else 0
    if kind == "show":
        presets_and_show(ctx)
        return 1 if ctx.n_violations else 0
    if kind == "state":
        state_and_edge_cases(ctx)
        print(json.dumps(ctx.cov.get("observations_outside_domain", {}), indent=1)[:3000])
        return 1 if ctx.n_violations else 0
    if kind == "show-config":
        return replay_show_config(rp)
    print("replay of kind %r: re-run ./check C20 (the replay file names the obligation that no longer checks)" % kind)
    print(rp.get("what", ""))
    return 0
