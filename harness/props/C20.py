"""C20 — display normalisation is a monotone map into [0, 1] with invertible stretches.

Obligations
  coq/props/C20_Properties.v            theorems about the executable model (NaN / inf algebra for
                                        any carrier, quantile / min-max / centred limits over Q)
  coq/gen_proofs/C20_GenProperties.v    theorems about the functions TRANSLATED on this run from
                                        the current custom_normalizations.py (harness/translate_norm.py
                                        -> build/C20/Gen_Norm.v), proved by the fixed script
                                        coq/gen_proofs/C20_GenProofs.v + proof/C20_RLemmas.v
Ties
  (2) translator cross-test: every generated function is enclosed with the `interval` tactic at
      rational points and must contain the implementation's float result
  (3) executable model vs implementation: interval map (binary64 transcription bit-exact, Q model
      to rounding), limits of the three interval types, masks — arrays with NaN / inf, int and
      float dtypes
  (4) oracle: the property text evaluated on CustomNormalization(...)(data), the stretch /
      inverse pairs, the presets and the normalisation objects built by visualization.py
"""
from __future__ import annotations

import json
import math
import re
import threading
import warnings
from fractions import Fraction
from pathlib import Path

import numpy as np

from .. import translate_norm as TN
from ..common import COQ, COQ_FLAGS, SRC, VERIF, Ctx, cfloat, clist, copt, cq, parse_coq_value, sh

SRC_REL = "core/visualization/custom_normalizations.py"
GEN_DIR = COQ / "gen_proofs"

EXPECTED_STRETCHES = ["LinearStretch", "PowerLawStretch", "LogarithmicStretch", "InverseLogarithmicStretch",
                      "InverseHyperbolicSineStretch", "HyperbolicSineStretch"]
EXPECTED_PAIRS = {"LinearStretch": "LinearStretch", "PowerLawStretch": "PowerLawStretch",
                  "LogarithmicStretch": "InverseLogarithmicStretch",
                  "InverseLogarithmicStretch": "LogarithmicStretch",
                  "InverseHyperbolicSineStretch": "HyperbolicSineStretch",
                  "HyperbolicSineStretch": "InverseHyperbolicSineStretch"}
EXPECTED_CN_STRETCHES = {"PowerLawStretch", "LinearStretch", "LogarithmicStretch", "InverseHyperbolicSineStretch"}
EXPECTED_CN_INTERVALS = {"QuantileInterval", "ManualInterval", "CenteredInterval"}

TOL = 1e-9          # "to numerical precision" for range / endpoints / inverse on [0, 1]
MONO_TOL = 1e-12    # rounding slack when comparing neighbouring outputs

PRE = """From QV.lib Require Import Prelude FloatBits.
From QV.model Require Import C20_Model.
From Coq Require Import QArith PrimFloat.
Local Close Scope Q_scope.
"""


def coq_values(ctx, name, exprs, shard):
    """ctx.coq_eval + parsing; scope delimiters (`(-5)%Z`) are stripped first"""
    raw = ctx.coq_eval(name, PRE, exprs, shard=shard, parse=False)
    return [parse_coq_value(re.sub(r"\s+", " ", re.sub(r"%\w+", "", v))) for v in raw]


def _quiet():
    warnings.simplefilter("ignore")
    return np.errstate(all="ignore")


def CN():
    import quantem.core.visualization.custom_normalizations as m
    return m


# ==========================================================================================
# (1) proofs


def _enclosing_lemma(script: Path, out: str) -> str:
    m = re.search(r'line (\d+), characters', out)
    if not m:
        return ""
    ln = int(m.group(1))
    name = ""
    for i, line in enumerate(script.read_text().splitlines(), 1):
        if i > ln:
            break
        mm = re.match(r"\s*(?:Lemma|Theorem|Example|Definition)\s+(\w+)", line)
        if mm:
            name = mm.group(1)
    return name


def proof_phase(ctx: Ctx):
    """returns the Translation (or None) and starts nothing else"""
    problems = []
    rc, out = ctx.coq_make(["props/C20_Properties.vo", "proof/C20_RLemmas.vo", "lib/C20_NpReal.vo"])
    if rc != 0:
        (ctx.dir / "make_failure.log").write_text(out)
    if not ctx.require_proofs():
        problems += ctx._proof_problems
    cmd1 = ctx.cov["checker_cmd"]

    gen_props = GEN_DIR / "C20_GenProperties.v"
    gen_proofs = GEN_DIR / "C20_GenProofs.v"
    gen_theorems = re.findall(r"(?m)^\s*Theorem\s+(\w+)", gen_props.read_text())

    def not_checked(why):
        ctx.cov["obligations"] += len(gen_theorems)
        for t in gen_theorems:
            ctx.cov["theorems"][t] = "NOT CHECKED (%s)" % why

    src = SRC / "quantem" / SRC_REL
    T = None
    try:
        T = TN.translate(src)
        ctx.cov["translator"] = {"status": "ok", "source_sha256": T.source_sha256}
    except TN.DtypeError as e:
        problems.append("translator (fail closed): %s" % e)
        ctx.cov["translator"] = {"status": "rejected: integer-dtype arithmetic", "error": str(e)}
        try:
            T = TN.translate(src, strict_dtype=False)
            ctx.cov["translator"]["note"] = ("re-translated with every array operation read as real arithmetic, only "
                                             "to keep checking the remaining obligations")
        except TN.TranslateError as e2:
            problems.append("translator (lenient) also failed: %s" % e2)
    except TN.TranslateError as e:
        problems.append("translator (fail closed): source outside the accepted grammar: %s" % e)
        ctx.cov["translator"] = {"status": "rejected", "error": str(e)}
    except Exception as e:  # noqa  (syntax error in the source, missing file ...)
        problems.append("translator could not read the source: %r" % e)
        ctx.cov["translator"] = {"status": "failed", "error": repr(e)}

    flags = COQ_FLAGS + ["-Q", str(ctx.dir), "Gen20"]
    built = False
    if T is None:
        not_checked("translator rejected the source")
    else:
        if list(T.stretches) != EXPECTED_STRETCHES or T.pairs != EXPECTED_PAIRS \
                or set(T.cn_stretches) != EXPECTED_CN_STRETCHES or set(T.cn_intervals) != EXPECTED_CN_INTERVALS:
            problems.append("the set of stretch / interval classes or their inverse pairing changed: the fixed "
                            "theorems no longer cover the source (stretches=%s pairs=%s constructed=%s/%s)"
                            % (T.stretches, T.pairs, T.cn_stretches, T.cn_intervals))
        gen = ctx.dir / "Gen_Norm.v"
        gen.write_text(TN.coq_text(T))
        for stale in ("Gen_Norm.vo", "C20_GenProofs.vo", "C20_GenProperties.vo"):
            if (ctx.dir / stale).exists():
                (ctx.dir / stale).unlink()
        bad = ctx.static_scan([gen, gen_proofs, gen_props])
        if bad:
            problems.append("forbidden declarations: %s" % bad[:5])
        rc, out = sh(["timeout", "300", "coqc"] + flags + [str(gen)], cwd=ctx.dir, timeout=330)
        if rc != 0:
            problems.append("generated file Gen_Norm.v does not compile:\n" + "\n".join(out.strip().splitlines()[-12:]))
            not_checked("generated file does not compile")
        else:
            rc, out = sh(["timeout", "600", "coqc"] + flags + ["-o", str(ctx.dir / "C20_GenProofs.vo"), str(gen_proofs)],
                         cwd=ctx.dir, timeout=630)
            (ctx.dir / "C20_GenProofs.out").write_text(out)
            if rc != 0:
                lem = _enclosing_lemma(gen_proofs, out)
                problems.append("the model translated from the current source no longer satisfies the fixed proof "
                                "script C20_GenProofs.v (at `%s`):\n%s" % (lem, "\n".join(out.strip().splitlines()[-14:])))
                not_checked("fixed proof script fails at %s" % lem)
            else:
                built = True
                if not ctx.require_proofs(props_name="C20_GenProperties", props_path=gen_props,
                                          extra_flags=["-Q", str(ctx.dir), "Gen20"], make_targets=[]):
                    problems += ctx._proof_problems
    ctx.cov["checker_cmd"] = (cmd1 + "  ;  python -m harness.translate_norm > build/C20/Gen_Norm.v && coqc %s Gen_Norm.v "
                              "&& coqc ... -o build/C20/C20_GenProofs.vo coq/gen_proofs/C20_GenProofs.v && coqc ... "
                              "coq/gen_proofs/C20_GenProperties.v" % " ".join(flags))
    if problems:
        ctx.broken_obligation = "; ".join(problems)
        ctx.log("PROOF OBLIGATION BROKEN:", ctx.broken_obligation[:3000])
    return T, built


# ==========================================================================================
# (2) translator cross-test with `interval`


def _fr(x) -> Fraction:
    return Fraction(*float(x).as_integer_ratio())


def _cr(fr) -> str:
    fr = Fraction(fr)
    if fr.denominator == 1:
        return "%d" % fr.numerator if fr.numerator >= 0 else "(- %d)" % -fr.numerator
    if fr.numerator >= 0:
        return "(%d / %d)" % (fr.numerator, fr.denominator)
    return "(- (%d / %d))" % (-fr.numerator, fr.denominator)


def _copt_r(v):
    return "None" if v is None else "(Some %s)" % _cr(_fr(v))


XT_TACTIC = r"""
Ltac xt_dec := first [ lra | interval with (i_prec 80) ].
Ltac xt_if :=
  match goal with
  | |- context [Req_EM_T ?a ?b] =>
    let xe := fresh "xe" in let xn := fresh "xn" in
    first
      [ destruct (Req_EM_T a b) as [xe | xn];
        [ exfalso; first [ apply (Rlt_not_eq a b); [xt_dec | exact xe]
                         | apply (Rgt_not_eq a b); [xt_dec | exact xe] ]
        | clear xn ]
      | destruct (Req_EM_T a b) as [xe | xn];
        [ clear xe | exfalso; apply xn; first [ reflexivity | lra | field ] ] ]
  end.
Ltac xt_minmax :=
  match goal with
  | |- context [Rmax ?a ?b] =>
    first [ rewrite (Rmax_left a b) by xt_dec | rewrite (Rmax_right a b) by xt_dec ]
  | |- context [Rmin ?a ?b] =>
    first [ rewrite (Rmin_left a b) by xt_dec | rewrite (Rmin_right a b) by xt_dec ]
  end.
Ltac xt := xt_unfold; repeat first [ xt_if | xt_minmax ]; interval with (i_prec 80).
"""


def build_crosstest(ctx: Ctx, T):
    """list of (label, coq_expression, implementation float) — one per generated function and point"""
    m = CN()
    r = ctx.rng
    pts = []
    n_x = ctx.budget(5, 14)

    def xs():
        base = [0.0, 1.0, -0.5, 1.75, 0.5]
        return base + [r.randrange(1, 64) / 64.0 for _ in range(n_x)]

    def params_for(cls):
        if cls == "PowerLawStretch":
            return [(1.0,), (0.5,), (2.0,)] + [(r.randrange(1, 48) / 8.0,) for _ in range(2)]
        if cls in ("LogarithmicStretch", "InverseLogarithmicStretch"):
            return [(1000.0,), (0.125,)] + [(r.choice([0.5, 3.0, 17.25, 250.0, 4096.0]),) for _ in range(2)]
        if cls == "InverseHyperbolicSineStretch":
            return [(0.1,), (2.0,)] + [(r.randrange(1, 40) / 16.0,) for _ in range(2)]
        if cls == "HyperbolicSineStretch":
            return [(1.0 / 3.0,), (2.0,)] + [(r.randrange(3, 40) / 16.0,) for _ in range(2)]
        if cls == "LinearStretch":
            return [(1.0, 0.0), (0.5, 0.25), (1.0, 0.125), (2.0, 0.0), (-0.5, 0.75)]
        raise AssertionError(cls)

    with _quiet():
        for cls in T.stretches:
            C = getattr(m, cls)
            for ps in params_for(cls):
                obj = C(*ps)
                ptxt = " ".join(_cr(_fr(p)) for p in ps)
                for x in xs():
                    y = float(np.asarray(obj(np.array([x], dtype=np.float64)))[0])
                    pts.append(("%s%s(%r)" % (cls, ps, x), "%s_call %s %s" % (cls, ptxt, _cr(_fr(x))), y))
                    if cls == "LinearStretch" and ps[0] == 0:
                        continue
                    yi = float(np.asarray(obj.inverse(np.array([x], dtype=np.float64)))[0])
                    pts.append(("%s%s.inverse(%r)" % (cls, ps, x),
                                "%s_inverse_call %s %s" % (cls, ptxt, _cr(_fr(x))), yi))
            obj = C()
            for x in xs()[:4]:
                y = float(np.asarray(obj(np.array([x], dtype=np.float64)))[0])
                pts.append(("%s()(%r)" % (cls, x), "%s_default_call %s" % (cls, _cr(_fr(x))), y))
        # interval map / inverse
        lims = [(1.0, 5.0), (-2.5, 0.75), (3.0, 3.0), (0.0, 1.0), (5.0, 1.0), (-8.0, 1024.0)]
        for vmin, vmax in lims:
            iv = m.ManualInterval(vmin, vmax)
            cand = [vmin, vmax, (vmin + vmax) / 2, vmin - 1.5, vmax + 2.25, vmin + (vmax - vmin) * 0.1875,
                    vmin + 0.375]
            for x in cand:
                y = float(iv(np.array([x], dtype=np.float64))[0])
                pts.append(("interval_map(%r,%r)(%r)" % (vmin, vmax, x),
                            "interval_map %s %s %s" % (_cr(_fr(vmin)), _cr(_fr(vmax)), _cr(_fr(x))), y))
            for yv in (0.0, 1.0, 0.3125):
                xv = float(iv.inverse(np.array([yv], dtype=np.float64))[0])
                pts.append(("interval_inverse(%r,%r)(%r)" % (vmin, vmax, yv),
                            "interval_inverse %s %s %s" % (_cr(_fr(vmin)), _cr(_fr(vmax)), _cr(_fr(yv))), xv))
        # get_limits
        data = np.array([3.0, -1.5, np.nan, 7.25, np.inf, 0.5, -np.inf])
        dmin, dmax = -1.5, 7.25
        for a, b in [(None, None), (0.25, None), (None, 4.5), (1.0, 2.0)]:
            lo, hi = m.ManualInterval(a, b).get_limits(data)
            e = "ManualInterval_get_limits %s %s %s %s" % (_copt_r(a), _copt_r(b), _cr(_fr(dmin)), _cr(_fr(dmax)))
            pts.append(("ManualInterval(%r,%r).vmin" % (a, b), "fst (%s)" % e, float(lo)))
            pts.append(("ManualInterval(%r,%r).vmax" % (a, b), "snd (%s)" % e, float(hi)))
        for c, h in [(0.0, None), (1.0, None), (10.0, None), (-4.0, None), (2.0, 3.5)]:
            lo, hi = m.CenteredInterval(c, h).get_limits(data)
            e = "CenteredInterval_get_limits %s %s %s %s" % (_cr(_fr(c)), _copt_r(h), _cr(_fr(dmin)), _cr(_fr(dmax)))
            pts.append(("CenteredInterval(%r,%r).vmin" % (c, h), "fst (%s)" % e, float(lo)))
            pts.append(("CenteredInterval(%r,%r).vmax" % (c, h), "snd (%s)" % e, float(hi)))
        lin = np.concatenate([np.linspace(0.0, 16.0, 17), [np.nan, np.inf]])     # quantile(q) = 16 q
        for lq, uq in [(0.02, 0.98), (0.25, 0.5), (0.0, 1.0)]:
            lo, hi = m.QuantileInterval(lq, uq).get_limits(lin)
            e = "QuantileInterval_get_limits (fun q => 16 * q) %s %s" % (_cr(_fr(lq)), _cr(_fr(uq)))
            pts.append(("QuantileInterval(%r,%r).vmin" % (lq, uq), "fst (%s)" % e, float(lo)))
            pts.append(("QuantileInterval(%r,%r).vmax" % (lq, uq), "snd (%s)" % e, float(hi)))
        # the composition, through the constructors CustomNormalization uses
        combos = [("linear", {}, "CustomNormalization_stretch_LinearStretch", (), "LinearStretch_default_inverse_call"),
                  ("power", {"power": 0.5}, "CustomNormalization_stretch_PowerLawStretch", (0.5,),
                   "PowerLawStretch_inverse_call"),
                  ("power", {"power": 3.0}, "CustomNormalization_stretch_PowerLawStretch", (3.0,),
                   "PowerLawStretch_inverse_call"),
                  ("logarithmic", {"logarithmic_index": 64.0}, "CustomNormalization_stretch_LogarithmicStretch",
                   (64.0,), "LogarithmicStretch_inverse_call"),
                  ("asinh", {"asinh_linear_range": 0.25}, "CustomNormalization_stretch_InverseHyperbolicSineStretch",
                   (0.25,), "InverseHyperbolicSineStretch_inverse_call")]
        for st, kw, gname, ps, iname in combos:
            if gname[len("CustomNormalization_stretch_"):] not in T.cn_stretches:
                continue
            vmin, vmax = -1.0, 3.0
            N = m.CustomNormalization("manual", st, vmin=vmin, vmax=vmax, **kw)
            ptxt = "".join(" " + _cr(_fr(p)) for p in ps)
            for x in [-1.0, 3.0, 0.25, 2.5, -7.0, 11.0]:
                y = float(np.ma.filled(N(np.array([x])), np.nan)[0])
                pts.append(("CustomNormalization(manual,%s,%s)(%r)" % (st, kw, x),
                            "CustomNormalization_call (interval_map %s %s) (%s%s) %s" % (
                                _cr(_fr(vmin)), _cr(_fr(vmax)), gname, ptxt, _cr(_fr(x))), y))
            for yv in [0.0, 1.0, 0.4375]:
                xv = float(np.asarray(N.inverse(np.array([yv])))[0])
                pts.append(("CustomNormalization(manual,%s,%s).inverse(%r)" % (st, kw, yv),
                            "CustomNormalization_inverse (%s%s) (interval_inverse %s %s) %s" % (
                                iname, ptxt, _cr(_fr(vmin)), _cr(_fr(vmax)), _cr(_fr(yv))), xv))
    return pts


def crosstest_file(T, pts) -> str:
    names = list(T.defs) + ["np_clip", "np_power", "fst", "snd"]
    for s in T.stretches:
        names += [s + "_default_inverse_call"]
    lines = ["From Coq Require Import Reals Lra.", "From Interval Require Import Tactic.",
             "From QV.lib Require Import C20_NpReal.", "From Gen20 Require Import Gen_Norm.",
             "Local Open Scope R_scope.",
             "Ltac xt_unfold := cbv beta iota delta [%s]." % " ".join(names), XT_TACTIC]
    for i, (label, expr, y) in enumerate(pts):
        if not math.isfinite(y):
            lines.append('Goal True. idtac "XT-NONFINITE %d". exact I. Qed.' % i)
            continue
        tol = Fraction(1, 10 ** 11) * max(1, abs(_fr(y)))
        lo, hi = _fr(y) - tol, _fr(y) + tol
        lines.append('Goal True. first [ assert (%s <= %s <= %s) by xt | idtac "XT-FAIL %d" ]. exact I. Qed.'
                     % (_cr(lo), expr, _cr(hi), i))
    return "\n".join(lines) + "\n"


class CrossTest(threading.Thread):
    def __init__(self, ctx, T, pts):
        super().__init__(daemon=True)
        self.ctx, self.T, self.pts = ctx, T, pts
        self.rc, self.out = None, ""

    def run(self):
        fn = self.ctx.dir / "crosstest.v"
        fn.write_text(crosstest_file(self.T, self.pts))
        flags = COQ_FLAGS + ["-Q", str(self.ctx.dir), "Gen20"]
        self.rc, self.out = sh(["timeout", "900", "coqc"] + flags + [str(fn)], cwd=self.ctx.dir, timeout=930)
        (self.ctx.dir / "crosstest.out").write_text(self.out)


def finish_crosstest(ctx: Ctx, xt: CrossTest):
    xt.join()
    pts = xt.pts
    ctx.cov["translator_crosstest"] = {"points": len(pts), "rule":
                                       "implementation float must lie in the `interval` enclosure (i_prec 80) of the "
                                       "generated Coq expression widened by 1e-11 relative"}
    if xt.rc != 0:
        ctx.violation("translator-crosstest-machinery",
                      "the translator cross-test file did not compile (tie between generated Coq and implementation not "
                      "established): " + "\n".join(xt.out.strip().splitlines()[-6:]),
                      {"kind": "crosstest", "log": xt.out[-3000:]}, found_input=False)
        return
    fails = [int(x) for x in re.findall(r"XT-(?:FAIL|NONFINITE) (\d+)", xt.out)]
    ctx.cov["translator_crosstest"]["enclosed"] = len(pts) - len(fails)
    ctx.cov["evaluations"] += len(pts)
    ctx.cov["traces_validated_against_impl"] += len(pts) - len(fails)
    ctx.dist("crosstest/points", len(pts))
    if fails:
        i = fails[0]
        label, expr, y = pts[i]
        ctx.cov["disagreements_checked"] += len(fails)
        ctx.violation("translator-crosstest",
                      "generated Coq expression does not enclose the implementation's value at %d of %d points; first: "
                      "%s = %r but `%s` is not within 1e-11 of it (translator or vocabulary no longer matches the code)"
                      % (len(fails), len(pts), label, y, expr),
                      {"kind": "crosstest", "label": label, "coq": expr, "impl": y,
                       "all_failing": [pts[j][0] for j in fails[:40]]}, found_input=False)
    ctx.log("translator cross-test: %d points, %d not enclosed" % (len(pts), len(fails)))


# ==========================================================================================
# data generation (shared by correspondence and oracle)

INT_DTYPES = ["int8", "uint8", "int16", "uint16", "int32", "int64"]
FLOAT_DTYPES = ["float64", "float64", "float64", "float32"]


def gen_array(r, dtype=None, n=None, specials=None):
    """returns {"dtype", "data": [python numbers / 'nan' / 'inf' / '-inf']}"""
    dtype = dtype or r.choice(FLOAT_DTYPES + FLOAT_DTYPES + INT_DTYPES)
    n = n or r.choice([2, 3, 4, 5, 7, 9, 12, 16, 25, 40])
    if dtype.startswith("float"):
        kind = r.choice(["grid", "grid", "wide", "small", "dups", "tight"])
        vals = []
        # "tight": distinct values whose spread is tiny next to their magnitude (counts on a pedestal,
        # values a few 1e-9 apart): still "at least two distinct finite values", so the limits must go
        # to 0 and 1 — a closeness test standing in for `vmax != vmin` would swallow these
        t_base, t_step = r.choice([(1000.0, 2.0 ** -12), (-30000.0, 2.0 ** -7), (0.0, 2.0 ** -30), (1.0, 2.0 ** -20)])
        for _ in range(n):
            if kind == "tight":
                v = t_base + r.randint(0, 12) * t_step
            elif kind == "grid":
                v = r.randint(-400, 400) / 8.0
            elif kind == "wide":
                v = r.choice([-1, 1]) * r.randint(1, 4096) * 2.0 ** r.randint(-12, 14)
            elif kind == "small":
                v = r.randint(0, 1 << 12) / float(1 << 14)
            else:
                v = float(r.choice([0, 0, 0, 1, 2, 5]))
            vals.append(float(np.dtype(dtype).type(v)))
        if len(set(vals)) < 2:
            vals[0] = vals[-1] + 1.0
        if specials is None:
            specials = r.random() < 0.55
        if specials:
            for _ in range(r.randint(1, 3)):
                vals[r.randrange(n)] = r.choice(["nan", "inf", "-inf", "nan"])
            fin = [v for v in vals if not isinstance(v, str)]
            if len(set(fin)) < 2:
                vals += [1.5, -2.25]
        return {"dtype": dtype, "data": vals}
    info = np.iinfo(dtype)
    kind = r.choice(["full", "full", "narrow", "extreme"])
    if kind == "narrow":
        lo, hi = max(info.min, -20), min(info.max, 50)
    elif kind == "extreme":
        lo, hi = info.min, info.max
    else:
        lo, hi = max(info.min, -(1 << 20)), min(info.max, 1 << 20)
    vals = [r.randint(lo, hi) for _ in range(n)]
    if kind == "extreme":
        vals[0], vals[-1] = info.min, info.max
    if len(set(vals)) < 2:
        vals[0] = vals[-1] - 1 if vals[-1] > info.min else vals[-1] + 1
    return {"dtype": dtype, "data": vals}


def to_np(a):
    if a["dtype"].startswith("float"):
        return np.array([float(v) for v in a["data"]], dtype=a["dtype"])
    return np.array(a["data"], dtype=a["dtype"])


def finite_values(a):
    return [float(v) for v in a["data"] if not isinstance(v, str)] if a["dtype"].startswith("float") else \
        [int(v) for v in a["data"]]


def gen_interval_cfg(r, a):
    """interval configuration valid for the array (ordered limits)"""
    fin = finite_values(a)
    lo, hi = min(fin), max(fin)
    is_int = not a["dtype"].startswith("float")
    kind = r.choice(["quantile", "quantile", "manual-default", "manual-explicit", "manual-explicit", "manual-half",
                     "centered-default", "centered-explicit", "manual-degenerate"])
    if kind == "quantile":
        lq, uq = r.choice([(0.02, 0.98), (0.0, 1.0), (0.25, 0.75), (0.1, 0.5), (0.05, 0.95), (0.5, 1.0), (0.0, 0.3)])
        return {"itype": "quantile", "lower_quantile": lq, "upper_quantile": uq}
    if kind == "manual-default":
        return {"itype": "manual"}
    span = float(hi) - float(lo)
    if kind in ("manual-explicit", "manual-half", "manual-degenerate"):
        if is_int and r.random() < 0.6:
            # Python-int limits, anywhere in / around the data range
            vmin = int(r.randint(int(lo) - 3, int(hi)))
            vmax = int(r.randint(vmin + 1, int(hi) + 4)) if kind != "manual-degenerate" else vmin
        else:
            vmin = float(lo) + span * r.choice([-0.25, 0.0, 0.125, 0.5])
            vmax = vmin + span * r.choice([0.25, 0.5, 1.0, 1.5]) if kind != "manual-degenerate" else vmin
            if not (vmax > vmin) and kind != "manual-degenerate":
                vmax = vmin + 1.0
        if kind == "manual-half":
            return {"itype": "manual", "vmin": vmin} if r.random() < 0.5 else {"itype": "manual", "vmax": vmax}
        return {"itype": "manual", "vmin": vmin, "vmax": vmax}
    vc = r.choice([0.0, 0.0, float(lo), (float(lo) + float(hi)) / 2.0, float(hi) + span * 0.5])
    if is_int and r.random() < 0.5:
        vc = int(round(vc))
    if kind == "centered-default":
        return {"itype": "centered", "vcenter": vc}
    return {"itype": "centered", "vcenter": vc, "half_range": r.choice([span * 0.5, span, 1.0, float(abs(hi)) + 1.0])}


def make_interval(cfg):
    m = CN()
    if cfg["itype"] == "quantile":
        return m.QuantileInterval(cfg["lower_quantile"], cfg["upper_quantile"])
    if cfg["itype"] == "manual":
        return m.ManualInterval(cfg.get("vmin"), cfg.get("vmax"))
    return m.CenteredInterval(cfg.get("vcenter", 0.0), cfg.get("half_range"))


def norm_kwargs(cfg):
    kw = {k: v for k, v in cfg.items() if k not in ("itype", "stype")}
    return kw


# ==========================================================================================
# (3) executable model vs implementation


def _xq(v):
    if isinstance(v, str):
        return {"nan": "XNaN", "inf": "PInf", "-inf": "NInf"}[v]
    if isinstance(v, float) and v != v:
        return "XNaN"
    if isinstance(v, float) and math.isinf(v):
        return "PInf" if v > 0 else "NInf"
    return "(Fin %s)" % cq(Fraction(v) if isinstance(v, int) else _fr(v))


def _xf(v):
    if isinstance(v, str):
        return {"nan": "nan%float", "inf": "infinity%float", "-inf": "neg_infinity%float"}[v]
    return cfloat(float(v))


def run_interval_impl(a, cfg):
    arr = to_np(a)
    iv = make_interval(cfg)
    with _quiet():
        try:
            vmin, vmax = iv.get_limits(arr)
            vmin, vmax = float(vmin), float(vmax)
            out = iv(arr)
        except Exception as e:  # noqa
            return {"err": type(e).__name__}
    if not (math.isfinite(vmin) and math.isfinite(vmax)):
        return {"err": "nonfinite-limits"}
    return {"vmin": vmin, "vmax": vmax, "out": [float(v) for v in np.asarray(out, dtype=np.float64).ravel()],
            "out_dtype": str(out.dtype)}


def interval_expr(a, cfg, obs):
    data = clist(a["data"], _xq)
    if cfg["itype"] == "quantile":
        lim = "limits_quantile %s %s %s" % (cq(_fr(cfg["lower_quantile"])), cq(_fr(cfg["upper_quantile"])), data)
    elif cfg["itype"] == "manual":
        f = lambda v: cq(Fraction(v) if isinstance(v, int) else _fr(v))  # noqa
        lim = "limits_manual %s %s %s" % (copt(cfg.get("vmin"), f), copt(cfg.get("vmax"), f), data)
    else:
        f = lambda v: cq(Fraction(v) if isinstance(v, int) else _fr(v))  # noqa
        lim = "limits_centered %s %s %s" % (f(cfg.get("vcenter", 0.0)), copt(cfg.get("half_range"), f), data)
    if "err" in obs:
        return "(qshow_pair (%s), @nil (Z*Z*Z), @nil (Z*Z*Z), @nil bool)" % lim
    vmin, vmax = obs["vmin"], obs["vmax"]
    fmap = "map fshow (map (f_interval_map %s %s) %s)" % (cfloat(vmin), cfloat(vmax), clist(a["data"], _xf))
    qmap = "map qshow (map (x_interval_map Qcarrier %s %s) %s)" % (cq(_fr(vmin)), cq(_fr(vmax)), data)
    mask = "map (fun v => x_masked (x_norm Qcarrier (fun q => q) %s %s v)) %s" % (cq(_fr(vmin)), cq(_fr(vmax)), data)
    return "(qshow_pair (%s), %s, %s, %s)" % (lim, fmap, qmap, mask)


def oracle_interval(a, cfg, obs):
    """property clauses that concern the interval map alone (identity stretch)"""
    if "err" in obs:
        if finite_values(a):
            return "the interval raised / returned non-finite limits (%s) on data with finite values" % obs["err"]
        return None
    vmin, vmax, out = obs["vmin"], obs["vmax"], obs["out"]
    if vmin > vmax:
        return None
    vals = [float(v) for v in a["data"]]
    # the interval map runs in the dtype of the data (float32 stays float32): slack in its ulps
    rt = 16 * float(np.finfo(a["dtype"]).eps) if a["dtype"] in ("float16", "float32") else TOL
    mt = rt if a["dtype"] in ("float16", "float32") else MONO_TOL
    fin = [(x, y) for x, y in zip(vals, out) if math.isfinite(x)]
    for x, y in zip(vals, out):
        if (x != x) != (y != y):
            return "NaN handling: input %r -> output %r" % (x, y)
    for x, y in fin:
        if not (-rt <= y <= 1 + rt):
            return "finite datum %r mapped to %r outside [0, 1] (limits %r, %r)" % (x, y, vmin, vmax)
    fin.sort()
    for (x1, y1), (x2, y2) in zip(fin, fin[1:]):
        if y2 < y1 - mt:
            return "not monotone: %r -> %r but %r -> %r (limits %r, %r)" % (x1, y1, x2, y2, vmin, vmax)
    if vmin < vmax:
        for x, y in fin:
            if x == vmin and abs(y) > rt:
                return "lower limit %r mapped to %r, not 0" % (x, y)
            if x == vmax and abs(y - 1) > rt:
                return "upper limit %r mapped to %r, not 1" % (x, y)
    return None


def classify_failure(a, cfg, msg, rerun):
    """integer-dtype wrap-around is recognised by the same data passing in float64"""
    if a["dtype"].startswith("float"):
        return None
    b = dict(a)
    b["dtype"] = "float64"
    b["data"] = [float(v) for v in a["data"]]
    c = {k: (float(v) if isinstance(v, int) and not isinstance(v, bool) else v) for k, v in cfg.items()}
    if rerun(b, c) is None:
        return "int-dtype-wraparound"
    return None


def check_interval_correspondence(ctx: Ctx):
    r = ctx.rng
    cases = []
    for c in corpus(ctx).get("interval", []):
        cases.append((c["array"], c["cfg"]))
    # NaN / inf algebra table: every special value against ordered, equal and reversed limits
    for vmin, vmax in [(1.0, 5.0), (2.0, 2.0), (5.0, 1.0), (-3.5, -3.25), (0.0, 1e-3)]:
        cases.append(({"dtype": "float64", "data": ["nan", "inf", "-inf", 0.0, -0.0, vmin, vmax, vmin - 1, vmax + 1,
                                                    (vmin + vmax) / 2]},
                      {"itype": "manual", "vmin": vmin, "vmax": vmax}))
    cases.append(({"dtype": "float64", "data": ["nan", "inf", "-inf"]}, {"itype": "manual"}))
    cases.append(({"dtype": "float64", "data": ["nan", "inf"]}, {"itype": "centered"}))
    for _ in range(ctx.budget(170, 2500)):
        a = gen_array(r)
        cases.append((a, gen_interval_cfg(r, a)))
    obs_all, exprs = [], []
    for a, cfg in cases:
        obs = run_interval_impl(a, cfg)
        obs_all.append(obs)
        exprs.append(interval_expr(a, cfg, obs))
    vals = coq_values(ctx, "interval", exprs, 25)
    nd = 0
    for (a, cfg), obs, v in zip(cases, obs_all, vals):
        lim, fm, qm, mk = v
        ctx.dist("interval/dtype=%s" % a["dtype"])
        ctx.dist("interval/kind=%s%s" % (cfg["itype"], "" if len(cfg) > 1 else "-default"))
        has_special = any(isinstance(x, str) for x in a["data"])
        ctx.dist("interval/specials=%s" % has_special)
        ctx.count(("interval", json.dumps(a, sort_keys=True), json.dumps(cfg, sort_keys=True)),
                  nontrivial="err" not in obs and len(set(obs["out"])) > 1)
        bad_o = oracle_interval(a, cfg, obs)
        if bad_o:
            key = classify_failure(a, cfg, bad_o, lambda b, c: oracle_interval(b, c, run_interval_impl(b, c)))
            ctx.violation(key or "interval-map-oracle/%s" % cfg["itype"],
                          "interval %s on %s data: %s" % (cfg, a["dtype"], bad_o),
                          {"kind": "interval", "array": a, "cfg": cfg, "impl": obs})
        problems = []
        if "err" in obs:
            if lim is not None and obs["err"] != "nonfinite-limits":
                problems.append("implementation raised %s, model returns limits %r" % (obs["err"], lim))
        else:
            if lim is None:
                problems.append("model has no limits, implementation returned (%r, %r)" % (obs["vmin"], obs["vmax"]))
            else:
                an, ad, (bn, bd) = lim[1]       # Coq prints ((a, b), (c, d)) as (a, b, (c, d))
                scale = max([1.0] + [abs(float(x)) for x in a["data"] if not isinstance(x, str)])
                ltol = 1e-12 * scale if a["dtype"] != "float32" else 1e-6 * scale
                for nm, mv, iv in (("vmin", Fraction(an, ad), obs["vmin"]), ("vmax", Fraction(bn, bd), obs["vmax"])):
                    if abs(float(mv) - iv) > ltol:
                        problems.append("%s: model %s = %r, implementation %r" % (nm, mv, float(mv), iv))
            out = obs["out"]
            if obs["out_dtype"] == "float64":
                if len(fm) != len(out):
                    problems.append("length mismatch")
                for i, ((tag, mm, ee), y) in enumerate(zip(fm, out)):
                    same = (tag == 1 and y != y) or (tag == 0 and y == y and not math.isinf(y)
                                                    and Fraction(mm) * Fraction(2) ** ee == _fr(y)) \
                        or (tag == 2 and y == math.inf) or (tag == 3 and y == -math.inf)
                    if not same:
                        problems.append("binary64 transcription differs at index %d (input %r): model %r, "
                                        "implementation %r" % (i, a["data"][i], (tag, mm, ee), y))
                        break
            rtol = 2.0 ** -46 if obs["out_dtype"] == "float64" else 2.0 ** -18
            for i, ((tag, qn, qd), y) in enumerate(zip(qm, out)):
                if tag == 1:
                    ok = y != y
                elif tag == 0:
                    q = float(Fraction(qn, qd))
                    ok = y == y and abs(q - y) <= rtol * max(1.0, abs(q)) + 1e-300
                else:
                    ok = False
                if not ok:
                    problems.append("Q model differs at index %d (input %r): model %r, implementation %r"
                                    % (i, a["data"][i], (tag, qn, qd), y))
                    break
            imask = [bool(y != y) for y in out]
            if list(mk) != imask:
                problems.append("mask: model %r, implementation NaN pattern %r" % (mk, imask))
        ctx.cov["traces_validated_against_impl"] += 1
        if problems:
            nd += 1
            ctx.cov["disagreements_checked"] += 1
            ctx.violation("interval-correspondence",
                          "interval map / limits of the implementation and the model disagree (the theorems no longer "
                          "speak about this code): %s; case %s on %s %s" % (problems[0], cfg, a["dtype"], a["data"][:12]),
                          {"kind": "interval", "array": a, "cfg": cfg, "impl": obs, "model": repr(v)[:2000],
                           "problems": problems},
                          found_input=bad_o is not None)
    mid = len(cases) // 2
    ctx.sample({"kind": "interval", "array": cases[mid][0], "cfg": cases[mid][1], "impl": obs_all[mid]})
    ctx.log("interval correspondence: %d cases, %d disagreements" % (len(cases), nd))


# ==========================================================================================
# (4) the oracle on CustomNormalization


STRETCH_CFGS = [
    {"stype": "linear"},
    {"stype": "power", "power": 2.0}, {"stype": "power", "power": 0.5}, {"stype": "power", "power": 1.0},
    {"stype": "logarithmic"}, {"stype": "logarithmic", "logarithmic_index": 0.5},
    {"stype": "logarithmic", "logarithmic_index": 1e5},
    {"stype": "asinh"}, {"stype": "asinh", "asinh_linear_range": 2.0}, {"stype": "asinh", "asinh_linear_range": 0.01},
]


def gen_stretch_cfg(r):
    c = dict(r.choice(STRETCH_CFGS))
    if r.random() < 0.35:
        if c["stype"] == "power":
            c["power"] = r.choice([0.1, 0.25, 0.75, 1.5, 3.0, 8.0, r.uniform(0.1, 6.0)])
        elif c["stype"] == "logarithmic":
            c["logarithmic_index"] = r.choice([1e-3, 1.0, 10.0, 5e3, r.uniform(0.01, 2000.0)])
        elif c["stype"] == "asinh":
            c["asinh_linear_range"] = r.choice([0.02, 0.5, 1.0, 10.0, r.uniform(0.02, 5.0)])
    return c


def build_norm(icfg, scfg, arr, with_data):
    m = CN()
    kw = norm_kwargs(icfg)
    kw.update(norm_kwargs(scfg))
    if with_data:
        kw["data"] = arr
    return m.CustomNormalization(icfg["itype"], scfg["stype"], **kw)


def oracle_norm(a, icfg, scfg, with_data=True):
    """the property text on CustomNormalization(...)(data); returns (clause, message) or None"""
    arr = to_np(a)
    with _quiet():
        try:
            N = build_norm(icfg, scfg, arr, with_data)
            if with_data:
                vmin, vmax = float(N.vmin), float(N.vmax)
            else:
                lo, hi = N.interval.get_limits(arr)
                vmin, vmax = float(lo), float(hi)
            out = N(arr)
        except Exception as e:  # noqa
            return ("exception", "CustomNormalization raised %r" % e)
        mask = np.ma.getmaskarray(out).ravel().tolist()
        vals = np.ma.getdata(out).astype(np.float64).ravel().tolist()
        # rounding slack follows the dtype the implementation computed in (float32 data stay float32:
        # one ulp is 1.2e-7); float64 results keep the 1e-9 / 1e-12 slack
        odt = np.ma.getdata(out).dtype
        rt = TOL if odt == np.float64 else 16 * float(np.finfo(odt).eps) if odt.kind == "f" else TOL
        mt = MONO_TOL if odt == np.float64 else rt
        xs = [float(v) for v in arr.ravel().tolist()]
        fin = finite_values(a)
        if not (math.isfinite(vmin) and math.isfinite(vmax)):
            return ("limits", "limits (%r, %r) are not finite although the data have finite values" % (vmin, vmax))
        span = max(abs(float(max(fin))), abs(float(min(fin))), 1.0)
        ordered_cfg = not (icfg["itype"] == "quantile" and icfg["lower_quantile"] > icfg["upper_quantile"])
        if icfg["itype"] == "manual" and icfg.get("vmin") is not None and icfg.get("vmax") is not None:
            ordered_cfg = icfg["vmin"] <= icfg["vmax"]
        if icfg["itype"] == "centered" and icfg.get("half_range") is not None:
            ordered_cfg = icfg["half_range"] >= 0
        if ordered_cfg and vmin > vmax:
            return ("limits", "limits are not ordered: vmin=%r > vmax=%r" % (vmin, vmax))
        ltol = 1e-9 * span if a["dtype"] != "float32" else 1e-5 * span
        if icfg["itype"] == "quantile" and ordered_cfg and 0 <= icfg["lower_quantile"] and icfg["upper_quantile"] <= 1:
            if vmin < min(fin) - ltol or vmax > max(fin) + ltol:
                return ("limits", "quantile limits (%r, %r) outside the finite data range [%r, %r]"
                        % (vmin, vmax, min(fin), max(fin)))
        if icfg["itype"] == "manual" and "vmin" not in icfg and "vmax" not in icfg:
            if abs(vmin - float(min(fin))) > ltol or abs(vmax - float(max(fin))) > ltol:
                return ("limits", "min/max limits (%r, %r) differ from the finite data range [%r, %r]"
                        % (vmin, vmax, min(fin), max(fin)))
        if icfg["itype"] == "centered" and "half_range" not in icfg:
            c = float(icfg.get("vcenter", 0.0))
            if abs((vmin + vmax) / 2 - c) > ltol or vmin > min(fin) + ltol or vmax < max(fin) - ltol:
                return ("limits", "centred limits (%r, %r) are not symmetric about %r or do not cover [%r, %r]"
                        % (vmin, vmax, c, min(fin), max(fin)))
        if vmin > vmax:
            return None     # reversed limits: outside the domain of the property
        for x, y, mk in zip(xs, vals, mask):
            if x != x:
                if not mk:
                    return ("nan-masking", "NaN input came back unmasked with value %r" % y)
            else:
                if mk:
                    return ("nan-masking", "input %r came back masked" % x)
                if not (-rt <= y <= 1 + rt):
                    return ("range", "datum %r mapped to %r outside [0, 1] (limits %r, %r)" % (x, y, vmin, vmax))
                if x == math.inf and abs(y - 1) > rt:
                    return ("inf-clipping", "+inf mapped to %r, not 1" % y)
                if x == -math.inf and abs(y) > rt:
                    return ("inf-clipping", "-inf mapped to %r, not 0" % y)
        pairs = sorted((x, y) for x, y, mk in zip(xs, vals, mask) if not mk)
        for (x1, y1), (x2, y2) in zip(pairs, pairs[1:]):
            if y2 < y1 - mt:
                return ("monotone", "not monotone: %r -> %r but %r -> %r (limits %r, %r)" % (x1, y1, x2, y2, vmin, vmax))
        if vmin < vmax:
            # frozen limits, evaluated on other data: endpoints, an interior point, neighbours
            if with_data:
                probe = np.array([vmin, vmax, vmin + (vmax - vmin) * 0.375, vmin - 1.0, vmax + 1.0], dtype=np.float64)
                po = np.ma.filled(N(probe), np.nan).astype(np.float64).tolist()
                if abs(po[0]) > rt:
                    return ("endpoints", "lower limit %r mapped to %r, not 0" % (vmin, po[0]))
                if abs(po[1] - 1) > rt:
                    return ("endpoints", "upper limit %r mapped to %r, not 1" % (vmax, po[1]))
                if not (po[3] <= po[0] + mt and po[0] <= po[2] + mt and po[2] <= po[1] + mt
                        and po[1] <= po[4] + mt):
                    return ("monotone", "not monotone on probe %r -> %r" % (probe.tolist(), po))
                if not (rt < po[2] < 1 - rt):
                    return ("endpoints", "interior point mapped to %r (normalisation is constant?)" % po[2])
                back = np.asarray(N.inverse(np.array(po[:3])), dtype=np.float64).tolist()
                for xb, xo in zip(back, probe[:3].tolist()):
                    if abs(xb - xo) > 1e-7 * max(1.0, abs(vmin), abs(vmax)):
                        return ("norm-inverse", "inverse(norm(%r)) = %r" % (xo, xb))
            else:
                for x, y, mk in zip(xs, vals, mask):
                    if x == vmin and abs(y) > rt:
                        return ("endpoints", "lower limit %r mapped to %r, not 0" % (x, y))
                    if x == vmax and abs(y - 1) > rt:
                        return ("endpoints", "upper limit %r mapped to %r, not 1" % (x, y))
    return None


def check_oracle_norm(ctx: Ctx):
    r = ctx.rng
    cases = []
    for c in corpus(ctx).get("norm", []):
        cases.append((c["array"], c["icfg"], c["scfg"], c.get("with_data", True)))
    # every interval type x every stretch setting on one array with NaN / +-inf
    base = {"dtype": "float64", "data": [1.0, 2.0, "nan", "inf", "-inf", 5.0, 3.5, -0.25]}
    ibase = [{"itype": "quantile", "lower_quantile": 0.02, "upper_quantile": 0.98}, {"itype": "manual"},
             {"itype": "centered"}, {"itype": "manual", "vmin": 0.5, "vmax": 4.0},
             {"itype": "centered", "vcenter": 1.0, "half_range": 3.0}]
    for ic in ibase:
        for sc in STRETCH_CFGS:
            cases.append((base, ic, sc, True))
            cases.append((base, ic, sc, False))
    for _ in range(ctx.budget(450, 6000)):
        a = gen_array(r)
        cases.append((a, gen_interval_cfg(r, a), gen_stretch_cfg(r), r.random() < 0.7))
    nbad = 0
    for a, ic, sc, wd in cases:
        res = oracle_norm(a, ic, sc, wd)
        ctx.dist("norm/interval=%s" % ic["itype"])
        ctx.dist("norm/stretch=%s" % sc["stype"])
        ctx.dist("norm/dtype=%s" % a["dtype"])
        ctx.count(("norm", json.dumps(a, sort_keys=True), json.dumps(ic, sort_keys=True), json.dumps(sc, sort_keys=True), wd),
                  nontrivial=True)
        if res:
            nbad += 1
            clause, msg = res
            key = classify_failure(a, ic, msg, lambda b, c: oracle_norm(b, c, sc, wd))
            ctx.violation(key or "%s/%s/%s" % (clause, ic["itype"], sc["stype"]),
                          "CustomNormalization(%s, %s%s) on %s data: %s" % (ic, sc, ", data=..." if wd else "", a["dtype"], msg),
                          {"kind": "norm", "array": a, "icfg": ic, "scfg": sc, "with_data": wd})
    ctx.sample({"kind": "norm", "array": cases[-1][0], "icfg": cases[-1][1], "scfg": cases[-1][2]})
    ctx.log("oracle on CustomNormalization: %d cases, %d failing" % (len(cases), nbad))


def oracle_stretch_pair(cls, params, ys):
    m = CN()
    with _quiet():
        try:
            S = getattr(m, cls)(*params)
            G = S.inverse
        except Exception as e:  # noqa
            return "constructing %s%r or its inverse raised %r" % (cls, tuple(params), e)
        y = np.array(ys, dtype=np.float64)
        fy = np.asarray(S(y.copy()), dtype=np.float64)
        if np.any(~np.isfinite(fy)) or fy.min() < -TOL or fy.max() > 1 + TOL:
            return "%s%r maps [0, 1] outside [0, 1]: min %r max %r" % (cls, tuple(params), fy.min(), fy.max())
        if np.any(np.diff(fy) < -MONO_TOL):
            return "%s%r is not monotone on [0, 1]" % (cls, tuple(params))
        gf = np.asarray(G(fy.copy()), dtype=np.float64)
        fg = np.asarray(S(np.asarray(G(y.copy()), dtype=np.float64).copy()), dtype=np.float64)
        tol = 1e-7
        i = int(np.argmax(np.abs(gf - y)))
        if not abs(gf[i] - y[i]) <= tol:
            return "%s%r: inverse(stretch(%r)) = %r  (inverse is %r)" % (cls, tuple(params), y[i], gf[i], G)
        i = int(np.argmax(np.abs(fg - y)))
        if not abs(fg[i] - y[i]) <= tol:
            return "%s%r: stretch(inverse(%r)) = %r  (inverse is %r)" % (cls, tuple(params), y[i], fg[i], G)
    return None


def check_stretch_pairs(ctx: Ctx):
    r = ctx.rng
    ys = sorted({0.0, 1.0, 0.5, 0.25, 0.75, 1e-6, 1 - 1e-6} | {i / 40.0 for i in range(41)})
    cases = [("LinearStretch", ())]
    grids = {
        "PowerLawStretch": [0.1, 0.25, 0.5, 1.0, 2.0, 3.0, 6.0],
        "LogarithmicStretch": [1e-3, 0.5, 10.0, 1000.0, 1e5],
        "InverseLogarithmicStretch": [1e-3, 0.5, 10.0, 1000.0, 1e5],
        "InverseHyperbolicSineStretch": [0.02, 0.1, 1.0, 5.0],
        "HyperbolicSineStretch": [0.1, 1.0 / 3.0, 1.0, 5.0],
    }
    for cls, g in grids.items():
        for p in g:
            cases.append((cls, (p,)))
        for _ in range(ctx.budget(6, 60)):
            lo, hi = min(g), max(g)
            cases.append((cls, (math.exp(r.uniform(math.log(lo), math.log(hi))),)))
    nbad = 0
    for cls, ps in cases:
        ctx.dist("stretch-pair/%s" % cls)
        ctx.count(("pair", cls, ps), nontrivial=True)
        bad = oracle_stretch_pair(cls, ps, ys)
        if bad:
            nbad += 1
            ctx.violation("stretch-inverse/%s" % cls, bad, {"kind": "pair", "cls": cls, "params": list(ps), "ys": ys})
    ctx.log("stretch / inverse pairs: %d cases, %d failing" % (len(cases), nbad))


def presets_and_show(ctx: Ctx):
    """all named presets, resolved and constructed exactly as visualization._show_2d_array does;
    and the normalisation objects that _show_2d_array / _show_2d_combined build from a
    configuration with explicit limits must have those limits"""
    m = CN()
    r = ctx.rng
    arrays = [{"dtype": "float64", "data": [1.0, 2.0, "nan", "inf", "-inf", 5.0, 3.5, -0.25]},
              {"dtype": "float32", "data": [0.5, 0.25, 8.0, 3.0, -1.0]},
              {"dtype": "int16", "data": [-30000, 0, 12, 30000]},
              {"dtype": "uint8", "data": [0, 3, 200, 255, 17]}]
    for _ in range(ctx.budget(3, 30)):
        arrays.append(gen_array(r))
    names = sorted(m.NORMALIZATION_PRESETS)
    for name in names:
        cfg = m._resolve_normalization(name)
        ic = {"itype": cfg.interval_type}
        if cfg.interval_type == "quantile":
            ic.update(lower_quantile=cfg.lower_quantile, upper_quantile=cfg.upper_quantile)
        if cfg.interval_type == "manual":
            if cfg.vmin is not None:
                ic["vmin"] = cfg.vmin
            if cfg.vmax is not None:
                ic["vmax"] = cfg.vmax
        if cfg.interval_type == "centered":
            ic["vcenter"] = cfg.vcenter
            if cfg.half_range is not None:
                ic["half_range"] = cfg.half_range
        sc = {"stype": cfg.stretch_type, "power": cfg.power, "logarithmic_index": cfg.logarithmic_index,
              "asinh_linear_range": cfg.asinh_linear_range}
        for a in arrays:
            ctx.dist("preset/%s" % name)
            ctx.count(("preset", name, json.dumps(a, sort_keys=True)), nontrivial=True)
            res = oracle_norm(a, ic, sc, True)
            if res:
                clause, msg = res
                key = classify_failure(a, ic, msg, lambda b, c: oracle_norm(b, c, sc, True))
                ctx.violation(key or "preset/%s/%s" % (name, clause),
                              "preset %r on %s data: %s" % (name, a["dtype"], msg),
                              {"kind": "norm", "array": a, "icfg": ic, "scfg": sc, "with_data": True, "preset": name})
    # normalisation objects built by visualization.py
    import matplotlib
    matplotlib.use("Agg")
    import matplotlib.pyplot as plt
    import quantem.core.visualization.visualization as V
    rec = []
    orig = V.CustomNormalization

    class Rec(orig):
        def __init__(self, *a, **k):
            super().__init__(*a, **k)
            rec.append(self)

    img = np.linspace(0.0, 1.0, 36).reshape(6, 6)
    img2 = img[::-1].copy()
    vmin, vmax = 0.125, 0.625
    probes = []
    V.CustomNormalization = Rec
    try:
        with _quiet():
            for label, call in (
                ("_show_2d_array", lambda: V._show_2d_array(img, norm={"interval_type": "manual", "vmin": vmin, "vmax": vmax})),
                ("_show_2d_combined", lambda: V._show_2d_combined([img, img2], norm={"interval_type": "manual",
                                                                                     "vmin": vmin, "vmax": vmax})),
                ("show_2d(combine_images=True, vmin, vmax)",
                 lambda: V.show_2d([img, img2], combine_images=True, vmin=vmin, vmax=vmax)),
                ("show_2d(vmin, vmax)", lambda: V.show_2d(img, vmin=vmin, vmax=vmax)),
            ):
                rec.clear()
                try:
                    call()
                except Exception as e:  # noqa
                    probes.append((label, "raised %r" % e))
                    continue
                finally:
                    plt.close("all")
                if not rec:
                    probes.append((label, "constructed no CustomNormalization"))
                    continue
                N = rec[-1]
                out = np.ma.filled(N(np.array([vmin, vmax, (vmin + vmax) / 2])), np.nan).tolist()
                ctx.count(("show", label), nontrivial=True)
                ctx.dist("show2d/%s" % label.split("(")[0])
                if abs(out[0]) > TOL or abs(out[1] - 1) > TOL or abs(out[2] - 0.5) > TOL:
                    probes.append((label, "configured limits vmin=%r, vmax=%r are mapped to %r and %r (midpoint to %r): the "
                                          "normalisation object has limits (%r, %r)" % (vmin, vmax, out[0], out[1], out[2],
                                                                                        N.interval.vmin, N.interval.vmax)))
    finally:
        V.CustomNormalization = orig
    for label, msg in probes:
        slug = "show2d-combined-limits" if "combine" in label else "show2d-limits/%s" % label.split("(")[0]
        ctx.violation(slug, "%s with norm limits: %s" % (label, msg),
                      {"kind": "show", "label": label, "vmin": vmin, "vmax": vmax})
    ctx.log("presets: %d x %d arrays; show_2d limit probes: %d failing" % (len(names), len(arrays), len(probes)))


# ==========================================================================================


def corpus(ctx):
    p = VERIF / "corpus" / "C20" / "corpus.json"
    return json.loads(p.read_text()) if p.exists() else {}


def run(ctx: Ctx):
    ctx.hash_sources(SRC_REL, ["BaseInterval.__call__", "BaseInterval.inverse", "ManualInterval.get_limits",
                               "CenteredInterval.get_limits", "QuantileInterval.get_limits",
                               "LinearStretch", "PowerLawStretch", "LogarithmicStretch", "InverseLogarithmicStretch",
                               "InverseHyperbolicSineStretch", "HyperbolicSineStretch",
                               "CustomNormalization.__init__", "CustomNormalization._set_limits",
                               "CustomNormalization.__call__", "CustomNormalization.inverse",
                               "_resolve_normalization"])
    ctx.hash_sources("core/visualization/visualization.py", ["_show_2d_array", "_show_2d_combined"])
    ctx.cov["rule"] = (
        "cases: (array [dtype in float64/float32/int8..int64/uint8/16, dyadic-grid / wide-range / duplicate-heavy values, "
        "NaN and +-inf entries], interval configuration [quantile pairs, manual default/one-sided/explicit float or int "
        "limits/degenerate, centred default/explicit], stretch configuration [linear, power, logarithmic, asinh with "
        "default and random parameters], limits frozen by data= or per call) + every preset + every stretch class x "
        "parameter grid for the inverse pairs + the translator cross-test points; a case is distinct by its full "
        "content; non-trivial = implementation output has at least two different values (interval cases) / always "
        "(oracle cases have >= 2 distinct finite data values by construction)")
    ctx.assumptions += [
        "np.quantile(method='linear'), np.min/np.max, np.isfinite, np.clip and the float64 ufuncs behave as documented "
        "(exercised on every run by the correspondence, never proved)",
        "matplotlib.colors.Normalize stores vmin/vmax unchanged apart from conversion to float",
        "stretch parameters and manual limits are finite numbers; reversed limits (vmin > vmax) and quantiles outside "
        "[0, 1] are outside the domain (C20_reversed_limits_refuted shows the first restriction is necessary)",
    ]
    ctx.cov["trusted_base"] += [
        "Coq 8.16.1 kernel incl. vm_compute (runs the executable model)",
        "harness/translate_norm.py (Python ast -> Coq; fail closed; cross-tested with `interval` enclosures at every "
        "run) and the vocabulary coq/lib/C20_NpReal.v (np.clip, np.power over R)",
        "Coq standard-library reals (classical axioms listed per theorem); Interval tactic only in the cross-test",
        "hand-written executable model coq/model/C20_Model.v tied to /repo by this correspondence run",
        "harness/props/C20.py (generators, tolerances, Python->Coq printers), harness/common.py",
        "PrimFloat primitives (binary64 sub/div/compare) = NumPy float64 operations",
    ]
    T, built = proof_phase(ctx)
    xt = None
    if T is not None and (ctx.dir / "Gen_Norm.vo").exists():
        pts = build_crosstest(ctx, T)
        xt = CrossTest(ctx, T, pts)
        xt.start()
    check_interval_correspondence(ctx)
    check_stretch_pairs(ctx)
    check_oracle_norm(ctx)
    presets_and_show(ctx)
    if xt is not None:
        finish_crosstest(ctx, xt)


def replay(ctx: Ctx, path):
    rp = json.loads(open(path).read())
    kind = rp.get("kind")
    if kind == "interval":
        a, cfg = rp["array"], rp["cfg"]
        obs = run_interval_impl(a, cfg)
        bad = oracle_interval(a, cfg, obs)
        v = coq_values(ctx, "replay", [interval_expr(a, cfg, obs)], 1)[0]
        print("array:", a, "\ncfg:", cfg, "\nimpl:", obs, "\nmodel (limits, binary64 map, Q map, mask):", v)
        print("oracle:", bad or "property holds on this case")
        return 1 if bad else 0
    if kind == "norm":
        res = oracle_norm(rp["array"], rp["icfg"], rp["scfg"], rp.get("with_data", True))
        print("array:", rp["array"], "\ninterval:", rp["icfg"], "\nstretch:", rp["scfg"])
        with _quiet():
            try:
                N = build_norm(rp["icfg"], rp["scfg"], to_np(rp["array"]), rp.get("with_data", True))
                print("limits:", N.vmin, N.vmax, "\noutput:", N(to_np(rp["array"])))
            except Exception as e:  # noqa
                print("raised", repr(e))
        print("oracle:", "%s: %s" % res if res else "property holds on this case")
        return 1 if res else 0
    if kind == "pair":
        bad = oracle_stretch_pair(rp["cls"], tuple(rp["params"]), rp["ys"])
        print("oracle:", bad or "property holds on this case")
        return 1 if bad else 0
    if kind == "show":
        presets_and_show(ctx)
        return 1 if ctx.n_violations else 0
    print("replay of kind %r: re-run ./check C20 (the replay file names the obligation that no longer checks)" % kind)
    print(rp.get("what", ""))
    return 0
