"""C04 — Direct ptychography: batch-invariant, linear, and exact on analytic cases.

Theorems: coq/props/C04_Properties.v (streaming skeleton of `reconstruct` over an abstract
commutative ring with the per-pixel kernel operators as parameters, index map of
`_return_bf_context`, sub-mask recombination, the analytic parallax identities).

This check:
 (a) builds the proofs and parses every `Print Assumptions`;
 (b) ORACLE on the real `DirectPtychography.from_virtual_bfs(...).reconstruct(...)`: every kernel and
     alias, upsampling 1..3, filters, rotation, aberrations: all batch sizes 1..num_bf agree, the
     result is linear in the stack, complementary sub-masks recombine (single-pass kernels), the
     zero-aberration parallax image is sum(v_i - mean v_i)/W and the defocus/astigmatism parallax
     image is the same sum after translating every image by the geometric shift computed
     independently (own formula for the gradient of the aberration surface, numpy Fourier shift);
 (c) CORRESPONDENCE: the per-pixel first-pass numerators / powers the implementation produces
     at batch size 1 are handed to the Coq model (binary64 instance of the same definitions the
     theorems are about) whose streaming skeleton must reproduce the implementation's result
     for several batch sizes; the whole parallax pipeline (masks -> index map -> fft2 -> DC zero
     -> tiling -> ramp -> ifft2 -> /W) is run in the model from the raw stack; the index-map
     model is compared exactly with `_return_bf_context` and with the map observed through the
     public API on random mask pairs.
Round 3 (harness/ext_C04.py, audit in harness/props/C04.audit.md): the kernel factors are modelled over an abstract
character / aperture (coq/model/C04_Gamma_Model.v) and gamma_factor is tied to the proved closed form by float64
recomputation of every call of real runs; parallax for all 25 aberration coefficients; crop_bf_mask=True; mask
representations; corrected_bf; per-image DC; the batch schedule against SimpleBatcher; read/write sets of reconstruct.
Round 4: layered hyper-parameters incl. exact zeros in later layers (harness/layers_C04.py, coq/model/C04_Hyper_Model.v);
source tie (harness/c04_tie.py -> build/C04/Gen_C04.v, coq/gen_proofs/C04_GenProofs.v, C04_GenProperties.v): the layer merge,
the rotation priority chain, the kernel alias table, the kernel dispatch, `_return_bf_context` and the two passes of
`reconstruct` are translated from the current source on every run and proved equal to the model."""
from __future__ import annotations

import json
import math

import numpy as np

from ..common import Ctx, cbool, cfloat, clist, cnat, cnl

LEVEL = "proof"

PRE = """From Coq Require Import ZArith List Bool PrimFloat.
From QV.lib Require Import Prelude Chunks FinSum DFT DFT2 DFT_Float.
From QV.model Require Import C04_Model.
Import ListNotations.
Definition showp (p : list (nat * nat)) := map (fun q => (Z.of_nat (fst q), Z.of_nat (snd q))) p.
"""

KERNELS = {
    "ssb": ["ssb", "single-sideband", "acbf", "aberration-corrected-bright-field"],
    "obf": ["obf", "optimum-bright-field"],
    "mf": ["mf", "matched-filter"],
    "prlx": ["prlx", "parallax", "tcbf", "tilt-corrected-bright-field"],
    "icom": ["icom", "center-of-mass"],
}
SINGLE_PASS = ("ssb", "prlx", "icom")

_T = {}


def _torch():
    """import torch / quantem once; freeze the garbage collector's view of the imported
    modules (reconstruct() calls gc.collect() twice per call: ~130 ms each otherwise)"""
    if not _T:
        import gc

        import torch

        from quantem.core.datastructures import Dataset2d, Dataset3d
        from quantem.diffractive_imaging.direct_ptychography import DirectPtychography
        gc.collect()
        gc.freeze()
        _T.update(torch=torch, D2=Dataset2d, D3=Dataset3d, DP=DirectPtychography)
    return _T


# ------------------------------------------------------------------------------------------
# building cases


def make_mask(r, G, target):
    """corner-centred boolean detector mask with `target` BF pixels around the origin"""
    g1, g2 = G
    i = np.fft.fftfreq(g1, 1.0 / g1)
    j = np.fft.fftfreq(g2, 1.0 / g2)
    d2 = i[:, None] ** 2 + j[None, :] ** 2 + np.array([[r.random() * 0.3 for _ in range(g2)] for _ in range(g1)])
    order = np.argsort(d2.ravel(), kind="stable")
    m = np.zeros(g1 * g2, bool)
    m[order[:target]] = True
    return m.reshape(G)


def gen_geometry(r, small=False):
    if small:
        G = (r.choice([3, 4]), r.choice([3, 4, 5]))
        scan = (r.choice([3, 4, 5]), r.choice([3, 4, 5, 6]))
        nbf = r.randint(3, 7)
    else:
        G = (r.choice([4, 5, 6, 7]), r.choice([4, 5, 6, 7]))
        scan = r.choice([(9, 10), (7, 8), (8, 5), (5, 9), (6, 6), (9, 7), (4, 10), (7, 7)])
        nbf = r.randint(5, min(21, G[0] * G[1] - 2))
    geo = {
        "G": list(G), "scan": list(scan), "nbf": nbf,
        "scan_sampling": [round(r.uniform(0.3, 0.9), 3), round(r.uniform(0.3, 0.9), 3)],
        "rs": None,
        "energy": r.choice([60e3, 80e3, 200e3, 300e3]),
        "rot": r.choice([0.0, round(r.uniform(-3.1, 3.1), 3), round(r.uniform(-0.5, 0.5), 3)]),
        "mask_seed": r.randrange(1 << 30),
        "stack_seed": r.randrange(1 << 30),
    }
    # detector pixel ~ one scan-frequency step (so that the bright-field disc overlaps its copies
    # shifted by the scan frequencies: otherwise ssb/obf/mf vanish identically)
    geo["rs"] = [round(r.uniform(0.5, 1.5) / (scan[0] * geo["scan_sampling"][0]), 4),
                 round(r.uniform(0.5, 1.5) / (scan[1] * geo["scan_sampling"][1]), 4)]
    # semiangle: either far outside the mask (all weights 1) or cutting through it (soft weights)
    geo["semi_mode"] = r.choice(["wide", "edge", "edge"])
    return geo


def wavelength(energy):
    from quantem.core.utils.utils import electron_wavelength_angstrom
    return float(electron_wavelength_angstrom(energy))


def realise(geo):
    """geometry dict -> (mask ndarray, stack float32 ndarray, semiangle)"""
    import random as _random
    rr = _random.Random(geo["mask_seed"])
    mask = make_mask(rr, tuple(geo["G"]), geo["nbf"])
    if "mask" in geo:
        mask = np.array(geo["mask"], bool)
    rs = np.random.default_rng(geo["stack_seed"])
    n1, n2 = geo["scan"]
    stack = (rs.integers(0, 64, size=(int(mask.sum()), n1, n2)) / 32.0 + 0.25).astype(np.float32)
    lam = wavelength(geo["energy"])
    ang = [geo["rs"][0] * 1e3 * lam, geo["rs"][1] * 1e3 * lam]
    ii, jj = np.nonzero(mask)
    si = np.fft.fftfreq(geo["G"][0], 1.0 / geo["G"][0])[ii]
    sj = np.fft.fftfreq(geo["G"][1], 1.0 / geo["G"][1])[jj]
    rad = np.sqrt((si * ang[0]) ** 2 + (sj * ang[1]) ** 2)
    if geo["semi_mode"] == "wide":
        semi = float(rad.max() * 3 + 5.0)
    else:
        semi = float(max(np.sort(rad)[max(0, len(rad) - 3)] + 0.2 * min(ang), 0.6 * min(ang)))
    return mask, stack, semi


def build(geo, stack=None, aberr=None):
    T = _torch()
    mask, st, semi = realise(geo)
    if stack is None:
        stack = st
    d3 = T["D3"].from_array(np.ascontiguousarray(stack), name="vbf", units=("index", "A", "A"),
                            sampling=(1, geo["scan_sampling"][0], geo["scan_sampling"][1]))
    d2 = T["D2"].from_array(mask, name="mask", units=("A^-1", "A^-1"), sampling=tuple(geo["rs"]))
    dp = T["DP"].from_virtual_bfs(d3, d2, energy=geo["energy"], rotation_angle=geo["rot"],
                                  aberration_coefs=dict(aberr or {}), semiangle_cutoff=semi,
                                  crop_bf_mask=False, verbose=0)
    return dp, mask, stack, semi


def rec(dp, **kw):
    kw.setdefault("verbose", 0)
    dp.reconstruct(**kw)
    return dp.corrected_stack.detach().cpu().numpy().astype(np.float64).copy()


# ------------------------------------------------------------------------------------------
# independent physics (own formulas, float64)


def det_freqs(geo):
    """rotated detector frequencies (A^-1): k = signed pixel index * reciprocal sampling,
    passively rotated by rotation_angle"""
    g1, g2 = geo["G"]
    kx = np.fft.fftfreq(g1, 1.0 / g1) * geo["rs"][0]
    ky = np.fft.fftfreq(g2, 1.0 / g2) * geo["rs"][1]
    KX, KY = np.meshgrid(kx, ky, indexing="ij")
    c, s = math.cos(-geo["rot"]), math.sin(-geo["rot"])
    return KX * c + KY * s, -KX * s + KY * c


def aperture_weights(geo, semi):
    """|probe(k)|^2 of the soft aperture evaluate_probe uses (own transcription)"""
    lam = wavelength(geo["energy"])
    KX, KY = det_freqs(geo)
    alpha = np.sqrt(KX ** 2 + KY ** 2) * lam
    phi = np.arctan2(KY, KX)
    a0, a1 = geo["rs"][0] * 1e3 * lam, geo["rs"][1] * 1e3 * lam
    den = np.sqrt((np.cos(phi) * a0 * 1e-3) ** 2 + (np.sin(phi) * a1 * 1e-3) ** 2)
    ap = np.clip((semi * 1e-3 - alpha) / den + 0.5, 0, 1)
    return ap ** 2


def aperture_weights_impl(dp, geo, aberr):
    """the same through the public helper functions of complex_probe (what the code means by
    aperture weight); falls back to the own formula if their API moved"""
    try:
        T = _torch()
        from quantem.diffractive_imaging.complex_probe import (evaluate_probe, polar_coordinates,
                                                               spatial_frequencies)
        kxa, kya = spatial_frequencies(dp.gpts, dp.sampling, rotation_angle=geo["rot"], device="cpu")
        k, phi = polar_coordinates(kxa, kya)
        p = evaluate_probe(k * dp.wavelength, phi, dp.semiangle_cutoff, dp.angular_sampling, dp.wavelength,
                           aberration_coefs=dict(dp.aberration_coefs))
        return p.abs().square().detach().cpu().numpy().astype(np.float64)
    except Exception:  # noqa
        return None


def geometric_shifts(geo, aberr):
    """lateral shift (A) of every detector pixel = gradient of the aberration surface
    chi(alpha)/(2 pi / lambda) w.r.t. the scattering angle, for defocus + 2-fold astigmatism:
       s = C10 * a + C12 * R(2 phi12) * diag(1,-1) * a,   a = lambda * k (rotated frame)"""
    lam = wavelength(geo["energy"])
    KX, KY = det_freqs(geo)
    ax, ay = KX * lam, KY * lam
    c10 = aberr.get("C10", 0.0) - aberr.get("defocus", 0.0)
    c12 = aberr.get("C12", aberr.get("astigmatism", 0.0))
    p12 = aberr.get("phi12", aberr.get("astigmatism_angle", 0.0))
    c2, s2 = math.cos(2 * p12), math.sin(2 * p12)
    sx = c10 * ax + c12 * (c2 * ax + s2 * ay)
    sy = c10 * ay + c12 * (s2 * ax - c2 * ay)
    return sx, sy


def scan_freqs(geo, u):
    n1, n2 = geo["scan"]
    qx = np.fft.fftfreq(n1 * u, geo["scan_sampling"][0] / u)
    qy = np.fft.fftfreq(n2 * u, geo["scan_sampling"][1] / u)
    return np.meshgrid(qx, qy, indexing="ij")


def butterworth(geo, u, lowpass, highpass, order=12):
    QX, QY = scan_freqs(geo, u)
    q = np.sqrt(QX ** 2 + QY ** 2)
    env = np.ones_like(q)
    if lowpass:
        env *= 1 / (1 + (q / lowpass) ** (2 * order))
    if highpass:
        env *= 1 - 1 / (1 + (q / highpass) ** (2 * order))
    return env


def zero_insert(img, u):
    out = np.zeros((img.shape[0] * u, img.shape[1] * u))
    out[::u, ::u] = img
    return out


def parallax_expected(geo, mask, stack, W, u, aberr, env=None):
    """sum-free per-pixel expectation: translate(shift_i)(zero-inserted (v_i - mean v_i)) / W"""
    sx, sy = geometric_shifts(geo, aberr)
    QX, QY = scan_freqs(geo, u)
    ii, jj = np.nonzero(mask)
    out = []
    for m in range(len(ii)):
        v = stack[m].astype(np.float64)
        c = zero_insert(v - v.mean(), u)
        ramp = np.exp(-2j * np.pi * (QX * sx[ii[m], jj[m]] + QY * sy[ii[m], jj[m]]))
        if env is not None:
            ramp = ramp * env
        out.append(np.fft.ifft2(np.fft.fft2(c) * ramp).real / W)
    return np.array(out)


# ------------------------------------------------------------------------------------------
# oracles on the implementation


def close(a, b, rtol, scale=None):
    a = np.asarray(a, np.float64)
    b = np.asarray(b, np.float64)
    if a.shape != b.shape or not (np.isfinite(a).all() and np.isfinite(b).all()):
        return False, float("inf")
    sc = scale if scale is not None else max(float(np.abs(a).max()), float(np.abs(b).max()), 1e-30)
    err = float(np.abs(a - b).max()) / sc
    return err <= rtol, err


def scale_floor(geo, mask, stack, semi):
    """1% of the natural magnitude max|stack| / W of a reconstruction: results far below it
    (e.g. ssb when the disc overlaps vanish) are float32 rounding noise of intermediate
    quantities of natural size and are compared on that scale, not on their own"""
    W = float(aperture_weights(geo, semi)[mask].sum())
    return 0.01 * float(np.abs(stack).max()) / max(W, 1e-3)


ILL_THR = 1e-3
_COND = {"hook": True}


def gamma2(dp, cfg):
    """per-pixel |gamma_j(q)|^2 (what the obf kernel reports as its power at batch size 1), or None
    if the per-pixel hook is not available.
    ssb divides by |gamma_j| and obf by sqrt(sum_j |gamma_j|^2).  Where gamma is analytically zero but
    numerically ~1e-7 (cancellation of two O(1) float32 numbers) that quotient is rounding noise of
    O(1), and torch's float32 kernels occasionally round differently for different batch shapes
    (observed: 2.5e-4 relative difference between batch sizes, seed 16 of the quick tier, while the
    skeleton fed with the contributions of the same run agrees to 2e-8).  Those (pixel, frequency)
    entries are ill-conditioned for EVERY schedule and are left out of the comparison; a streaming
    defect changes all frequencies."""
    kw = rkw(dict(cfg, kernel="obf"))
    recd = hooked_contributions(dp, kw)
    if recd is None or any(x[1] is None for x in recd):
        _COND["hook"] = False
        return None
    return np.array([x[1] for x in recd], np.float64)


def ill_mask(kernel, g2):
    if g2 is None or kernel not in ("ssb", "obf"):
        return None
    if kernel == "ssb":
        return (g2 > 0) & (g2 < ILL_THR ** 2 * g2.max())
    P = g2.sum(0)
    return np.broadcast_to((P > 0) & (P < ILL_THR ** 2 * P.max()), g2.shape)


def close_cond(kernel, got, ref, rtol, scale, ill, pix=None):
    """comparison of two corrected stacks; for ssb/obf in Fourier space without the ill-conditioned
    entries (see gamma2).  `pix`: rows of `ill` that correspond to the images (sub-masks)."""
    if kernel not in ("ssb", "obf"):
        return close(got, ref, rtol, scale)
    if ill is None:
        return close(got, ref, 2e-2, scale)          # conditioning unknown: noise ceiling
    got = np.asarray(got, np.float64)
    ref = np.asarray(ref, np.float64)
    if got.shape != ref.shape or not (np.isfinite(got).all() and np.isfinite(ref).all()):
        return False, float("inf")
    m = ill if pix is None else ill[pix]
    if m.shape != got.shape:
        return close(got, ref, 2e-2, scale)
    # corrected_stack is the REAL PART of the inverse transform: in the spectrum of the result the noise of an
    # ill-conditioned entry q also sits at its mirror entry -q (round 4, thorough tier: |gamma| = 2.7e-5 max|gamma| at
    # (4, 1) of a 5 x 9 grid showed up as 1.2e-4 at (1, 8))
    m = m | np.roll(m[..., ::-1, ::-1], 1, axis=(-2, -1))
    D = np.fft.fft2(got - ref)
    D[m] = 0
    fs = max(float(np.abs(np.fft.fft2(ref)).max()), scale)
    err = float(np.abs(D).max()) / fs
    return err <= rtol, err


def gen_case(r, kernel, small=False, tweak=None):
    geo = gen_geometry(r, small=small)
    cfg = gen_config(r, kernel)
    if tweak:
        tweak(geo, cfg)
    return geo, cfg, None


def rt_batch(kernel):
    """relative tolerance of the batch-size comparison (float32 results; observed <= 3e-6)"""
    return 1e-4 if kernel in ("ssb", "obf") else RT_BATCH


def gen_config(r, kernel=None):
    k = kernel or r.choice(list(KERNELS))
    cfg = {"kernel": k, "u": r.choice([1, 1, 2, 3]), "flip": r.random() < 0.5,
           "lowpass": r.choice([None, None, round(r.uniform(0.4, 1.5), 3)]),
           "highpass": r.choice([None, None, round(r.uniform(0.1, 0.5), 3)])}
    ab = r.choice(["none", "c10", "c10c12", "coma" if k != "prlx" else "c10c12", "alias"])
    if ab == "none":
        cfg["aberr"] = {}
    elif ab == "c10":
        cfg["aberr"] = {"C10": round(r.uniform(-120, 120), 2)}
    elif ab == "c10c12":
        cfg["aberr"] = {"C10": round(r.uniform(-120, 120), 2), "C12": round(r.uniform(-80, 80), 2),
                        "phi12": round(r.uniform(-1.5, 1.5), 3)}
    elif ab == "coma":
        cfg["aberr"] = {"C10": round(r.uniform(-100, 100), 2), "C21": round(r.uniform(-2000, 2000), 1),
                        "phi21": round(r.uniform(-3, 3), 3)}
    else:
        cfg["aberr"] = {"defocus": round(r.uniform(-120, 120), 2), "astigmatism": round(r.uniform(-80, 80), 2),
                        "astigmatism_angle": round(r.uniform(-1.5, 1.5), 3)}
    return cfg


def rkw(cfg, name=None, b=None, bf_mask=None):
    kw = dict(deconvolution_kernel=name or cfg["kernel"], upsampling_factor=cfg["u"], max_batch_size=b,
              q_lowpass=cfg["lowpass"], q_highpass=cfg["highpass"], parallax_flip_phase=cfg["flip"])
    if bf_mask is not None:
        kw["bf_mask"] = bf_mask
    return kw


RT_BATCH = 1e-4     # float32 results; observed <= 1.3e-5 over ~20000 reconstructions (typically 3e-7)
RT_LIN = 1e-4       # observed 2e-6
RT_ANA = 1e-4       # float32 FFT pipeline vs float64 reference; observed 1e-6
RT_CORR = 1e-4


def oracle_batch_alias(ctx, geo, cfg, replay_only=False):
    """every batch size 1..num_bf and every alias give the same corrected stack"""
    dp, mask, stack, semi = build(geo, aberr=cfg["aberr"])
    nbf = int(mask.sum())
    ill = ill_mask(cfg["kernel"], gamma2(dp, cfg)) if cfg["kernel"] in ("ssb", "obf") else None
    ref = rec(dp, **rkw(cfg))
    own = float(np.abs(ref).max())
    scale = max(own, scale_floor(geo, mask, stack, semi))
    out = []
    worst = 0.0
    for b in range(1, nbf + 1):
        got = rec(dp, **rkw(cfg, b=b))
        ok, err = close_cond(cfg["kernel"], got, ref, rt_batch(cfg["kernel"]), scale, ill)
        worst = max(worst, err)
        if not ok:
            out.append(("batch-size-dependence/%s" % cfg["kernel"],
                        "kernel %s: max_batch_size=%d differs from one batch by %.3g (relative to max |result| %.3g)"
                        % (cfg["kernel"], b, err, scale), {"b": b}))
            break
    for name in KERNELS[cfg["kernel"]][1:] + [cfg["kernel"].upper()]:
        got = rec(dp, **rkw(cfg, name=name, b=max(1, nbf // 2)))
        ok, err = close_cond(cfg["kernel"], got, ref, rt_batch(cfg["kernel"]), scale, ill)
        if not ok:
            out.append(("alias-differs/%s" % cfg["kernel"],
                        "kernel alias %r differs from %r by %.3g" % (name, cfg["kernel"], err), {"alias": name}))
            break
    if not np.isfinite(ref).all():
        out.append(("non-finite-result/%s" % cfg["kernel"], "non-finite values in the result", {}))
    return out, worst, nbf, own


def oracle_linear(ctx, geo, cfg, coef):
    a, b = coef
    dp1, mask, s1, semi = build(geo, aberr=cfg["aberr"])
    g2 = dict(geo)
    g2["stack_seed"] = geo["stack_seed"] + 1
    _, s2, _ = realise(g2)
    s3 = (np.float32(a) * s1 + np.float32(b) * s2).astype(np.float32)
    nbf = int(mask.sum())
    bb = max(1, nbf // 3)        # the same batch size for the three runs: a batch-size dependence is not
    bs = [bb, bb, bb]            # reported under the linearity key
    r1 = rec(dp1, **rkw(cfg, b=bs[0]))
    dp2, *_ = build(geo, stack=s2, aberr=cfg["aberr"])
    r2 = rec(dp2, **rkw(cfg, b=bs[1]))
    dp3, *_ = build(geo, stack=s3, aberr=cfg["aberr"])
    r3 = rec(dp3, **rkw(cfg, b=bs[2]))
    scale = abs(a) * np.abs(r1).max() + abs(b) * np.abs(r2).max() + (abs(a) + abs(b)) * scale_floor(geo, mask, s1, semi)
    ok, err = close(r3, a * r1 + b * r2, RT_LIN, scale)
    if not ok:
        return [("nonlinear-in-stack/%s" % cfg["kernel"],
                 "kernel %s: rec(a s1 + b s2) differs from a rec(s1) + b rec(s2) by %.3g (relative)" % (cfg["kernel"], err),
                 {"coef": [a, b]})], err
    return [], err


def split_mask(r, mask, nparts):
    idx = np.flatnonzero(mask.ravel())
    lab = [r.randrange(nparts) for _ in idx]
    for p in range(nparts):          # no empty part
        if p not in lab:
            lab[r.randrange(len(lab))] = p
    for p in range(nparts):
        if p not in lab:
            return split_mask(r, mask, nparts)
    parts = []
    for p in range(nparts):
        m = np.zeros(mask.size, bool)
        m[idx[[i for i, l in enumerate(lab) if l == p]]] = True
        parts.append(m.reshape(mask.shape))
    return parts


def split_mask_weighted(r, geo, nparts):
    """complementary sub-masks, each with a non-zero aperture weight (W = 0 is outside the
    domain of the property: the result is divided by W)"""
    mask, _, semi = realise(geo)
    w = aperture_weights(geo, semi)
    for _ in range(50):
        parts = split_mask(r, mask, nparts)
        if all(float(w[p].sum()) > 0.05 for p in parts):
            return parts
    return [mask]


def oracle_submask(ctx, geo, cfg, parts_l):
    """single-pass kernels: sum_parts W_part rec_part = W_full rec_full, with the aperture
    weights (a) measured from the results themselves (ratio of matching stack entries) and
    (b) computed from the aperture"""
    T = _torch()
    dp, mask, stack, semi = build(geo, aberr=cfg["aberr"])
    nbf = int(mask.sum())
    parts = [np.array(p, bool) for p in parts_l]
    full = rec(dp, **rkw(cfg, b=max(1, nbf // 2)))
    full_bf = full.sum(0)
    scale = max(float(np.abs(full).max()), scale_floor(geo, mask, stack, semi))
    pos_full = list(zip(*np.nonzero(mask)))
    ill = ill_mask(cfg["kernel"], gamma2(dp, cfg)) if cfg["kernel"] == "ssb" else None
    noisy = cfg["kernel"] == "ssb" and (ill is None or bool(ill.any()))
    wimp = aperture_weights_impl(dp, geo, cfg["aberr"])
    wown = aperture_weights(geo, semi)
    out = []
    inv_ratios = []
    comb_own = np.zeros_like(full_bf)
    comb_imp = np.zeros_like(full_bf)
    for pi, pm in enumerate(parts):
        got = rec(dp, **rkw(cfg, b=1 + pi, bf_mask=T["torch"].as_tensor(pm)))
        pos = list(zip(*np.nonzero(pm)))
        if got.shape[0] != len(pos):
            out.append(("submask-shape", "sub-mask with %d pixels gave %d images" % (len(pos), got.shape[0]), {}))
            return out, 0.0
        rows = [pos_full.index(p) for p in pos]
        ref = full[rows]
        den = float((ref * ref).sum())
        if float(np.abs(ref).max()) < scale_floor(geo, mask, stack, semi):
            # degenerate: the full reconstruction of these pixels vanishes (e.g. parallax with sign flipping
            # and zero aberrations: sign(sin 0) = 0) or is rounding noise: no weight ratio can be measured
            # from it; the recombination with the aperture weights below still applies
            if float(np.abs(ref).max()) == 0.0 and float(np.abs(got).max()) > 1e-30:
                out.append(("submask-entry-mismatch/%s" % cfg["kernel"],
                            "kernel %s: full-mask images vanish but sub-mask %d images do not" % (cfg["kernel"], pi),
                            {"part": pi}))
                return out, float("inf")
            inv_ratios = None
            comb_own += float(wown[pm].sum()) * got.sum(0)
            if wimp is not None:
                comb_imp += float(wimp[pm].sum()) * got.sum(0)
            continue
        ratio = float((got * ref).sum() / den)       # = W_full / W_part
        ok, err = close_cond(cfg["kernel"], got, ratio * ref, max(RT_LIN, rt_batch(cfg["kernel"])),
                             scale * max(abs(ratio), 1.0), ill, pix=rows)
        if not ok or not np.isfinite(ratio) or ratio <= 0:
            out.append(("submask-entry-mismatch/%s" % cfg["kernel"],
                        "kernel %s: images of sub-mask %d are not a common multiple of the matching images of the "
                        "full reconstruction (best ratio %.6g, residual %.3g)" % (cfg["kernel"], pi, ratio, err),
                        {"part": pi}))
            return out, err
        if inv_ratios is not None:
            inv_ratios.append(1.0 / ratio)
        comb_own += float(wown[pm].sum()) * got.sum(0)
        if wimp is not None:
            comb_imp += float(wimp[pm].sum()) * got.sum(0)
    tot = sum(inv_ratios) if inv_ratios is not None else 1.0
    worst = abs(tot - 1.0)
    if abs(tot - 1.0) > (2e-2 if noisy else RT_LIN * 10):
        out.append(("submask-weights-not-additive/%s" % cfg["kernel"],
                    "kernel %s: the weights W_part/W_full measured from the sub-mask results sum to %.6g, not 1"
                    % (cfg["kernel"], tot), {}))
    for nm, comb, w in (("own-aperture", comb_own, wown), ("complex_probe-aperture", comb_imp, wimp)):
        if w is None:
            continue
        Wf = float(w[mask].sum())
        ok, err = close(comb, Wf * full_bf, 2e-2 if noisy else RT_LIN * 3, Wf * max(float(np.abs(full_bf).max()), scale))
        worst = max(worst, err)
        if not ok:
            out.append(("submask-recombination/%s" % cfg["kernel"],
                        "kernel %s: sum_parts W_part corrected_bf_part differs from W_full corrected_bf_full by %.3g "
                        "(weights: %s)" % (cfg["kernel"], err, nm), {"weights": nm}))
            break
    return out, worst


def oracle_parallax(ctx, geo, cfg):
    """cfg: kernel prlx, flip False; aberr {} / C10 / C10+C12; u; filters none or given"""
    dp, mask, stack, semi = build(geo, aberr=cfg["aberr"])
    nbf = int(mask.sum())
    w = aperture_weights(geo, semi)
    W = float(w[mask].sum())
    wimp = aperture_weights_impl(dp, geo, cfg["aberr"])
    out = []
    if wimp is not None and abs(float(wimp[mask].sum()) - W) > 1e-4 * W:
        # the harness's transcription of the aperture drifted from complex_probe's: use theirs
        W = float(wimp[mask].sum())
    env = None
    if cfg["lowpass"] or cfg["highpass"]:
        env = butterworth(geo, cfg["u"], cfg["lowpass"], cfg["highpass"])
    exp = parallax_expected(geo, mask, stack, W, cfg["u"], cfg["aberr"], env)
    got = rec(dp, **rkw(cfg, b=max(1, nbf // 2)))
    scale = max(float(np.abs(exp).max()), 1e-30)
    ok, err = close(got, exp, RT_ANA, scale)
    kind = "zero-aberration" if not cfg["aberr"] else "shift"
    if not ok:
        out.append(("parallax-%s-identity" % kind,
                    "parallax (%s, upsampling %d): corrected_stack differs from translate(shift_i)(v_i - mean v_i)/W by "
                    "%.3g relative" % (kind, cfg["u"], err), {}))
    ok2, err2 = close(got.sum(0), exp.sum(0), RT_ANA, max(float(np.abs(exp.sum(0)).max()), scale))
    if ok and not ok2:
        out.append(("parallax-%s-identity-bf" % kind, "corrected_bf differs from the analytic sum by %.3g" % err2, {}))
    return out, err


def integer_shift_case(r):
    """geometry with equal samplings and a defocus for which every geometric shift is a whole
    number of scan pixels: the expected image is np.roll of the mean-subtracted image"""
    geo = gen_geometry(r)
    s = round(r.uniform(0.3, 0.9), 3)
    q = round(r.uniform(0.5, 1.5) / (max(geo["scan"]) * s), 4)
    geo["scan_sampling"] = [s, s]
    geo["rs"] = [q, q]
    geo["rot"] = 0.0
    geo["semi_mode"] = "wide"
    m = r.choice([1, -1, 2])
    lam = wavelength(geo["energy"])
    c10 = m * s / (lam * q)
    return geo, {"kernel": "prlx", "u": 1, "flip": False, "lowpass": None, "highpass": None,
                 "aberr": {"C10": c10}}, m


def oracle_integer_shift(ctx, geo, cfg, m):
    dp, mask, stack, semi = build(geo, aberr=cfg["aberr"])
    W = float(aperture_weights(geo, semi)[mask].sum())
    got = rec(dp, **rkw(cfg, b=2))
    ii, jj = np.nonzero(mask)
    si = np.fft.fftfreq(geo["G"][0], 1.0 / geo["G"][0])[ii]
    sj = np.fft.fftfreq(geo["G"][1], 1.0 / geo["G"][1])[jj]
    exp = []
    for k in range(len(ii)):
        v = stack[k].astype(np.float64)
        exp.append(np.roll(v - v.mean(), (int(round(m * si[k])), int(round(m * sj[k]))), axis=(0, 1)) / W)
    exp = np.array(exp)
    ok, err = close(got, exp, RT_ANA * 3, max(float(np.abs(exp).max()), 1e-30))
    if not ok:
        return [("parallax-integer-shift",
                 "parallax with defocus chosen for shifts of %d x (pixel index) scan pixels: result differs from "
                 "np.roll(v_i - mean v_i, shift_i)/W by %.3g" % (m, err), {})], err
    return [], err


# ------------------------------------------------------------------------------------------
# correspondence with the Coq model


def cfl(x):
    return cfloat(float(x))


def ccf(z):
    return "(%s, %s)" % (cfl(np.real(z)), cfl(np.imag(z)))


def c_img_c(a):
    return clist([clist([ccf(z) for z in row]) for row in a])


def c_img_r(a):
    return clist([clist([cfl(x) for x in row]) for row in a])


def c_stack_c(s):
    return clist([c_img_c(a) for a in s])


def c_stack_r(s):
    return clist([c_img_r(a) for a in s])


def c_mask(m):
    return clist([clist([cbool(bool(x)) for x in row]) for row in np.asarray(m)])


def twiddle(N):
    return clist([ccf(np.exp(-2j * np.pi * k / N)) for k in range(N)])


def c_grid(N1, N2):
    return "{| gN1 := %s; gT1 := %s; gN2 := %s; gT2 := %s |}" % (cnat(N1), twiddle(N1), cnat(N2), twiddle(N2))


def pair_to_float(p):
    m, e = p
    if e == 99999:
        return float("nan") if m == 0 else float("inf") * (1 if m > 0 else -1)
    return math.ldexp(float(m), int(e)) if abs(e) < 1100 else (0.0 if e < 0 else float("inf"))


def hooked_contributions(dp, kw, b=1):
    """what _return_kernel_contributions returned for every batch of one reconstruct(max_batch_size=b):
    list of (numerators of the batch [len, N1, N2], batch power [N1, N2] or None)"""
    if not hasattr(dp, "_return_kernel_contributions"):
        return None
    orig = dp._return_kernel_contributions
    recd = []

    def wrapper(*a, **k):
        out = orig(*a, **k)
        num, pw = out
        recd.append((num.detach().clone().cpu().numpy(), None if pw is None else pw.detach().clone().cpu().numpy()))
        return out

    try:
        object.__setattr__(dp, "_return_kernel_contributions", wrapper)
        kw = dict(kw)
        kw["max_batch_size"] = b
        kw.setdefault("verbose", 0)
        dp.reconstruct(**kw)
    finally:
        try:
            object.__delattr__(dp, "_return_kernel_contributions")
        except Exception:  # noqa
            pass
    return recd


def skeleton_case(ctx, geo, cfg):
    """one skeleton correspondence case: for several batch sizes b, the per-pixel numerators (and the
    per-batch powers) the implementation computed DURING the run with max_batch_size = b are the oracle
    inputs of the model's streaming skeleton (run with the same b), whose output must be that run's
    corrected_stack.  None if the hook is gone."""
    dp, mask, stack, semi = build(geo, aberr=cfg["aberr"])
    nbf = int(mask.sum())
    u = cfg["u"]
    N1, N2 = geo["scan"][0] * u, geo["scan"][1] * u
    two = cfg["kernel"] in ("obf", "mf")
    w = aperture_weights_impl(dp, geo, cfg["aberr"])
    if w is None:
        w = aperture_weights(geo, semi)
    wt = w[mask]
    env = butterworth(geo, u, cfg["lowpass"], cfg["highpass"])
    bsizes = sorted(set([1, 2, max(1, nbf - 1), nbf]))
    defs = "Definition g := %s.\nDefinition wt := %s.\nDefinition env := %s.\n" % (
        c_grid(N1, N2), clist([cfl(x) for x in wt]), c_img_r(env))
    items = []
    scale = 0.0
    for b in bsizes:
        recd = hooked_contributions(dp, rkw(cfg), b=b)
        if recd is None or sum(x[0].shape[0] for x in recd) != nbf or (two and any(x[1] is None for x in recd)):
            return None
        want = dp.corrected_stack.detach().cpu().numpy().astype(np.float64)
        scale = max(scale, float(np.abs(want).max()))
        contrib = np.concatenate([x[0] for x in recd])
        defs += "Definition contrib%d := %s.\nDefinition want%d := %s.\n" % (b, c_stack_c(contrib), b, c_stack_r(want))
        if two:
            # per-pixel powers are only available summed over each batch: hand the batch sum to the first
            # pixel of the batch (the model adds the pixels of a batch, then accumulates over batches)
            pw = []
            for x in recd:
                pw.append(x[1])
                pw += [np.zeros_like(x[1])] * (x[0].shape[0] - 1)
            defs += "Definition pw%d := %s.\n" % (b, c_stack_r(pw))
            nf = "normf_obf" if cfg["kernel"] == "obf" else "(normf_mf %s)" % cfl(0.1)
            run = "f_two %s g %s contrib%d pw%d wt env (batches_of %s %s)" % (nf, cnat(nbf), b, b, cnat(nbf), cnat(b))
        else:
            run = "f_single g %s contrib%d wt env (batches_of %s %s)" % (cnat(nbf), b, cnat(nbf), cnat(b))
        items.append("cmp_stack (%s) want%d" % (run, b))
    return (defs, clist(items)), {"bsizes": bsizes, "nbf": nbf, "scale": scale,
                                  "floor": scale_floor(geo, mask, stack, semi)}


def pipeline_case(ctx, geo, cfg, sub):
    """whole parallax pipeline in the model from the raw stack (multiplier table from the
    harness's own gradient formula), for a sub-mask"""
    T = _torch()
    dp, mask, stack, semi = build(geo, aberr=cfg["aberr"])
    u = cfg["u"]
    n1, n2 = geo["scan"]
    sx, sy = geometric_shifts(geo, cfg["aberr"])
    QX, QY = scan_freqs(geo, u)
    ii, jj = np.nonzero(mask)
    gtab = [np.exp(-2j * np.pi * (QX * sx[i, j] + QY * sy[i, j])) for i, j in zip(ii, jj)]
    w = aperture_weights(geo, semi)
    wtab = w[mask]
    env = butterworth(geo, u, cfg["lowpass"], cfg["highpass"])
    nsub = int(np.sum(sub))
    b = max(1, nsub // 2)
    want = rec(dp, **rkw(cfg, b=b, bf_mask=T["torch"].as_tensor(np.array(sub, bool))))
    defs = ("Definition gs := {| scan := %s; big := %s |}.\nDefinition stack := %s.\nDefinition gtab := %s.\n"
            "Definition wtab := %s.\nDefinition env := %s.\nDefinition want := %s.\n" % (
                c_grid(n1, n2), c_grid(n1 * u, n2 * u), c_stack_r(stack), c_stack_c(gtab),
                clist([cfl(x) for x in wtab]), c_img_r(env), c_stack_r(want)))
    body = "cmp_stack (f_mask_single gs %s %s stack gtab wtab env %s) want" % (c_mask(mask), c_mask(sub), cnat(b))
    return (defs, body), scale_floor(geo, mask, stack, semi)


def observed_index_map(geo, mask, sub):
    """the index map seen through the public API: zero-aberration parallax of a sub-mask
    returns (v_m - mean v_m)/W for the stack images m it picked"""
    T = _torch()
    g = dict(geo)
    g["mask"] = np.asarray(mask).tolist()
    g["nbf"] = int(np.sum(mask))
    g["semi_mode"] = "wide"
    dp, m2, stack, semi = build(g, aberr={})
    got = rec(dp, deconvolution_kernel="parallax", parallax_flip_phase=False, max_batch_size=2,
              bf_mask=T["torch"].as_tensor(np.array(sub, bool)))
    cen = np.array([s.astype(np.float64) - s.astype(np.float64).mean() for s in stack])
    obs = []
    for img in got:
        # best matching stack image up to a positive scale
        sc = [(float((img * c).sum()) / (np.linalg.norm(img) * np.linalg.norm(c) + 1e-30)) for c in cen]
        obs.append(int(np.argmax(sc)))
    internal = None
    if hasattr(dp, "_return_bf_context"):
        try:
            bf = dp._return_bf_context(np.array(sub, bool))
            internal = {"map": [int(x) for x in bf.vbf_index_mapping.tolist()],
                        "pix": [(int(a), int(b)) for a, b in zip(bf.bf_inds_i.tolist(), bf.bf_inds_j.tolist())]}
        except Exception:  # noqa
            internal = None
    return obs, internal


def check_index_map(ctx: Ctx):
    r = ctx.rng
    cases = []
    for _ in range(ctx.budget(120, 1500)):
        G = (r.randint(2, 6), r.randint(2, 7))
        nfull = r.randint(2, min(12, G[0] * G[1]))
        cells = r.sample(range(G[0] * G[1]), nfull)
        full = np.zeros(G[0] * G[1], bool)
        full[cells] = True
        nsub = r.randint(1, nfull)
        sub = np.zeros(G[0] * G[1], bool)
        sub[r.sample(cells, nsub)] = True
        cases.append((full.reshape(G), sub.reshape(G)))
    exprs = ["(zl (index_map %s %s), showp (nonzero2 %s))" % (c_mask(f), c_mask(s), c_mask(s)) for f, s in cases]
    vals = ctx.coq_eval("imap", PRE, exprs, shard=60)
    geo0 = {"G": None, "scan": [3, 4], "nbf": 0, "scan_sampling": [0.5, 0.6], "rs": [0.02, 0.025], "energy": 80e3,
            "rot": 0.0, "mask_seed": 1, "stack_seed": 5, "semi_mode": "wide"}
    nd = 0
    for (full, sub), v in zip(cases, vals):
        mmap, mpix = v
        geo = dict(geo0)
        geo["G"] = list(full.shape)
        obs, internal = observed_index_map(geo, full, sub)
        # property-level expectation, computed directly
        pf = list(zip(*np.nonzero(full)))
        ps = list(zip(*np.nonzero(sub)))
        want = [pf.index(p) for p in ps]
        ctx.count(("imap", full.tobytes(), sub.tobytes(), full.shape), nontrivial=len(ps) > 1 and len(ps) < len(pf))
        ctx.dist("index-map/shape=%s" % ("square" if full.shape[0] == full.shape[1] else "non-square"))
        ctx.cov["traces_validated_against_impl"] += 1
        rp = {"kind": "index-map", "full": full.tolist(), "sub": sub.tolist()}
        if obs != want:
            ctx.violation("index-map-wrong-image",
                          "reconstruct(bf_mask=sub) used stack images %s for the BF pixels of the sub-mask, expected %s "
                          "(position of each sub-mask pixel among the BF pixels of the construction mask)" % (obs, want),
                          dict(rp, observed=obs, want=want))
        ok = (list(mmap) == obs) and (internal is None or (list(mmap) == internal["map"]
                                                           and [tuple(p) for p in mpix] == internal["pix"]))
        if not ok:
            nd += 1
            ctx.cov["disagreements_checked"] += 1
            ctx.violation("index-map-correspondence",
                          "index map of the model %s / pixels %s vs implementation observed %s internal %s"
                          % (list(mmap), mpix, obs, internal),
                          dict(rp, model=[list(mmap), [list(p) for p in mpix]], observed=obs, internal=internal),
                          found_input=obs != want)
    ctx.log("index map: %d mask pairs, %d disagreements" % (len(cases), nd))


def eval_files(ctx: Ctx, name, cases, timeout=200):
    """one coqc file per case: the data as top-level Definitions (large `let`-bound literals make
    elaboration very slow), then one Eval; files run in parallel"""
    from concurrent.futures import ThreadPoolExecutor

    from ..common import COQ_FLAGS, NPROC, parse_coq_value, sh, split_eval_outputs
    import re as _re
    files = []
    for i, (defs, body) in enumerate(cases):
        fn = ctx.dir / ("%s_%03d.v" % (name, i))
        fn.write_text(PRE + "\n" + defs + "\nEval vm_compute in (%s).\n" % body)
        files.append(fn)

    def run1(fn):
        rc, out = sh(["timeout", str(timeout), "coqc"] + COQ_FLAGS + [str(fn)], cwd=ctx.dir, timeout=timeout + 20)
        return fn, rc, out

    res = []
    with ThreadPoolExecutor(max_workers=max(1, min(NPROC, len(files) or 1))) as ex:
        for fn, rc, out in ex.map(run1, files):
            if rc != 0:
                raise RuntimeError("coqc failed on %s (rc=%d):\n%s" % (fn, rc, out[-2000:]))
            vals = split_eval_outputs(out)
            if len(vals) != 1:
                raise RuntimeError("%s: expected one result\n%s" % (fn, out[-2000:]))
            res.append(parse_coq_value(_re.sub(r"\s+", " ", vals[0])))
    for fn in files:
        for ext in (".vo", ".vok", ".vos", ".glob"):
            q = fn.with_suffix(ext)
            if q.exists():
                q.unlink()
        aux = fn.parent / ("." + fn.stem + ".aux")
        if aux.exists():
            aux.unlink()
    return res


def check_skeleton(ctx: Ctx):
    r = ctx.rng
    exprs, metas = [], []
    kinds = list(KERNELS) * ctx.budget(3, 12) + ["obf", "mf"]
    hook_missing = False
    for c in corpus(ctx).get("batch", []):
        sc = skeleton_case(ctx, c["geo"], c["cfg"])
        if sc is not None:
            exprs.append(sc[0])
            metas.append(("skeleton", c["geo"], c["cfg"], sc[1]))
    for k in kinds:
        def tw(geo, cfg):
            cfg["u"] = r.choice([1, 1, 2])
            if geo["scan"][0] * geo["scan"][1] * cfg["u"] ** 2 * geo["nbf"] > 700:
                cfg["u"] = 1
        geo, cfg, _ = gen_case(r, k, small=True, tweak=tw)
        sc = skeleton_case(ctx, geo, cfg)
        if sc is None:
            hook_missing = True
            continue
        exprs.append(sc[0])
        metas.append(("skeleton", geo, cfg, sc[1]))
    # whole parallax pipeline from the raw stack, sub-masks included
    for pidx in range(ctx.budget(6, 40)):
        geo = gen_geometry(r, small=True)
        cfg = gen_config(r, "prlx")
        cfg["flip"] = False
        cfg["u"] = r.choice([1, 2])
        if cfg["aberr"].get("C21"):
            cfg["aberr"] = {"C10": 120.0}
        if geo["scan"][0] * geo["scan"][1] * cfg["u"] ** 2 * geo["nbf"] > 600:
            cfg["u"] = 1
        if pidx % 2 == 1:
            # round 7: the model's pipeline also at special rotation angles (multiples of pi/6 and pi/4, exact or displaced
            # by 1e-15..1e-3, beyond one turn, negative) with non-zero aberrations
            from .. import rot_C04
            geo["rot"] = rot_C04.special_angle_for_model(r)
            if not any(v for kk, v in cfg["aberr"].items() if not kk.startswith("phi") and kk != "astigmatism_angle"):
                cfg["aberr"] = {"C10": round(r.choice([-1, 1]) * r.uniform(30, 120), 2)}
            ctx.dist("model-run/pipeline/special-rotation-angle")
        mask, _, _ = realise(geo)
        sub = split_mask_weighted(r, geo, 2)[0] if r.random() < 0.7 else mask
        pc, fl = pipeline_case(ctx, geo, cfg, sub)
        exprs.append(pc)
        metas.append(("pipeline", geo, cfg, {"sub": np.asarray(sub).tolist(), "floor": fl}))
    if hook_missing:
        ctx.cov["skeleton_hook"] = "_return_kernel_contributions not available: skeleton correspondence skipped"
        ctx.log("NOTE: per-pixel contribution hook unavailable; skeleton correspondence reduced")
    vals = eval_files(ctx, "skel", exprs)
    nd = 0
    worst = 0.0
    for (kind, geo, cfg, meta), v in zip(metas, vals):
        res = v if kind == "skeleton" else [v]
        for idx, pr in enumerate(res):
            # Coq prints ((m, e), (m', e')) as (m, e, (m', e'))
            err, sc = pair_to_float((pr[0], pr[1])), pair_to_float(pr[2])
            rel = err / max(sc, meta.get("floor", 0.0), 1e-30) if math.isfinite(err) else float("inf")
            ctx.cov["traces_validated_against_impl"] += 1
            ctx.count((kind, json.dumps(geo, sort_keys=True), json.dumps(cfg, sort_keys=True), idx), nontrivial=True)
            ctx.dist("model-run/%s/%s/u=%d" % (kind, cfg["kernel"], cfg["u"]))
            if math.isfinite(rel):
                worst = max(worst, rel)
            if not (rel <= RT_CORR):
                nd += 1
                ctx.cov["disagreements_checked"] += 1
                b = meta["bsizes"][idx] if kind == "skeleton" else None
                # does the property itself fail on this input?
                bad = oracle_batch_alias(ctx, geo, cfg)[0]
                if kind == "pipeline" and not bad:
                    bad = oracle_parallax(ctx, geo, cfg)[0]
                ctx.violation("%s-correspondence/%s" % (kind, cfg["kernel"]),
                              "the Coq model of reconstruct (%s, kernel %s, batch size %s) and the implementation differ "
                              "by %.3g relative: the theorems no longer describe this code" % (kind, cfg["kernel"], b, rel),
                              {"kind": "oracle", "geo": geo, "cfg": cfg,
                               "which": "parallax" if (kind == "pipeline" and bad and bad[0][0].startswith("parallax")) else "batch",
                               "meta": meta},
                              found_input=bool(bad))
    ctx.cov["model_vs_impl_worst_relative_difference"] = worst
    ctx.log("model runs: %d expressions, %d disagreements, worst relative difference %.2g" % (len(exprs), nd, worst))


# ------------------------------------------------------------------------------------------


def report(ctx, found, geo, cfg, which, extra=None):
    for key, what, more in found:
        rp = {"kind": "oracle", "which": which, "geo": geo, "cfg": cfg}
        rp.update(extra or {})
        rp.update(more)
        ctx.violation(key, what + " [scan %s, detector %s, %d BF pixels, upsampling %d, rotation %s, aberrations %s, "
                      "filters %s/%s, flip %s]" % (geo["scan"], geo["G"], geo["nbf"], cfg["u"], geo["rot"], cfg["aberr"],
                                                  cfg["lowpass"], cfg["highpass"], cfg["flip"]), rp)


def corpus(ctx):
    from ..common import VERIF
    pth = VERIF / "corpus" / "C04" / "corpus.json"
    return json.loads(pth.read_text()) if pth.exists() else {}


def gen_call(r, geo, cfg, kernel=None):
    """one reconstruct() call on an existing object: the base configuration with hyper-parameters varied,
    including the per-call overrides (rotation angle, aberrations)"""
    kw = rkw(cfg, name=kernel, b=r.choice([None, 1, 2, 3]))
    if r.random() < 0.5:
        kw["override_rotation_angle"] = round(geo["rot"] + r.choice([-1, 1]) * r.uniform(0.2, 1.5), 3)
    if r.random() < 0.4:
        kw["override_aberration_coefs"] = {"C10": round(r.uniform(-120, 120), 2)}
    if r.random() < 0.3:
        kw["upsampling_factor"] = r.choice([1, 2])
    return kw


def oracle_history(ctx, geo, cfg, calls):
    """"a deterministic function of the stack, the mask and the hyper-parameters ONLY": the k-th call on an
    object that has already served k-1 other calls equals the same call on a fresh object"""
    dp, mask, stack, semi = build(geo, aberr=cfg["aberr"])
    out, worst = [], 0.0
    for i, kw in enumerate(calls):
        got = rec(dp, **kw)
        ref = rec(build(geo, aberr=cfg["aberr"])[0], **kw)
        scale = max(float(np.abs(ref).max()), scale_floor(geo, mask, stack, semi))
        k = kw["deconvolution_kernel"]
        ok, err = close(got, ref, rt_batch(k), scale)
        worst = max(worst, err if math.isfinite(err) else 0.0)
        if not ok:
            out.append(("history-dependence/%s" % k,
                        "call #%d %r on an object that served %d earlier call(s) %r differs from the same call on a fresh "
                        "object by %.3g (relative to %.3g)" % (i + 1, kw, i, calls[:i], err, scale), {"call": i}))
            break
    return out, worst


def run_oracles(ctx: Ctx):
    r = ctx.rng
    worst = {"batch": 0.0, "linear": 0.0, "submask": 0.0, "parallax": 0.0, "intshift": 0.0}
    # --- corpus (regression cases) first
    for c in corpus(ctx).get("batch", []):
        found, err, nbf, scale = oracle_batch_alias(ctx, c["geo"], c["cfg"])
        ctx.count(("corpus", json.dumps(c["geo"], sort_keys=True), json.dumps(c["cfg"], sort_keys=True)), n=nbf)
        ctx.dist("corpus/batch")
        report(ctx, found, c["geo"], c["cfg"], "batch")
    # --- batch sizes + aliases: every kernel, several geometries
    nrep = ctx.budget(8, 100)
    for rep in range(nrep):
        for k in KERNELS:
            def tw(geo, cfg, rep=rep):
                if rep < 3:
                    cfg["u"] = rep + 1
            geo, cfg, cnd = gen_case(r, k, tweak=tw)
            found, err, nbf, scale = oracle_batch_alias(ctx, geo, cfg)
            worst["batch"] = max(worst["batch"], err if math.isfinite(err) else 0.0)
            worst["batch/" + k] = max(worst.get("batch/" + k, 0.0), err if math.isfinite(err) else 0.0)
            ctx.count(("batch", json.dumps(geo, sort_keys=True), json.dumps(cfg, sort_keys=True)),
                      nontrivial=nbf > 2 and scale > 1e-12, n=nbf)
            ctx.dist("result/%s" % ("identically-zero" if scale <= 1e-12 else "non-zero"))
            ctx.dist("batch/%s/u=%d" % (k, cfg["u"]))
            ctx.dist("scan/%s" % ("square" if geo["scan"][0] == geo["scan"][1] else "non-square"))
            ctx.dist("filters/%s" % ("none" if not (cfg["lowpass"] or cfg["highpass"]) else "some"))
            report(ctx, found, geo, cfg, "batch")
            if rep == 0 and k == "obf":
                ctx.sample({"kind": "batch", "geo": geo, "cfg": cfg, "num_bf": nbf, "worst_relative_difference": err})
    # --- linearity
    for rep in range(ctx.budget(4, 60)):
        for k in KERNELS:
            geo = gen_geometry(r)
            cfg = gen_config(r, k)
            coef = (round(r.uniform(-2, 2), 3), round(r.uniform(-2, 2), 3))
            found, err = oracle_linear(ctx, geo, cfg, coef)
            worst["linear"] = max(worst["linear"], err if math.isfinite(err) else 0.0)
            ctx.count(("linear", json.dumps(geo, sort_keys=True), json.dumps(cfg, sort_keys=True), coef), nontrivial=True)
            ctx.dist("linear/%s" % k)
            report(ctx, found, geo, cfg, "linear", {"coef": list(coef)})
    # --- sub-mask recombination (single-pass kernels)
    for rep in range(ctx.budget(6, 80)):
        for k in SINGLE_PASS:
            geo, cfg, _ = gen_case(r, k)
            parts = split_mask_weighted(r, geo, r.choice([2, 2, 3]))
            parts_l = [p.tolist() for p in parts]
            found, err = oracle_submask(ctx, geo, cfg, parts_l)
            worst["submask"] = max(worst["submask"], err if math.isfinite(err) else 0.0)
            ctx.count(("submask", json.dumps(geo, sort_keys=True), json.dumps(cfg, sort_keys=True), len(parts)), nontrivial=True)
            ctx.dist("submask/%s/parts=%d" % (k, len(parts)))
            report(ctx, found, geo, cfg, "submask", {"parts": parts_l})
    # --- analytic parallax
    for rep in range(ctx.budget(24, 300)):
        geo = gen_geometry(r)
        cfg = gen_config(r, "prlx")
        cfg["flip"] = False
        cfg["u"] = [1, 2, 3, 1][rep % 4]
        mode = ["zero", "c10", "c10c12", "alias"][rep % 4] if rep < 8 else r.choice(["zero", "c10", "c10c12", "alias"])
        if mode == "zero":
            cfg["aberr"] = {}
        elif mode == "c10":
            cfg["aberr"] = {"C10": round(r.uniform(-150, 150), 2)}
        elif mode == "c10c12":
            cfg["aberr"] = {"C10": round(r.uniform(-120, 120), 2), "C12": round(r.uniform(-90, 90), 2),
                            "phi12": round(r.uniform(-1.5, 1.5), 3)}
        else:
            cfg["aberr"] = {"defocus": round(r.uniform(-120, 120), 2), "astigmatism": round(r.uniform(-90, 90), 2),
                            "astigmatism_angle": round(r.uniform(-1.5, 1.5), 3)}
        if rep % 3:
            cfg["lowpass"] = cfg["highpass"] = None
        found, err = oracle_parallax(ctx, geo, cfg)
        worst["parallax"] = max(worst["parallax"], err if math.isfinite(err) else 0.0)
        ctx.count(("parallax", json.dumps(geo, sort_keys=True), json.dumps(cfg, sort_keys=True)), nontrivial=True)
        ctx.dist("parallax/%s/u=%d" % (mode, cfg["u"]))
        ctx.dist("rotation/%s" % ("zero" if geo["rot"] == 0 else "nonzero"))
        report(ctx, found, geo, cfg, "parallax")
        if rep == 2:
            ctx.sample({"kind": "parallax", "geo": geo, "cfg": cfg, "relative_difference_to_analytic": err})
    for rep in range(ctx.budget(4, 60)):
        geo, cfg, m = integer_shift_case(r)
        found, err = oracle_integer_shift(ctx, geo, cfg, m)
        worst["intshift"] = max(worst["intshift"], err if math.isfinite(err) else 0.0)
        ctx.count(("intshift", json.dumps(geo, sort_keys=True), m), nontrivial=True)
        ctx.dist("parallax/integer-shift")
        report(ctx, found, geo, cfg, "intshift", {"m": m})
    # --- history independence: several different calls on ONE object vs fresh objects
    worst["history"] = 0.0
    for rep in range(ctx.budget(6, 60)):
        geo = gen_geometry(r, small=True)
        k = list(KERNELS)[rep % len(KERNELS)]
        cfg = gen_config(r, k)
        kerns = [k, r.choice(list(KERNELS)), k]
        calls = [gen_call(r, geo, cfg, kernel=kk) for kk in kerns]
        if rep % 2 == 0:
            # the pattern that exposes a stale per-object cache: no override, an override, no override again
            calls[0].pop("override_rotation_angle", None)
            calls[1]["override_rotation_angle"] = round(geo["rot"] + 0.7, 3)
            calls[2].pop("override_rotation_angle", None)
        found, err = oracle_history(ctx, geo, cfg, calls)
        worst["history"] = max(worst["history"], err)
        ctx.count(("history", json.dumps(geo, sort_keys=True), json.dumps(calls, sort_keys=True)), nontrivial=True, n=len(calls))
        ctx.dist("history/%s" % k)
        report(ctx, found, geo, cfg, "history", {"calls": calls})
    ctx.cov["oracle_worst_relative_differences"] = worst
    ctx.log("oracles: worst relative differences %s" % {k: float("%.2g" % v) for k, v in worst.items()})


def _forgive_new_names(ctx, rel):
    """names this check started to hash after the drift-guard baseline was taken are absent from the baseline, not
    changed: they must not escalate the budget (they take part in the guard once the baseline is regenerated)"""
    from .. import common
    base = common._baseline_hashes().get(ctx.prop, {}).get(rel)
    drift = ctx.cov.get("drift", {}).get(rel)
    if base is None or not drift:
        return
    real = [k for k in drift if k in base]
    if real:
        ctx.cov["drift"][rel] = real
    else:
        del ctx.cov["drift"][rel]
        if not ctx.cov["drift"]:
            del ctx.cov["drift"]
            ctx.escalated = False
            ctx.log("drift guard: the names reported above are new in the hashed set (not in the baseline): no escalation")


def run(ctx: Ctx):
    ctx.hash_sources("diffractive_imaging/direct_ptychography.py",
                     ["DirectPtychography._preprocess", "DirectPtychography._return_bf_context",
                      "DirectPtychography._return_kernel_contributions", "DirectPtychography.reconstruct",
                      "DirectPtychography._normalize_kernel_name", "DirectPtychography._return_upsampled_qgrid",
                      "DirectPtychography._return_lateral_shifts",
                      "HyperparameterState.current_aberrations", "HyperparameterState.current_rotation_angle",
                      "HyperparameterState.__post_init__", "DirectPtychography.grid_search_hyperparameters",
                      "DirectPtychography.optimize_hyperparameters"])
    _forgive_new_names(ctx, "diffractive_imaging/direct_ptychography.py")
    ctx.hash_sources("diffractive_imaging/complex_probe.py",
                     ["gamma_factor", "evaluate_probe", "aberration_surface_cartesian_gradients",
                      "aberration_surface_polar_gradients", "spatial_frequencies", "soft_aperture"])
    ctx.hash_sources("diffractive_imaging/ptycho_utils.py", ["SimpleBatcher"])
    ctx.hash_sources("diffractive_imaging/direct_ptycho_utils.py", ["_crop_corner_centered_mask"])
    ctx.cov["rule"] = (
        "cases: (geometry: detector grid 4..7 x 4..7 with 5..21 BF pixels around the origin, scan 4x10..9x10 incl. "
        "non-square and odd, samplings, energy, rotation, aperture cutting through or outside the mask; config: "
        "kernel/alias, upsampling 1..3, low/high-pass, flip, aberration set) drawn from ctx.rng; per case ALL batch "
        "sizes 1..num_bf (counted as evaluations); linearity with random real coefficients; 2-3 complementary "
        "sub-masks; analytic parallax for zero / defocus / defocus+astigmatism / aliases and integer-pixel shifts; "
        "model runs on small grids (<= 5x6 scan, <= 7 BF pixels, upsampling 1-2) for every kernel at batch sizes "
        "1,2,n-1,n; random mask pairs for the index map.  Round-3 extension (harness/ext_C04.py): parallax with all 25 "
        "aberration coefficients and aliases (six families: coma, coma aliases, C23+C12, Cs, third order mixed, fourth/"
        "fifth order) at upsampling 1..3 with and without filters; stacks with per-image offsets; objects built with "
        "crop_bf_mask=True (BF disc inside a 7..11 x 7..11 detector or up to the edge, padding 0..2), bf_mask in 7 "
        "representations, max_batch_size > num_bf, corrected_bf; attribute read/write sets over 3-call sequences; "
        "gamma_factor calls of ssb/obf/mf runs (incl. higher-order aberrations); SimpleBatcher for all n <= 12, b <= n+2 "
        "and random n <= 60; iCoM from the raw stack through the model.  Round 4 (harness/layers_C04.py): LAYERED hyper-parameters -- "
        "construction values, an optimised layer brought in through grid_search_hyperparameters (fixed values / single-point "
        "ranges), optimize_hyperparameters (n_trials=1, degenerate ranges) or a HyperparameterState, per-call overrides of "
        "aberrations and rotation; later layers set a subset of the keys (canonical names or aliases) to new values of which "
        "about half are EXACT zeros (0.0, -0.0, int 0; angles; rotation 0), in ~30% every coefficient is switched off: the "
        "result must equal a fresh object constructed with the effective values, and the analytic parallax clause is evaluated "
        "with the effective aberrations.  Source tie (harness/c04_tie.py): cross-test of the translated merge / rotation chain / "
        "name table / dispatch / BF context / passes against the real functions.  A case is distinct by its full parameter set, "
        "non-trivial when it has more than 2 BF pixels / a proper sub-mask.  Round 7 (harness/rot_C04.py): ROTATION ANGLES at the special "
        "values of cos/sin and around them -- (num/den) pi, den in {1,2,3,4,6} (0, +-pi/2, pi, 3pi/2, +-pi/4, multiples of pi/6), "
        "|angle| up to 4 pi (negative, beyond one turn), three floating-point spellings, exact or displaced by +-1e-15..1e-3, "
        "at construction or as override_rotation_angle, aberrations never all zero -- judged by the analytic parallax clause "
        "against shifted images computed in numpy on a detector grid rotated by the harness itself; every exact angle paired "
        "with a displaced neighbour (continuity); half of the model's pipeline runs use such angles")
    ctx.assumptions += [
        "torch.fft.fft2/ifft2 compute the DFT (the model's naive DFT with numpy twiddle tables is compared with them to 1e-4)",
        "the per-pixel kernel factors are INPUTS of the skeleton theorems; the C04_gamma_* / *_hermitian theorems are about "
        "gamma_factor and the ramp over an ABSTRACT character E, aperture A and surface chi: that torch's exp(-i .), "
        "soft_aperture and aberration_surface satisfy the assumed laws (character, real even aperture, even surface for "
        "even-order coefficients) is validated numerically only (float64 recomputation of every gamma_factor call)",
        "the geometric shift of the parallax oracles is the harness's own gradient of the aberration surface w.r.t. the "
        "scattering angle in the rotated detector frame (closed form for defocus + astigmatism, generic formula for all 25 "
        "coefficients), cross-checked with aberration_surface_cartesian_gradients evaluated in float64",
        "SimpleBatcher(n, b, shuffle=False) is compared exactly with the model's schedule on sampled (n, b), not proved (C09 "
        "models the batcher)",
        "the attribute probe sees instance attributes only (module- or class-level caches are covered by the history oracle)",
        "torch CPU kernels are deterministic functions of their inputs",
        "the effective hyper-parameters of a call are: override value if the override sets the key, else the optimised value, "
        "else the construction value (key by key; aliases canonicalised, defocus = -C10); a coefficient that is absent is zero",
        "search entry points are used with single-point grids / degenerate ranges only, so the optimised value is known a "
        "priori; searches whose only trial vanishes identically or is not finite have no best trial and are skipped",
    ]
    ctx.cov["trusted_base"] += [
        "Coq 8.16.1 kernel incl. vm_compute (used to run the model); no native_compute",
        "hand-written models coq/model/C04_Model.v, coq/model/C04_Gamma_Model.v tied to /repo by the correspondence runs of this check",
        "lib/DFT.v, lib/DFT2.v (proved), lib/DFT_Float.v (binary64 instance used only to RUN the model)",
        "hand-written model coq/model/C04_Hyper_Model.v (layer merge, rotation priority, kernel names, dispatch), tied to the "
        "CURRENT source by theorem on every run (coq/gen_proofs/C04_GenProofs.v against build/C04/Gen_C04.v)",
        "harness/layers_C04.py (layer generator, own merge `effective`)",
        "harness/props/C04.py, harness/ext_C04.py (generators, numpy reference formulas, attribute probe, Python->Coq printers), harness/common.py",
        "PrimFloat primitives (binary64) for the executable instance",
    ]
    ctx.proofs_or_violation()
    _torch()
    try:
        from ..c04_tie import run_tie
        run_tie(ctx)
    except Exception as e:  # noqa
        ctx.broken_obligation = "; ".join(filter(None, [ctx.broken_obligation, "source tie could not run: %r" % (e,)]))
    run_oracles(ctx)
    from .. import ext_C04, layers_C04
    layers_C04.run_layers(ctx)
    ext_C04.run_ext(ctx)
    check_index_map(ctx)
    check_skeleton(ctx)
    from .. import rot_C04
    rot_C04.run_rotation(ctx)       # last: the random streams of the older families are unchanged


def replay(ctx: Ctx, path):
    rp = json.loads(open(path).read())
    print("replaying:", rp.get("what"))
    if rp.get("kind") == "index-map":
        full = np.array(rp["full"], bool)
        sub = np.array(rp["sub"], bool)
        geo = {"G": list(full.shape), "scan": [3, 4], "nbf": 0, "scan_sampling": [0.5, 0.6], "rs": [0.02, 0.025],
               "energy": 80e3, "rot": 0.0, "mask_seed": 1, "stack_seed": 5, "semi_mode": "wide"}
        _torch()
        obs, internal = observed_index_map(geo, full, sub)
        pf = list(zip(*np.nonzero(full)))
        want = [pf.index(p) for p in zip(*np.nonzero(sub))]
        v = ctx.coq_eval("replay", PRE, ["zl (index_map %s %s)" % (c_mask(full), c_mask(sub))])[0]
        print("implementation (observed through reconstruct):", obs, " internal:", internal)
        print("expected:", want, " model:", v)
        return 1 if obs != want else 0
    if rp.get("kind") == "oracle":
        _torch()
        geo, cfg, which = rp["geo"], rp["cfg"], rp.get("which")
        if which == "batch":
            found, err = oracle_batch_alias(ctx, geo, cfg)[:2]
        elif which == "linear":
            found, err = oracle_linear(ctx, geo, cfg, tuple(rp["coef"]))
        elif which == "submask":
            found, err = oracle_submask(ctx, geo, cfg, rp["parts"])
        elif which == "parallax":
            found, err = oracle_parallax(ctx, geo, cfg)
        elif which == "intshift":
            found, err = oracle_integer_shift(ctx, geo, cfg, rp["m"])
        elif which == "history":
            found, err = oracle_history(ctx, geo, cfg, rp["calls"])
        elif which == "layers":
            from .. import layers_C04
            return layers_C04.replay_layers(ctx, rp)
        elif which == "rotation":
            from .. import rot_C04
            return rot_C04.replay_rotation(ctx, rp)
        else:
            from .. import ext_C04
            rc = ext_C04.replay_ext(ctx, rp)
            if rc is None:
                print("unknown oracle", which)
                return 0
            return rc
        print("relative difference:", err)
        for key, what, _ in found:
            print("FAILS:", key, "-", what)
        if not found:
            print("property holds on this case")
        return 1 if found else 0
    if rp.get("kind") == "ext":
        _torch()
        from .. import ext_C04
        rc = ext_C04.replay_ext(ctx, rp)
        if rc is not None:
            return rc
    print("nothing to replay for kind %r (proof obligation / machinery): re-run ./check C04" % rp.get("kind"))
    return 0
