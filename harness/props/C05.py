"""C05 — checkpoint / resume equivalence for iterative ptychography (save, reload, clone).

PARTIAL: the reconstruction state machine is proved (coq/props/C05_Properties.v); the numerical
resume equivalence is VALIDATED here by differential runs on a toy reconstruction of the real
library.  Two comparisons per case:

  oracle          (the property text on the implementation)  [run k; interrupt; run n-k] vs the
                  uninterrupted [run k; run n-k]: iteration count, loss history, lr history,
                  constraints, object, probe to a stated tolerance; the reloaded/cloned object
                  reports the state that was saved; the object that was saved (or cloned from)
                  continues as if nothing had happened; a clone shares no tensor / optimiser /
                  scheduler / history container with its original.
  correspondence  the STRUCTURAL observables of the real objects (identity of the tensors in
                  optimizer.param_groups with the model's parameters, which parameter every
                  optimizer.state key is, Adam step counters, number of moment buffers,
                  scheduler.optimizer identity and last_epoch, history lengths) after the first
                  k iterations, after the interruption, and after the remaining iterations, on
                  the continued copy and on the live original — against the Coq model
                  (C05_Model.Struct) evaluated on the same operation sequence.

Round 3: a case is a list of segments (k_j iterations, then one or SEVERAL interruptions applied one
after the other) followed by the remaining iterations; interruptions now include `.to()` on the same
object and save() WITHOUT the raw data + from_file(path, dset=...) (`_dataset_metadata`); the
observables include the validation losses, the per-iteration snapshots and the learned dataset
parameters; the structural snapshots are compared with the model after every segment and after every
single interruption.  See harness/props/C05.audit.md.

Round 4: (a) the hyper-parameters of a case (learning rate, momentum, scheduler factors) are handed to the
library in every legitimate numeric FORM, per optimised model (Python int / float, np.int32 / int64 /
float32 / float64; an integer form carries an integer rate, which a scheduler then makes fractional), the
reported histories (iter_lrs per optimiser, iter_losses, val_iter_losses, snapshot iterations, num_iters) are
read through the public accessors and compared as numbers, entry by entry and EXACTLY (learning rates also
after continuing); (b) harness/c05_tie.py re-reads the source of reconnect_optimizer_to_parameters / to / save /
the iteration loop / _record_iter / reset_recon / _store_current_iter_snapshot on every run and the facts the
model assumes about them are re-proved (coq/gen_proofs/C05_Gen*.v).

Round 5: CHECKPOINT TARGETS WITH A HISTORY.  case["prior"] = {"kind": <one of c05_toy.PRIORS>, "form": "str" | "Path"}:
every save of the case (mode="o", zip and directory stores, with or without the raw data) goes onto a target that
already holds an earlier checkpoint of a DIFFERENT reconstruction state (other set of optimised models, more
iterations / snapshots, other scheduler, other object type / slice count / probe mode count, a validation history,
written without the raw data, never iterated), written by the library's own save(); later saves of the same case land
on the run's own earlier checkpoint.  The oracle is unchanged: the reloaded object reports exactly what was saved
(which learning-rate histories exist included) and continues like the uninterrupted run.

Round 7: STAGED RUNS.  case["stage"] = [chg_1, ..., chg_last], one entry per continuation call (the later segments and the
remaining iterations): the settings that call CHANGES relative to stage 1 - entries of the constraint dictionaries (hard and
soft; the Gaussian / Butterworth filter entries and their parameters one at a time, for a filter that stage 1 made active
through cfg["obj_constraints"]), optimiser type / learning rate / set of optimised models, scheduler, a full-batch batch size,
the loss type, an explicit reset=False, a device (harness/c05_stage.py).  The same call goes to the uninterrupted run, to the
continued copy and to the live original.  case["blind"]: nothing is read from any object between the checkpoint and the next
call (the checkpoint is taken and everybody simply carries on); the reported-state clause is then not judged for that case.

Round 8: STAGE-1 CONSTRAINT DICTIONARIES WITH NON-DEFAULT VALUES.  cfg["cons1"] = {"object": {...}, "probe": {...}, "dataset": {...}}:
non-default values of the entries of the three DEFAULT_CONSTRAINTS handed to the FIRST call (harness/c05_stage.CONS1 / gen_cons1), in
the forms that flip the truthiness of the default (False / 0 / 0.0 over a truthy default; True / 1 / a positive number over False / 0 /
None).  The continuation carries no `constraints=` (relies on them being carried over), passes the same dictionaries again with every call
(stage kind "cons/repass_stage1"), or is a round-7 staged call.  The constraint dictionaries are compared entry by entry
(c05_toy.constraints_diff)."""
from __future__ import annotations

import json
import os
import tempfile

from ..common import Ctx, cbool

LEVEL = "proof"
TOL = 5e-6          # relative max-norm tolerance for resumed-vs-uninterrupted loss / lr histories
ARR_L2 = 5e-5       # object / probe arrays: relative Frobenius norm ...
ARR_MAX = 2e-4      # ... and relative max-norm (single barely-illuminated pixels: Adam amplifies float32 noise)
TOL_REPORT = 1e-7   # reported state of the reloaded object vs the saved one (bit-exact in practice)

PRE = """From QV.lib Require Import Prelude.
From QV.model Require Import C05_Model.
Definition show (x : list (option (Z * list Z * list (Z * Z * Z) * (Z * Z))) * Z * list (Z * Z) * list Z
                     * list (list (option Z))) :=
  let '(a, b, c, d, e) := x in (a, b, c).
Definition pick (mask : list (list bool)) (written : bool) (ops : list Struct.op) (spec : list (nat * Z))
                (idx : list nat) :=
  let tr := Struct.trace mask written ops (Struct.init spec) in
  map (fun i => option_map show (nth_error tr i)) idx.
"""

MODEL_IDX = {"object": 0, "probe": 1, "dataset": 2}
KIND = {"sgd": "SGD", "sgd_momentum": "SGDm", "adam": "Adam", "adamw": "AdamW"}
VIA_OP = {"zip": "OpReload false", "dir": "OpReload false", "zip+to": "OpReload true",
          "clone": "OpClone", "clone_fallback": "OpCloneFallback",
          # round 3: a device move between two calls; save() without the raw data + from_file(path, dset=...)
          # (model index 2 = the dataset, 12 = the constraint tag of the dataset that is supplied again)
          "to": "OpTo", "meta": "(OpReloadMeta 2 12%Z false)", "meta_dir": "(OpReloadMeta 2 12%Z false)",
          "meta+to": "(OpReloadMeta 2 12%Z true)"}
# what happens to the LIVE original object: save() moves it to the CPU and back (clone's
# fallback calls save as well); a deepcopy clone leaves it alone
LIVE_OP = {"zip": "OpSaveContinue", "dir": "OpSaveContinue", "zip+to": "OpSaveContinue",
           "clone": None, "clone_fallback": "OpSaveContinue", "to": "OpTo", "meta": "OpSaveContinue",
           "meta_dir": "OpSaveContinue", "meta+to": "OpSaveContinue"}
META = ("meta", "meta_dir", "meta+to")
SAVING = ("zip", "dir", "zip+to") + META       # interruptions whose checkpoint target the caller chooses
INT_FORMS = ("int", "np.int64", "np.int32")


def segments(case):
    """a case is a list of segments (k_j iterations, then the interruptions `a>b>...` applied one after
    the other to whatever object is current) followed by the remaining iterations.  The original
    format (n, k, via) is the one-segment case; `more` = [[k_2, via_2], ...] adds later segments."""
    segs = [(int(case["k"]), case["via"].split(">"))]
    for kj, vj in case.get("more", []):
        segs.append((int(kj), vj.split(">")))
    rest = int(case["n"]) - sum(k for k, _ in segs)
    assert rest >= 0, case
    return segs, rest


def atoms_of(case):
    return [a for _, at in segments(case)[0] for a in at]


def via_key(case):
    return "chain" if (case.get("more") or ">" in case["via"]) else case["via"].replace("+", "-")

# the model of the code AS IT SHOULD BE: state re-keyed by parameter
# (fixes/C05-reconnect-rekey-by-parameter.diff).  `written=true` is the positional re-keying.
WRITTEN = False


# ------------------------------------------------------------------------------------------
# cases


def base_cfg(**kw):
    cfg = dict(scan=(3, 3), data_seed=1, rng_seed=7, obj_type="complex", num_probes=1, opt="adam",
               optimise=["object", "probe"], lr={"object": 1e-2, "probe": 1e-3, "dataset": 1e-3},
               sched="none", learn_probe_tilt=False, num_slices=1)
    cfg.update(kw)
    return cfg


def corpus_cases():
    """fixed regression cases that always run first"""
    out = [
        # parameter 0 of the probe model (the tilt) receives no gradient: the optimiser's state
        # dict has the single key `parameter 1`; positional re-keying moves it to parameter 0
        dict(cfg=base_cfg(learn_probe_tilt=True), n=4, k=2, via="zip"),
        dict(cfg=base_cfg(learn_probe_tilt=True, opt="sgd_momentum", sched="exp"), n=3, k=1, via="clone"),
        # two parameters that both carry state (descan shifts, scan positions)
        dict(cfg=base_cfg(optimise=["object", "probe", "dataset"], opt="adamw", sched="exp"), n=4, k=2, via="dir"),
        dict(cfg=base_cfg(optimise=["object", "probe", "dataset"], opt="adam", sched="plateau", num_probes=2),
             n=4, k=1, via="clone"),
        dict(cfg=base_cfg(opt="adam", sched="exp", obj_type="potential"), n=6, k=3, via="zip"),
        dict(cfg=base_cfg(opt="adam", sched="linear", obj_type="pure_phase", num_probes=2), n=5, k=2,
             via="clone_fallback"),
        dict(cfg=base_cfg(opt="sgd", sched="cyclic"), n=3, k=0, via="zip+to"),
        dict(cfg=base_cfg(opt="adamw", sched="plateau"), n=3, k=3, via="dir"),
        # ---- round 3 ----
        # save() without the raw data + from_file(path, dset=...): _dataset_metadata route
        dict(cfg=base_cfg(opt="adam", sched="exp"), n=4, k=2, via="meta"),
        # ... with learned scan positions / descan shifts (reported state and persistence are judged;
        # the dataset optimiser is not part of such a checkpoint, so resume is outside the claim)
        dict(cfg=base_cfg(optimise=["object", "probe", "dataset"], opt="adamw", sched="exp"), n=3, k=2, via="meta_dir"),
        # several consecutive interruptions, snapshots kept every iteration
        dict(cfg=base_cfg(optimise=["object", "probe", "dataset"], opt="adam", sched="linear", num_probes=2,
                          snapshots=True), n=5, k=2, via="zip>clone>to", more=[[1, "dir>clone_fallback"]]),
        # deterministic validation split (held-out positions, _iter_val_losses)
        dict(cfg=base_cfg(opt="sgd_momentum", sched="plateau", val_grid=True), n=4, k=2, via="zip"),
        # non-default constraints on every model, learned tilt, two slices
        dict(cfg=base_cfg(optimise=["object", "probe", "dataset"], opt="adamw", sched="cyclic", num_probes=2,
                          learn_probe_tilt=True, num_slices=2, rich_constraints=True), n=4, k=2, via="dir"),
        # the continuation call is reconstruct(reset=True): initial state and rng seed must survive
        dict(cfg=base_cfg(optimise=["object", "probe", "dataset"], opt="adam", sched="exp", num_probes=2),
             n=4, k=2, via="zip", reset_last=True),
        # .to() between iterations, twice, on the same object
        dict(cfg=base_cfg(opt="adam", sched="cyclic"), n=3, k=1, via="to", more=[[1, "to"]]),
        # clone of a clone
        dict(cfg=base_cfg(opt="adamw", sched="linear", snapshots=True), n=4, k=2, via="clone>clone"),
        # save -> load -> save -> load -> iterate -> save without data -> load
        dict(cfg=base_cfg(opt="sgd_momentum", sched="exp", obj_type="potential"), n=5, k=2, via="zip>dir",
             more=[[2, "meta+to"]]),
        # ---- round 4: hyper-parameters in every legitimate numeric form ----
        # learning rates given as Python ints, a scheduler that makes them fractional later
        dict(cfg=base_cfg(opt="sgd_momentum", sched="plateau", lr={"object": 1, "probe": 1, "dataset": 1},
                          num_form={"object": "int", "probe": "np.int64"}), n=5, k=3, via="dir"),
        dict(cfg=base_cfg(opt="sgd", sched="exp", optimise=["object", "probe", "dataset"],
                          lr={"object": 1, "probe": 2e-3, "dataset": 1},
                          num_form={"object": "np.int32", "probe": "np.float32", "dataset": "int"}),
             n=4, k=2, via="clone_fallback>zip"),
        dict(cfg=base_cfg(opt="adamw", sched="cyclic", num_form={"object": "np.float32", "probe": "np.float64"}),
             n=4, k=3, via="zip", more=[[1, "clone"]]),
        # ---- round 5: the save goes onto a target that holds an earlier checkpoint of another state ----
        dict(cfg=base_cfg(optimise=["object"], opt="adam", sched="none"), n=4, k=2, via="dir",
             prior={"kind": "all_models_long", "form": "str"}),
        dict(cfg=base_cfg(opt="adamw", sched="exp", snapshots=True), n=4, k=1, via="zip",
             prior={"kind": "two_slices", "form": "Path"}),
        dict(cfg=base_cfg(optimise=["object", "probe"], opt="sgd_momentum", sched="plateau", obj_type="pure_phase"),
             n=4, k=2, via="meta_dir>dir", prior={"kind": "dataless", "form": "Path"}),
        dict(cfg=base_cfg(optimise=["probe"], opt="adam", sched="cyclic", num_probes=2, snapshots=True), n=3, k=1,
             via="dir", more=[[1, "dir"]], prior={"kind": "probe_only_potential", "form": "str"}),
        # ---- round 7: staged runs - the continuation changes settings relative to stage 1 ----
        # a parameter of a filter that stage 1 made active, changed alone
        dict(cfg=base_cfg(opt="adam", sched="none", obj_constraints={"q_lowpass": 0.45}), n=4, k=2, via="zip", blind=True,
             stage=[{"kind": "cons/object/butterworth_order", "constraints": {"object": {"butterworth_order": 1}}}]),
        dict(cfg=base_cfg(opt="adamw", sched="exp", obj_type="potential",
                          obj_constraints={"q_lowpass": 0.6, "q_highpass": 0.1, "butterworth_order": 2}), n=4, k=2,
             via="clone", stage=[{"kind": "cons/object/q_highpass", "constraints": {"object": {"q_highpass": 0.06}}}]),
        dict(cfg=base_cfg(opt="sgd_momentum", sched="linear", obj_type="pure_phase", num_probes=2,
                          obj_constraints={"gaussian_sigma": 0.8}), n=5, k=2, via="dir", blind=True, more=[[1, "clone"]],
             stage=[{"kind": "cons/object/gaussian_sigma", "constraints": {"object": {"gaussian_sigma": 0.5}}},
                    {"kind": "cons/object/q_lowpass", "constraints": {"object": {"q_lowpass": 0.45}}}]),
        # other optimiser type and learning rates, scheduler kept; soft constraint weights
        dict(cfg=base_cfg(optimise=["object", "probe", "dataset"], opt="adam", sched="exp"), n=4, k=2, via="zip+to",
             stage=[{"kind": "opt/type", "opt": {"object": {"type": "sgd_momentum", "lr": 5e-3},
                                                 "probe": {"type": "sgd_momentum", "lr": 1e-3},
                                                 "dataset": {"type": "sgd_momentum", "lr": 1e-3}},
                     "constraints": {"object": {"tv_weight_xy": 0.02}, "dataset": {"descan_tv_weight": 0.02}}}]),
        # loss type and (full-batch) batch size
        dict(cfg=base_cfg(opt="adamw", sched="plateau"), n=4, k=1, via="clone_fallback", blind=True,
             stage=[{"kind": "loss_type", "loss_type": "l1_intensity", "batch": [1, 3]}]),
        # ---- round 8: stage-1 constraint dictionaries with non-default values (falsy over a truthy default and vice versa)
        # on every model; the continuation relies on them being carried over / passes them again
        dict(cfg=base_cfg(optimise=["object", "probe", "dataset"], opt="adam", sched="none", obj_type="potential",
                          cons1={"object": {"positivity": False, "fix_potential_baseline": True,
                                            "fix_potential_baseline_factor": 0, "tv_weight_xy": 0.01, "butterworth_order": 0},
                                 "probe": {"orthogonalize_probe": 0, "center_probe": True},
                                 "dataset": {"clip_scan_positions": False, "center_scan_positions": True,
                                             "descan_tv_weight": 0.01}}), n=5, k=2, via="zip"),
        dict(cfg=base_cfg(opt="sgd_momentum", sched="exp", num_probes=2, num_slices=2,
                          cons1={"object": {"positivity": 0, "identical_slices": True, "gaussian_sigma": 0.5,
                                            "q_lowpass": 0.6, "butterworth_order": 2, "apply_fov_mask": True},
                                 "probe": {"orthogonalize_probe": True, "tv_weight": 0.02},
                                 "dataset": {"clip_scan_positions": 0, "center_scan_positions": 1}}), n=4, k=2, via="clone",
             stage=[{"kind": "cons/repass_stage1", "constraints": {
                 "object": {"positivity": 0, "identical_slices": True, "gaussian_sigma": 0.5, "q_lowpass": 0.6,
                            "butterworth_order": 2, "apply_fov_mask": True},
                 "probe": {"orthogonalize_probe": True, "tv_weight": 0.02},
                 "dataset": {"clip_scan_positions": 0, "center_scan_positions": 1}}}]),
    ]
    from ..common import VERIF
    p = VERIF / "corpus" / "C05" / "corpus.json"
    if p.exists():
        out += json.loads(p.read_text()).get("cases", [])
    return out


def T_constraints(cfg):
    """the constraint dictionaries the first call of a run hands to reconstruct() (as plain JSON data)"""
    from ..c05_toy import constraints
    return {m: dict(d) for m, d in constraints(cfg).items()}


def gen_cases(ctx: Ctx):
    r = ctx.rng
    cases = corpus_cases()
    n_gen = ctx.budget(38, 640)

    def cyc(vals):
        vals = list(vals)
        r.shuffle(vals)
        return vals

    opts = cyc(["sgd", "sgd_momentum", "adam", "adamw", "adam", "adamw"])
    scheds = cyc(["none", "exp", "linear", "plateau", "cyclic"])
    objs = cyc(["complex", "pure_phase", "potential"])
    vias = cyc(["zip", "dir", "zip+to", "clone", "clone_fallback", "zip", "clone"])
    optimise = cyc([["object", "probe"], ["object", "probe"], ["object"], ["probe"], ["object", "probe", "dataset"],
                    ["object", "dataset"]])
    vias3 = cyc(["meta", "meta_dir", "meta+to", "to", "zip>zip", "clone>clone", "to>zip", "clone>meta", "dir>to>clone",
                 "clone_fallback>clone"])
    more3 = cyc(["zip", "clone", "to", "meta", "dir>zip", "clone>clone_fallback"])
    r3_shift = r.randrange(0, 1320)
    # round 4: the numeric FORM of the hyper-parameters (learning rate, momentum, scheduler factors), per
    # optimised model; 11 entries: coprime with the lengths of all the other cycles
    forms = cyc(["float", "float", "float", "float", "int", "int", "np.int64", "np.int32", "np.float32",
                 "np.float64", "np.float32"])
    r4_shift = r.randrange(0, 11)
    # round 5: the earlier checkpoint the save lands on (7 kinds x 2 path forms; among the cases with a saving
    # interruption every second one gets a history)
    from ..c05_toy import PRIORS
    priors = cyc(sorted(PRIORS))
    if ctx.quick:
        priors = priors[:4]     # a seeded subset per quick run (each pooled earlier checkpoint costs a save); the corpus
                                # cases use four kinds on every run, the thorough tier all seven
    r5_shift, n_saving = r.randrange(0, 14), 0
    # round 7: staged runs (every third generated case): the kinds of change, cycled - every second staged case changes
    # constraint entries (one at a time), the others the optimiser / scheduler / batch / loss / reset / device settings
    from ..c05_stage import CONS_KINDS, OTHER_KINDS, gen_stage, CONS1_ENTRIES, gen_cons1
    cons_kinds, other_kinds = cyc(CONS_KINDS), cyc(OTHER_KINDS)
    r7_shift, n_staged = r.randrange(0, 3), 0
    # round 8: stage-1 constraint dictionaries with NON-DEFAULT values of every entry (5 of every 13 generated cases; 13 is
    # coprime with the lengths of all the other cycles); the entry that is certainly present is cycled through all entries of
    # all three models; the continuation relies on the constraints being carried over (no `constraints=`), passes the same
    # dictionaries again with every call, or (a staged case) changes one entry and relies on the others
    cons1_focus = cyc(CONS1_ENTRIES)
    r8_shift, n_cons1 = r.randrange(0, 13), 0
    for i in range(n_gen):
        n = r.choice([2, 3, 4, 5] if ctx.quick else [1, 2, 3, 4, 5, 6, 8])
        k = r.choice([0, n, r.randint(0, n), r.randint(1, max(1, n - 1)), r.randint(1, max(1, n - 1))])
        cfg = base_cfg(
            scan=r.choice([(3, 3), (2, 3), (3, 2), (2, 2)]),
            data_seed=r.randrange(1, 90), rng_seed=r.randrange(1, 1 << 16),
            opt=opts[i % len(opts)], sched=scheds[i % len(scheds)], obj_type=objs[i % len(objs)],
            num_probes=1 + (i // 2) % 2,
            optimise=list(optimise[i % len(optimise)]),
            lr={"object": r.choice([5e-3, 1e-2, 2e-2]), "probe": r.choice([5e-4, 1e-3, 2e-3]),
                "dataset": r.choice([5e-4, 1e-3])},
            learn_probe_tilt=(i % 7 == 3), num_slices=2 if i % 9 == 4 else 1,
        )
        nf = {key: forms[(i + r4_shift + 4 * pos) % len(forms)] for pos, key in enumerate(("object", "probe", "dataset"))}
        if any(f != "float" for f in nf.values()):
            cfg["num_form"] = nf
            for key, f in nf.items():
                # an integer form needs an integer rate.  Only with the sgd family: a rate of 1 is an ordinary
                # converging run there, while Adam / AdamW at lr = 1 is a chaotic regime on the toy problem
                # (loss 0.5 -> 3 -> 0.5) in which two runs that differ only in memory alignment (a deepcopy
                # BEFORE the first iteration) already drift apart by 2e-4; with the Adam family the integer
                # forms therefore reach the other integer-valued hyper-parameters only (see the audit)
                if f in INT_FORMS and cfg["opt"] in ("sgd", "sgd_momentum"):
                    cfg["lr"][key] = 1
        case = dict(cfg=cfg, n=n, k=k, via=vias[i % len(vias)])
        # ---- round 3 dimensions, cycled so that every value meets every older dimension over the seeds
        j = i + r3_shift
        if j % 4 == 1:
            case["via"] = vias3[(j // 4) % len(vias3)]
        if j % 5 == 2:
            cfg["snapshots"] = True
        if j % 6 == 3 and not any(a in META for a in case["via"].split(">")):
            cfg["rich_constraints"] = True
        if cfg["opt"] in ("sgd", "sgd_momentum") and j % 2 == 0:
            # (with Adam the pixels seen only by held-out positions get noise-sized gradients which the
            # normalisation amplifies: alignment-dependent rounding then shows at 1e-4, see the audit)
            cfg["val_grid"] = True
        if cfg["learn_probe_tilt"] and j % 2 == 1:
            cfg["num_slices"] = 2
        if j % 8 == 5 and n - k >= 2:
            k2 = r.randint(1, n - k - 1)
            case["more"] = [[k2, more3[(j // 8) % len(more3)]]]
        if j % 11 == 7 and n - k >= 1:
            case["reset_last"] = True
        if any(a in META for a in atoms_of(case)):
            cfg.pop("rich_constraints", None)
        if (i + r8_shift) % 13 in (0, 2, 5, 7, 10):
            cfg.pop("rich_constraints", None)           # (a fixed member of the family below)
            cfg["cons1"] = gen_cons1(r, cfg, cons1_focus[n_cons1 % len(cons1_focus)])
            if any(a in META for a in atoms_of(case)):
                cfg["cons1"].pop("dataset", None)       # (the dataset is supplied again at load time: see the assumptions)
        if (i + r7_shift) % 3 == 0:
            if case["k"] >= n:                      # a continuation call that iterates
                case["k"] = k = r.randint(0, n - 1)
                if case.get("more"):
                    case.pop("more")
            case.pop("reset_last", None)
            kinds = cons_kinds if n_staged % 2 == 0 else other_kinds
            s1, chg = gen_stage(r, cfg, kinds[(n_staged // 2) % len(kinds)])
            if s1:
                cfg["obj_constraints"] = s1
            n_calls = len(case.get("more", [])) + 1
            at = r.randrange(n_calls)
            # a checkpoint written WITHOUT the raw data carries neither the dataset's constraints nor its optimiser (they
            # belong to the dataset supplied at load time: outside the claim, see the assumptions): a change that gives
            # the dataset constraint entries or an optimiser comes after such a checkpoint, i.e. with the last call
            if any(a in META for a in atoms_of(case)) and ("dataset" in chg.get("constraints", {}) or any(
                    k_ == "dataset" and v_["type"] != "none" for k_, v_ in chg.get("opt", {}).items())):
                at = n_calls - 1
            case["stage"] = [chg if c_ == at else {} for c_ in range(n_calls)]
            if n_staged % 4 in (0, 3):
                case["blind"] = True
            n_staged += 1
        if cfg.get("cons1") is not None:
            st_obj = dict(cfg.get("obj_constraints") or {})
            for ch_ in case.get("stage", []):
                st_obj.update(ch_.get("constraints", {}).get("object", {}))
            if cfg["cons1"].get("object", {}).get("butterworth_order") == 0 and any(
                    k_ in st_obj for k_ in ("q_lowpass", "q_highpass", "butterworth_order")):
                cfg["cons1"]["object"].pop("butterworth_order")     # order 0 only while no Butterworth filter is active
            if not case.get("stage") and n_cons1 % 2 == 1:
                n_calls = len(case.get("more", [])) + 1
                case["stage"] = [{"kind": "cons/repass_stage1", "constraints": T_constraints(cfg)} for _ in range(n_calls)]
            n_cons1 += 1
        if any(a in SAVING for a in atoms_of(case)):
            n_saving += 1
            j5 = n_saving + r5_shift
            if j5 % 2 == 0:
                case["prior"] = {"kind": priors[(j5 // 2) % len(priors)], "form": "Path" if (j5 // 2) % 3 == 1 else "str"}
        cases.append(case)
    return cases


# ------------------------------------------------------------------------------------------
# running one case on the real library


_FROZEN = [False]


def _prepare():
    import gc
    import warnings
    import torch
    torch.set_num_threads(1)
    warnings.filterwarnings("ignore")
    if not _FROZEN[0]:
        # reconstruct() calls gc.collect() twice; with torch and quantem imported a full
        # collection costs ~0.2 s.  Freezing the objects that exist after a warm-up run (all
        # lazy imports done) makes it cheap; no semantic effect.
        from .. import c05_toy as T
        cfg = base_cfg()
        pt = T.build(cfg)
        T.first_call(pt, cfg, 1)
        wd = tempfile.mkdtemp(prefix="c05_warm_")
        T.interrupt(pt, "zip", wd)
        T.interrupt(pt, "clone", wd)
        import shutil
        shutil.rmtree(wd, ignore_errors=True)
        del pt
        gc.collect()
        gc.freeze()
        _FROZEN[0] = True


def set_ops(cfg):
    return ["OpSetOpt %d %s tt %s" % (MODEL_IDX[key], KIND[cfg["opt"]], "None" if cfg["sched"] == "none" else "(Some tt)")
            for key in cfg["optimise"]]


def run_case(case, workdir):
    """returns a dict with the numeric observations and structural snapshots of one case.

    The reference is the uninterrupted run with the same reconstruct() calls.  The interrupted run
    walks through the segments; `cur` is the object that goes on, `pt` the original object (which
    also goes on with the same calls once `cur` is a copy of it).  Alongside, the operation
    sequences of the Coq model are recorded for both, with the index of the operation after which
    each structural snapshot was taken."""
    from .. import c05_toy as T
    cfg = case["cfg"]
    segs, rest = segments(case)
    reset_last = bool(case.get("reset_last"))
    stage = list(case.get("stage") or [])
    stage += [{}] * (len(segs) - len(stage))        # stage[j-1]: segment j >= 1; stage[len(segs)-1]: the remaining iterations
    blind = bool(case.get("blind"))
    from ..c05_stage import model_ops, opt_state
    ostate = opt_state(cfg)
    stage_ops = [model_ops(ostate, chg) for chg in stage]     # None: the model cannot follow from there on
    tag = str(os.getpid())
    prior = case.get("prior")
    T.clean_targets(workdir, tag)
    out = {"prior_rel": []}
    # the uninterrupted run, with the same calls
    ref = T.build(cfg)
    masks = []
    for j, (kj, _) in enumerate(segs):
        if j == 0:
            T.first_call(ref, cfg, kj)
        else:
            T.cont(ref, kj, cfg, stage=stage[j - 1])
        if kj and case.get("stage"):
            masks.append(T.grad_mask(ref))
    T.cont(ref, rest, cfg, reset=reset_last, stage=stage[len(segs) - 1])
    out["ref"] = T.numeric_obs(ref)
    out["mask"] = T.grad_mask(ref)
    # the model runs a history under ONE gradient mask (which parameters receive a gradient).  A changed setting can
    # change it (a constant descan: the shifts stop receiving gradients): the model then follows the trace under the
    # mask of stage 1 up to the first changed call only (the oracle judges the whole history as always)
    if any(any(row) and row != frow for m_ in masks for row, frow in zip(m_, out["mask"])):
        out["mask"] = masks[0]
        stage_ops = [None if chg else sops for chg, sops in zip(stage, stage_ops)]
        out["mask_changes"] = True
    out["nparams"] = T.nparams(ref)
    out["s_ref"] = T.structure(ref)
    del ref
    # the interrupted run
    pt = T.build(cfg)
    cur = pt
    ops_cur = set_ops(cfg)
    ops_live = None            # None while `cur is pt`
    snaps_cur, snaps_live = [], []
    reports = []
    shares = None

    def snap(lst, ops, obj, label):
        if ops and None not in ops:
            lst.append((len(ops) - 1, label, T.structure(obj)))

    def stage_into(ops, sops):
        if sops is None:
            ops.append(None)       # marker: no structural snapshot is compared with the model after this point
        else:
            ops.extend(sops)

    for j, (kj, atoms) in enumerate(segs):
        if j == 0:
            T.first_call(cur, cfg, kj)
        else:
            T.cont(cur, kj, cfg, stage=stage[j - 1])
            if cur is not pt:
                T.cont(pt, kj, cfg, stage=stage[j - 1])
            stage_into(ops_cur, stage_ops[j - 1])
            if ops_live is not None:
                stage_into(ops_live, stage_ops[j - 1])
        ops_cur += ["OpIter"] * kj
        snap(snaps_cur, ops_cur, cur, "after %d iterations of segment %d" % (kj, j))
        if ops_live is not None:
            ops_live += ["OpIter"] * kj
            snap(snaps_live, ops_live, pt, "after %d iterations of segment %d" % (kj, j))
        if j == 0:
            out["s_k"] = T.structure(cur)
        for atom in atoms:
            # blind: nothing is read from the objects around the checkpoint (reading `.obj` / `.probe` is a call too)
            before = None if blind else T.numeric_obs(cur)
            if atom != "to" and T.int_then_frac(cur):
                out["int_then_frac_at_save"] = True      # coverage statistic only
            if prior and atom in SAVING and not out["prior_rel"]:
                out["prior_rel"] = T.prior_relation(prior, cfg, int(cur.num_iters))
            new = T.interrupt(cur, atom, workdir, tag=tag, cfg=cfg, prior=prior)
            if cur is pt and new is not pt:
                ops_live = list(ops_cur) + ([LIVE_OP[atom]] if LIVE_OP[atom] else [])
                snaps_live = list(snaps_cur)
                snap(snaps_live, ops_live, pt, "after %s" % atom)
            ops_cur.append(VIA_OP[atom])
            if not blind:
                reports.append((atom, T.numeric_obs(new), before))
            cur = new
            snap(snaps_cur, ops_cur, cur, "after %s" % atom)
            if cur is not pt and not shares:
                shares = T.shares_cells(cur, pt)
    T.clean_targets(workdir, tag)
    out["s_q"] = T.structure(cur)
    out["s_live"] = T.structure(pt)
    out["reports"] = reports
    out["shares"] = shares
    last = stage[len(segs) - 1]
    T.cont(cur, rest, cfg, reset=reset_last, stage=last)
    stage_into(ops_cur, stage_ops[len(segs) - 1])
    ops_cur += ["OpIter"] * rest
    if not reset_last:         # reset_recon is not an operation of the model
        snap(snaps_cur, ops_cur, cur, "after the remaining %d iterations" % rest)
    out["s_qn"] = T.structure(cur)
    out["resumed"] = T.numeric_obs(cur)
    out["separate_live"] = cur is not pt
    if cur is not pt:
        T.cont(pt, rest, cfg, reset=reset_last, stage=last)
        stage_into(ops_live, stage_ops[len(segs) - 1])
        ops_live += ["OpIter"] * rest
        if not reset_last:
            snap(snaps_live, ops_live, pt, "after the remaining %d iterations" % rest)
        out["shares_after"] = T.shares_cells(cur, pt)
    else:
        out["shares_after"] = None
    out["s_liven"] = T.structure(pt)
    out["live"] = T.numeric_obs(pt)
    # the model follows a trace up to the first setting it has no operation for
    cut = lambda ops: None if ops is None else ops[:ops.index(None)] if None in ops else ops   # noqa: E731
    out["ops_cur"], out["snaps_cur"] = cut(ops_cur), snaps_cur
    out["ops_live"], out["snaps_live"] = cut(ops_live), snaps_live
    return out


def classify(msg):
    for pat, key in (("iteration count", "iteration-count"), ("loss history", "loss-history"),
                     ("lr history", "lr-history"), ("constraints", "constraints"), ("obj", "object"),
                     ("probe", "probe"), ("validation loss", "val-loss-history"), ("snapshot", "snapshots"),
                     ("dataset", "dataset-parameters")):
        if msg.startswith(pat):
            return key
    return "other"


def oracle(case, res):
    """the property text on the implementation: list of (key, what)"""
    from .. import c05_toy as T
    cfg = case["cfg"]
    atoms = atoms_of(case)
    vk = via_key(case)
    bad = []
    # (1) whatever comes out of an interruption reports the state that went in: iteration count,
    #     losses, lr history, constraints, object, probe (+ the histories kept next to them:
    #     validation losses, snapshots; + the learned dataset parameters)
    for atom, after, before in res["reports"]:
        kind = "clone" if atom.startswith("clone") else "to" if atom == "to" else "reload"
        m = T.compare_numeric(after, before, TOL_REPORT, exact_hist=True)
        if m:
            noun = {"clone": "cloned", "to": "moved (.to)", "reload": "reloaded"}[kind]
            verb = {"clone": "cloned", "to": "there before", "reload": "saved"}[kind]
            bad.append(("%s-reported-%s" % (kind, classify(m)),
                        "the %s object does not report the state that was %s (%s): %s" % (noun, verb, atom, m)))
            break
    # (2) resume equivalence.  A checkpoint written WITHOUT the raw data does not contain the dataset
    #     model, hence not its optimiser: when the dataset is optimised that route is outside
    #     "saving it together with its data" and only (1) is judged for it.
    in_domain = not (any(a in META for a in atoms) and "dataset" in cfg["optimise"])
    # Adam-family optimiser on the dataset model: +-lr per iteration on numerically-zero gradient components
    # (see c05_toy.compare_extra); thorough-tier false alarm of session 4 (8.6e-4 px with every loss equal to 1e-7)
    ds_slack = 0.0
    if "dataset" in cfg["optimise"] and str(cfg["opt"]).startswith("adam"):
        try:
            ds_slack = 1.5 * float(cfg["lr"]["dataset"]) * int(case["n"])
        except Exception:  # noqa
            ds_slack = 0.0
    if in_domain:
        m = T.compare_numeric(res["resumed"], res["ref"], TOL, ARR_L2, ARR_MAX, dataset_slack=ds_slack)
        if m:
            bad.append(("%s-resume-%s" % (vk, classify(m)),
                        "%s differs from the uninterrupted run: %s" % (describe_calls(case), m)))
    # (3) the original object goes on as if nothing had happened
    if res["separate_live"]:
        m = T.compare_numeric(res["live"], res["ref"], TOL, ARR_L2, ARR_MAX, dataset_slack=ds_slack)
        if m:
            first = atoms[[a != "to" for a in atoms].index(True)]
            bad.append(("live-after-%s-%s" % ("clone" if first == "clone" else "save", classify(m)),
                        "the original object, continued after %s, differs from the uninterrupted run: %s" % (
                            "clone()" if first == "clone" else "save()", m)))
    # (4) nothing is shared
    for tag in ("shares", "shares_after"):
        if res[tag]:
            kind = "clone" if atoms[-1].startswith("clone") else "reload"
            bad.append(("%s-shares-%s" % (kind, res[tag].replace(" ", "-")),
                        "the %s object shares its %s with the original" % (
                            "cloned" if kind == "clone" else "reloaded", res[tag])))
            break
    return bad


def describe_calls(case):
    segs, rest = segments(case)
    st = list(case.get("stage") or []) + [{}] * len(segs)

    def with_(c):
        c = {k_: v_ for k_, v_ in (c or {}).items() if k_ != "kind"}
        return " with %s" % json.dumps(c, sort_keys=True) if c else ""

    return "; ".join("run %d%s; %s" % (k, with_(st[j - 1]) if j else "", ">".join(at)) for j, (k, at) in enumerate(segs)) + (
        "; run %d%s%s" % (rest, with_(st[len(segs) - 1]), " (reset=True)" if case.get("reset_last") else ""))


# ------------------------------------------------------------------------------------------
# the model side


def coq_expr(case, res, live):
    ops = res["ops_live"] if live else res["ops_cur"]
    snaps = res["snaps_live"] if live else res["snaps_cur"]
    mask = "[" + "; ".join("[" + "; ".join(cbool(b) for b in row) + "]" for row in res["mask"]) + "]"
    spec = "[" + "; ".join("(%d%%nat, %d%%Z)" % (np_, 10 + i) for i, np_ in enumerate(res["nparams"])) + "]"
    return "pick %s %s [%s] %s [%s]" % (mask, cbool(WRITTEN), "; ".join(ops), spec,
                                        "; ".join("%d%%nat" % i for i, _, _ in snaps))


def canon_struct(s):
    """python structure() -> the shape of the model's `show (sobs _)`"""
    models = []
    for nm in ("object", "probe", "dataset"):
        m = s[nm]
        if m is None:
            models.append(None)
            continue
        sched = (-1, 0) if m["sched"] is None else ((1 if m["sched"][0] else 0), m["sched"][1])
        models.append(("Some", (m["nparams"], list(m["refs"]), [tuple(e) for e in m["state"]], sched)))
    lrs = {MODEL_IDX[kk]: v for kk, v in s["n_lrs"].items()}
    return models, s["n_losses"], lrs


def canon_model(v):
    """parsed Coq value of one checkpoint -> comparable shape"""
    if v is None:
        return None
    assert isinstance(v, tuple) and v[0] == "Some", v
    models, nl, lrs = v[1]
    return list(models), nl, {a: b for a, b in lrs}


# ------------------------------------------------------------------------------------------


def describe(case):
    c = case["cfg"]
    extra = "".join(" %s" % f for f in ("snapshots", "val_grid", "rich_constraints") if c.get(f))
    if case.get("more"):
        extra += " more=%s" % case["more"]
    if case.get("reset_last"):
        extra += " reset_last"
    if case.get("prior"):
        extra += " target_holds_earlier_checkpoint=%s(%s)" % (case["prior"]["kind"], case["prior"].get("form", "str"))
    if c.get("cons1"):
        extra += " stage1_constraints=%s" % json.dumps(c["cons1"], sort_keys=True)
    if c.get("obj_constraints"):
        extra += " stage1_object_constraints=%s" % json.dumps(c["obj_constraints"], sort_keys=True)
    if case.get("stage"):
        extra += " STAGED[%s]%s" % ("; ".join(json.dumps({k_: v_ for k_, v_ in ch.items() if k_ != "kind"}, sort_keys=True)
                                              for ch in case["stage"]), " blind" if case.get("blind") else "")
    if c.get("num_form"):
        extra += " lr=%s forms=%s" % ({k_: c["lr"][k_] for k_ in c["optimise"]}, {k_: c["num_form"].get(k_, "float") for k_ in c["optimise"]})
    return "opt=%s sched=%s obj=%s probes=%d optimise=%s tilt=%s slices=%d scan=%s n=%d k=%d via=%s%s" % (
        c["opt"], c["sched"], c["obj_type"], c["num_probes"], "+".join(c["optimise"]), c["learn_probe_tilt"],
        c["num_slices"], tuple(c["scan"]), case["n"], case["k"], case["via"], extra)


def run(ctx: Ctx):
    ctx.hash_sources("diffractive_imaging/ptychography.py",
                     ["Ptychography.save", "Ptychography.from_file", "Ptychography.clone",
                      "Ptychography.reconstruct", "Ptychography._record_iter"])
    ctx.hash_sources("diffractive_imaging/ptychography_base.py", ["PtychographyBase.to", "PtychographyBase.reset_recon"])
    ctx.hash_sources("diffractive_imaging/ptychography_opt.py",
                     ["PtychographyOpt.set_optimizers", "PtychographyOpt.set_schedulers",
                      "PtychographyOpt.step_optimizers", "PtychographyOpt.step_schedulers"])
    ctx.hash_sources("core/ml/optimizer_mixin.py",
                     ["OptimizerMixin.reconnect_optimizer_to_parameters", "OptimizerMixin.set_optimizer",
                      "OptimizerMixin.set_scheduler", "OptimizerMixin.remove_optimizer",
                      "OptimizerMixin.step_scheduler"])
    ctx.hash_sources("core/io/serialize.py", ["AutoSerialize._serialize_value", "AutoSerialize._recursive_save"])
    # round 3: further anchored definitions.  (Spelt with `./` so that they form entries of their own: names
    # added to a file that already has a baseline entry would count as drift until the baseline is regenerated.)
    ctx.hash_sources("diffractive_imaging/./ptychography_base.py",
                     ["PtychographyBase._store_current_iter_snapshot", "PtychographyBase.constraints"])
    ctx.hash_sources("core/utils/rng.py", ["RNGMixin._rng_to_device", "RNGMixin._reset_rng", "RNGMixin._update_torch_rng"])
    ctx.hash_sources("diffractive_imaging/dataset_models.py",
                     ["PtychographyDatasetRaster._set_initial_scan_positions_px", "PtychographyDatasetBase.reset"])
    ctx.cov["rule"] = (
        "a case = (configuration, n, k, via): toy reconstruction (2x2..3x3 scan, 8x8 patterns) with optimiser in "
        "{sgd, sgd+momentum, adam, adamw} x learning rates, scheduler in {none, exp, linear, plateau, cyclic}, "
        "object type in {complex, pure_phase, potential}, 1-2 probe modes, 1-2 slices, optimised models in "
        "{object, probe, dataset} subsets, probe tilt learned or not, n in 1..8 full-batch iterations split at every "
        "kind of k in 0..n, interrupted via zip store / dir store / zip + from_file(device) / clone (deepcopy) / "
        "clone through the serialise fallback; round 3: also save() WITHOUT the raw data + from_file(path, dset=...) "
        "(zip / dir / with device: the _dataset_metadata route), .to() between two reconstruct() calls, SEVERAL "
        "interruptions in a row (save>load>save>load, clone of a clone, ...) and further interruptions after more "
        "iterations, snapshots stored every iteration (compared per iteration), a deterministic validation split "
        "(sgd family), non-default constraints on object / probe / dataset, learned probe tilt with 2 slices, a "
        "continuation call with reset=True, potential objects that start from a seeded positive array (a uniform "
        "zero potential never moves in the toy problem); round 4: the numeric FORM of the hyper-parameters per optimised "
        "model in {float, int, np.int64, np.int32, np.float32, np.float64} (learning rate, momentum, gamma / factor / "
        "threshold / min_lr / start_factor / end_factor / base_lr / max_lr; an integer form is applied to integer values: "
        "a learning rate of 1 with the sgd family - exp and plateau schedulers then make it fractional -, end_factor = 1 "
        "otherwise); round 5: CHECKPOINT TARGETS WITH A HISTORY - in about 30% of the cases (every second case that has a "
        "saving interruption, plus 4 corpus cases) every save(mode='o') of the case goes onto a target that already holds an "
        "earlier checkpoint of a DIFFERENT reconstruction state written by the library's save() with the same store (7 kinds: "
        "all three models optimised + 7 iterations + a snapshot per iteration; two slices + two probe modes + learned tilt; "
        "probe only + potential object; object + dataset, 2 iterations; written WITHOUT the raw data; object only + "
        "validation history; never iterated), zip and directory stores, target given as str or pathlib.Path, later saves of "
        "the same case land on the run's own earlier checkpoint; round 7: STAGED RUNS - in about 27% of the cases (5 corpus cases + every "
        "third generated one) ONE continuation call changes settings relative to stage 1, identically for the uninterrupted run, the "
        "continued copy and the live original: a constraint entry (object q_lowpass / q_highpass / butterworth_order / gaussian_sigma of a "
        "filter that stage 1 made active: switched on / off / one parameter altered; tv weights; fov mask; slices / potential entries; probe "
        "and dataset entries), several entries, optimiser type, learning rates, one more optimised model, a subset, one optimiser off, the "
        "scheduler alone or with the optimisers, a full-batch batch size (N, N+3, 4N), the loss type, explicit reset=False, device; half of "
        "the staged cases BLIND (nothing read from any object between the checkpoint and the next call); round 8: STAGE-1 CONSTRAINT DICTIONARIES WITH "
        "NON-DEFAULT VALUES of every entry - in about 38% of the generated cases (5 of every 13) + 2 corpus cases the first call sets, on the "
        "object, the probe and the dataset, a random subset of ALL entries of the three DEFAULT_CONSTRAINTS (one entry, cycled through all "
        "19, certainly present) to non-default values that flip the truthiness of the default wherever possible: False / 0 / 0.0 over a truthy "
        "default (positivity, fix_potential_baseline_factor, butterworth_order while no filter is active, orthogonalize_probe, "
        "clip_scan_positions), True / 1 / a positive weight or radius over a falsy one (False, 0, 0.0, None); the continuation relies on "
        "them being carried over (no constraints argument), passes the same dictionaries again with every call, or changes one setting and "
        "relies on the rest; the constraint dictionaries are compared model by model and entry by entry; 31 fixed corpus cases first, then a seeded stream cycling "
        "through every value of every dimension.  Distinct by (configuration, n, k, via, more); non-trivial when "
        "0 < k < n and at least one optimiser keeps per-parameter state or a scheduler is attached.")
    ctx.assumptions += [
        "PARTIAL CLAIM: state machine proved; numerical resume equivalence validated by differential runs "
        "(loss / lr histories %.0e relative; object / probe %.0e relative Frobenius and %.0e max-norm; float32), "
        "not proved" % (TOL, ARR_L2, ARR_MAX),
        "torch.save/torch.load of a module preserve tensor values, optimizer.state and the sharing inside one "
        "pickle; copy.deepcopy preserves sharing inside one object graph (oracle contracts, exercised by every case)",
        "torch CPU kernels are deterministic functions of their inputs (single thread enforced by the harness)",
        "the store (zarr tree / zip archive) is not modelled: for a save onto a target that holds an earlier checkpoint the "
        "oracle on the implementation decides (the model's save+from_file is the identity on the view whatever the target held)",
        "full-batch updates only: the mini-batch order is re-seeded on load and is outside the claim; so is a RANDOM "
        "validation split (drawn from the same generator at every reconstruct() call); the deterministic grid split "
        "is inside and exercised with the sgd family only (with Adam, pixels seen only by held-out positions get "
        "rounding-sized gradients whose normalisation amplifies alignment-dependent float32 noise to 1e-4)",
        "a checkpoint written without the raw data (save_raw_data=False) does not contain the dataset model: when "
        "the dataset is optimised its optimiser is gone after from_file(path, dset=...), so for that route only the "
        "reported state and the persistence of the learned scan positions / descan shifts are judged (in Coq: "
        "C05_meta_route_refuted_when_dataset_optimised); the dataset supplied at load time is the same data, freshly "
        "preprocessed, with default dataset constraints",
        "integer learning rates (value 1) are generated with the sgd family only: Adam / AdamW at lr = 1 is a chaotic "
        "regime on the toy problem in which two runs that differ only in memory alignment (a deepcopy BEFORE the first "
        "iteration) drift apart by 2e-4; with the Adam family the integer forms reach the other integer-valued "
        "hyper-parameters, the NumPy float forms reach everything",
        "the model is the code with the state re-keyed by parameter (fixes/C05-reconnect-rekey-by-parameter.diff); "
        "for the positional re-keying of the pinned commit the resume theorem is refuted in Coq "
        "(C05_resume_equiv_as_written_refuted) and reproduced here by the learn_probe_tilt corpus case",
    ]
    ctx.cov["trusted_base"] += [
        "Coq 8.16.1 kernel incl. vm_compute (used to run the model and in the concrete witnesses)",
        "hand-written model coq/model/C05_Model.v, tied to /repo by the structural correspondence of this run and, for "
        "the effect order of reconnect / to / save / the iteration body / _record_iter and the reset / snapshot attribute "
        "lists, by the source tie re-proved on this run (harness/c05_tie.py, coq/model/C05_Tie_Model.v interpreters)",
        "the numerical kernels (forward/backward, torch.optim update rules, lr_scheduler rules) are universally "
        "quantified functions in the theorems, NOT modelled: their resume behaviour is covered by the differential runs only",
        "harness/props/C05.py, harness/c05_toy.py (drivers, observable extraction), harness/toy_ptycho.py (simulated data), harness/common.py",
    ]
    ctx.proofs_or_violation()
    ctx.hash_sources("diffractive_imaging/./ptychography.py", ["Ptychography.reset_recon"])
    try:  # round 4: the state-machine facts the model assumes about the code (effect order of reconnect / to / save,
        # the iteration body, _record_iter, reset_recon and snapshot attribute lists) are read off the CURRENT source
        # and proved to be the model's, on every run (coq/gen_proofs/C05_Gen*.v)
        from ..c05_tie import run_tie
        run_tie(ctx, n_cross=200 if ctx.quick else 1000)
    except Exception as e:  # noqa  (fail closed: the tie could not be established)
        ctx.broken_obligation = "; ".join(filter(None, [ctx.broken_obligation, "source tie could not run: %r" % (e,)]))

    _prepare()
    from .. import c05_toy as T  # noqa
    cases = gen_cases(ctx)
    workdir = tempfile.mkdtemp(prefix="c05_")
    results, exprs = [], []
    max_dev = {"reload": 0.0, "clone": 0.0, "live": 0.0}
    n_ok = 0
    for ci, case in enumerate(cases):
        cfg = case["cfg"]
        key = json.dumps(case, sort_keys=True, default=list)
        stateful = cfg["opt"] != "sgd" or cfg["sched"] != "none"
        ctx.count(key, nontrivial=(0 < case["k"] < case["n"]) and stateful)
        for d in ("opt", "sched", "obj_type", "num_probes"):
            ctx.dist("%s=%s" % (d, cfg[d]))
        for a_ in atoms_of(case):
            ctx.dist("via=%s" % a_)
        if case.get("more") or ">" in case["via"]:
            ctx.dist("several_interruptions")
        for f_ in ("snapshots", "val_grid", "rich_constraints"):
            if cfg.get(f_):
                ctx.dist(f_)
        if case.get("reset_last"):
            ctx.dist("continuation_with_reset")
        if cfg.get("cons1"):
            from ..c05_stage import cons1_flips
            ctx.dist("stage1_nondefault_constraints")
            for m_, d_ in sorted(cfg["cons1"].items()):
                for k_ in sorted(d_):
                    ctx.dist("stage1_nondefault_constraints/entry=%s.%s" % (m_, k_))
            for f_ in cons1_flips(cfg["cons1"]):
                ctx.dist("stage1_nondefault_constraints/flips_truthiness=%s" % f_.split("=")[0])
            if any(f_.endswith("=falsy(default truthy)") for f_ in cons1_flips(cfg["cons1"])):
                ctx.dist("stage1_nondefault_constraints/some_entry_falsy_over_truthy_default")
            kinds_ = {ch_.get("kind") for ch_ in case.get("stage", []) if ch_}
            ctx.dist("stage1_nondefault_constraints/continuation=%s" % (
                "carried_over(no_constraints_argument)" if not kinds_ else
                "passed_again" if kinds_ == {"cons/repass_stage1"} else "one_setting_changed_others_carried_over"))
        if case.get("stage"):
            ctx.dist("staged")
            ctx.dist("staged/%s" % ("blind(nothing_read_between_checkpoint_and_next_call)" if case.get("blind") else "observed"))
            for ch_ in case["stage"]:
                if ch_:
                    ctx.dist("staged/change=%s" % ch_.get("kind", "?"))
                    for m_, d_ in sorted(ch_.get("constraints", {}).items()):
                        for k_ in sorted(d_):
                            ctx.dist("staged/constraint_entry=%s.%s" % (m_, k_))
                    for f_ in ("opt", "sched", "batch", "loss_type", "reset_false", "device"):
                        if f_ in ch_:
                            ctx.dist("staged/setting=%s" % f_)
            for k_ in sorted(cfg.get("obj_constraints") or {}):
                ctx.dist("staged/stage1_filter_entry=%s" % k_)
        if cfg["learn_probe_tilt"] and cfg["num_slices"] == 2:
            ctx.dist("probe_tilt_learned+2slices")
        ctx.dist("optimise=%s" % "+".join(cfg["optimise"]))
        ctx.dist("split=%s" % ("k=0" if case["k"] == 0 else "k=n" if case["k"] == case["n"] else "0<k<n"))
        if cfg["learn_probe_tilt"]:
            ctx.dist("probe_tilt_learned")
        fm = [(cfg.get("num_form") or {}).get(k_, "float") for k_ in cfg["optimise"]]
        for f_ in sorted(set(fm)):
            ctx.dist("hyperparameter_form=%s" % f_)
        if any(isinstance(cfg["lr"][k_], int) for k_ in cfg["optimise"]):
            ctx.dist("integer_lr")
        if case.get("prior"):
            ctx.dist("target_with_history")
            ctx.dist("target_with_history/kind=%s" % case["prior"]["kind"])
            ctx.dist("target_with_history/path_form=%s" % case["prior"].get("form", "str"))
            for st_ in sorted({"dir" if a_ in ("dir", "meta_dir") else "zip" for a_ in atoms_of(case) if a_ in SAVING}):
                ctx.dist("target_with_history/store=%s" % st_)
            if sum(a_ in SAVING for a_ in atoms_of(case)) > 1:
                ctx.dist("target_with_history/later_save_lands_on_own_earlier_checkpoint")
        try:
            res = run_case(case, workdir)
        except Exception as e:  # the implementation crashed on a valid history
            import traceback
            ctx.violation("case-raises-%s" % type(e).__name__,
                          "the implementation raised %s: %s on %s" % (type(e).__name__, e, describe(case)),
                          {"kind": "case", "case": case, "traceback": traceback.format_exc()})
            results.append(None)
            continue
        bad = oracle(case, res)
        res["bad"] = bad
        if res.get("mask_changes"):
            ctx.dist("staged/change_alters_which_parameters_receive_gradients(model_follows_up_to_it)")
        if res.get("int_then_frac_at_save"):
            ctx.dist("saved_lr_history_starts_integer_turns_fractional")
        for rel_ in res["prior_rel"]:
            ctx.dist("target_with_history/earlier_has_%s" % rel_)
        for bkey, what in bad:
            ctx.violation(bkey, what + "  [" + describe(case) + "]", {"kind": "case", "case": case})
        if not bad:
            n_ok += 1
            kind = "clone" if atoms_of(case)[-1].startswith("clone") else "reload"
            if not (any(a_ in META for a_ in atoms_of(case)) and "dataset" in cfg["optimise"]):
                for nm in ("obj", "probe"):
                    max_dev[kind] = max(max_dev[kind], T.rel(res["resumed"][nm], res["ref"][nm]))
                    max_dev["live"] = max(max_dev["live"], T.rel(res["live"][nm], res["ref"][nm]))
                max_dev["positions_px"] = max(max_dev.get("positions_px", 0.0), float(abs(
                    res["resumed"]["positions"].astype("float64") - res["ref"]["positions"].astype("float64")).max()))
        results.append(res)
        exprs.append(coq_expr(case, res, live=False))
        if res["separate_live"]:
            exprs.append(coq_expr(case, res, live=True))
        if ci in (0, 2, 4, len(cases) - 1):
            ctx.sample({"case": describe(case), "losses_resumed": res["resumed"]["losses"],
                        "losses_uninterrupted": res["ref"]["losses"], "lrs_resumed": res["resumed"]["lrs"],
                        "structure_after_interrupt": res["s_q"], "oracle": [b[0] for b in bad] or "holds"})
        for big in ("ref", "resumed", "live", "reports"):
            res.pop(big, None)        # the numeric observations are not needed for the correspondence
    try:
        import shutil
        shutil.rmtree(workdir, ignore_errors=True)
    except Exception:
        pass
    ctx.log("oracle: %d cases, %d hold; max rel deviation from the uninterrupted run: %s" % (
        len(cases), n_ok, {k: "%.2e" % v for k, v in max_dev.items()}))
    ctx.cov["max_rel_deviation_observed"] = max_dev
    ctx.cov["tolerance"] = {"resume_histories_maxnorm": TOL, "resume_arrays_frobenius": ARR_L2, "resume_arrays_maxnorm": ARR_MAX, "reported": TOL_REPORT}

    vals = ctx.coq_eval("struct", PRE, exprs, shard=24) if exprs else []
    vi = 0
    nd = 0
    n_ck = 0
    for case, res in zip(cases, results):
        if res is None:
            continue
        v_q = vals[vi]
        vi += 1
        pairs = [("continued copy", v_q, res["snaps_cur"])]
        if res["separate_live"]:
            pairs.append(("live original", vals[vi], res["snaps_live"]))
            vi += 1
        for label, v, snaps in pairs:
            ctx.cov["traces_validated_against_impl"] += 1
            # a checkpoint written WITHOUT the raw data does not contain the dataset model (nor its optimiser /
            # scheduler): that route is outside "saving it together with its data" (the oracle does not judge it
            # either), and the model has no operation for re-attaching a dataset: its entry is not compared there
            no_ds = any(a in META for a in atoms_of(case))
            for mv, (_i, name, snap) in zip(v, snaps):
                want = canon_struct(snap)
                got = canon_model(mv)
                if no_ds and got is not None:
                    want = (list(want[0][:2]), want[1], {k: x for k, x in want[2].items() if k != MODEL_IDX["dataset"]})
                    got = (list(got[0][:2]), got[1], {k: x for k, x in got[2].items() if k != MODEL_IDX["dataset"]})
                n_ck += 1
                if got != want:
                    nd += 1
                    ctx.cov["disagreements_checked"] += 1
                    ctx.violation(
                        "structure-correspondence",
                        "structural observables of the %s %s differ from the model: implementation %s, model %s  [%s]"
                        % (label, name, want, got, describe(case)),
                        {"kind": "case", "case": case, "impl": repr(want), "model": repr(got), "which": label,
                         "checkpoint": name},
                        found_input=bool(res["bad"]))
                    break
    ctx.cov["structural_checkpoints_compared"] = n_ck
    ctx.log("correspondence: %d traces, %d disagreements" % (ctx.cov["traces_validated_against_impl"], nd))


def replay(ctx: Ctx, path):
    rp = json.loads(open(path).read())
    if rp.get("kind") != "case":
        print("replay of kind %r: re-run ./check C05" % rp.get("kind"))
        return 0
    _prepare()
    case = rp["case"]
    case["cfg"]["scan"] = tuple(case["cfg"]["scan"])
    workdir = tempfile.mkdtemp(prefix="c05_")
    print("case:", describe(case))
    res = run_case(case, workdir)
    bad = oracle(case, res)
    print("uninterrupted losses:", res["ref"]["losses"])
    print("resumed       losses:", res["resumed"]["losses"])
    print("live original losses:", res["live"]["losses"])
    print("uninterrupted lrs:", res["ref"]["lrs"])
    print("resumed       lrs:", res["resumed"]["lrs"])
    print("calls:", describe_calls(case))
    print("structure after first %d iterations:" % case["k"], res["s_k"])
    print("structure after %s (continued copy):" % case["via"], res["s_q"])
    print("structure after %s (live original):" % case["via"], res["s_live"])
    try:
        ex = [coq_expr(case, res, False)] + ([coq_expr(case, res, True)] if res["separate_live"] else [])
        v = ctx.coq_eval("replay", PRE, ex)
        print("model ops (continued copy):", res["ops_cur"])
        print("model (continued copy):", v[0])
        if res["separate_live"]:
            print("model ops (live original):", res["ops_live"])
            print("model (live original):", v[1])
    except Exception as e:  # noqa
        print("model evaluation failed:", e)
    for k_, what in bad:
        print("ORACLE FAILS [%s]: %s" % (k_, what))
    if not bad:
        print("oracle: property holds on this case")
    return 1 if bad else 0
