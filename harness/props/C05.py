"""C05 — checkpoint / resume equivalence for iterative ptychography (save, reload, clone).

PARTIAL: the reconstruction state machine is proved (coq/props/C05_Properties.v); the numerical
resume equivalence is VALIDATED here by differential runs on a toy reconstruction of the real
library.  Two comparisons per case:

  oracle          (the property text on the implementation)  [run k; interrupt; run n-k] vs the
                  uninterrupted [run k; run n-k]: iteration count, loss history, lr history,
                  constraints, object, probe to a stated tolerance; the reloaded/cloned object
                  reports the state that was saved; the object that was saved (or cloned from)
                  continues as if nothing had happened; a clone shares no tensor / optimiser /
                  scheduler / history container with its original.
  correspondence  the STRUCTURAL observables of the real objects (identity of the tensors in
                  optimizer.param_groups with the model's parameters, which parameter every
                  optimizer.state key is, Adam step counters, number of moment buffers,
                  scheduler.optimizer identity and last_epoch, history lengths) after the first
                  k iterations, after the interruption, and after the remaining iterations, on
                  the continued copy and on the live original — against the Coq model
                  (C05_Model.Struct) evaluated on the same operation sequence."""
from __future__ import annotations

import json
import os
import tempfile

from ..common import Ctx, cbool

LEVEL = "proof"
TOL = 5e-6          # relative max-norm tolerance for resumed-vs-uninterrupted loss / lr histories
ARR_L2 = 2e-5       # object / probe arrays: relative Frobenius norm ...
ARR_MAX = 2e-4      # ... and relative max-norm (single barely-illuminated pixels: Adam amplifies float32 noise)
TOL_REPORT = 1e-7   # reported state of the reloaded object vs the saved one (bit-exact in practice)

PRE = """From QV.lib Require Import Prelude.
From QV.model Require Import C05_Model.
Definition show (x : list (option (Z * list Z * list (Z * Z * Z) * (Z * Z))) * Z * list (Z * Z) * list Z
                     * list (list (option Z))) :=
  let '(a, b, c, d, e) := x in (a, b, c).
Definition pick (mask : list (list bool)) (written : bool) (ops : list Struct.op) (spec : list (nat * Z))
                (idx : list nat) :=
  let tr := Struct.trace mask written ops (Struct.init spec) in
  map (fun i => option_map show (nth_error tr i)) idx.
"""

MODEL_IDX = {"object": 0, "probe": 1, "dataset": 2}
KIND = {"sgd": "SGD", "sgd_momentum": "SGDm", "adam": "Adam", "adamw": "AdamW"}
VIA_OP = {"zip": "OpReload false", "dir": "OpReload false", "zip+to": "OpReload true",
          "clone": "OpClone", "clone_fallback": "OpCloneFallback"}
# what happens to the LIVE original object: save() moves it to the CPU and back (clone's
# fallback calls save as well); a deepcopy clone leaves it alone
LIVE_OP = {"zip": "OpSaveContinue", "dir": "OpSaveContinue", "zip+to": "OpSaveContinue",
           "clone": None, "clone_fallback": "OpSaveContinue"}

# the model of the code AS IT SHOULD BE: state re-keyed by parameter
# (fixes/C05-reconnect-rekey-by-parameter.diff).  `written=true` is the positional re-keying.
WRITTEN = False


# ------------------------------------------------------------------------------------------
# cases


def base_cfg(**kw):
    cfg = dict(scan=(3, 3), data_seed=1, rng_seed=7, obj_type="complex", num_probes=1, opt="adam",
               optimise=["object", "probe"], lr={"object": 1e-2, "probe": 1e-3, "dataset": 1e-3},
               sched="none", learn_probe_tilt=False, num_slices=1)
    cfg.update(kw)
    return cfg


def corpus_cases():
    """fixed regression cases that always run first"""
    out = [
        # parameter 0 of the probe model (the tilt) receives no gradient: the optimiser's state
        # dict has the single key `parameter 1`; positional re-keying moves it to parameter 0
        dict(cfg=base_cfg(learn_probe_tilt=True), n=4, k=2, via="zip"),
        dict(cfg=base_cfg(learn_probe_tilt=True, opt="sgd_momentum", sched="exp"), n=3, k=1, via="clone"),
        # two parameters that both carry state (descan shifts, scan positions)
        dict(cfg=base_cfg(optimise=["object", "probe", "dataset"], opt="adamw", sched="exp"), n=4, k=2, via="dir"),
        dict(cfg=base_cfg(optimise=["object", "probe", "dataset"], opt="adam", sched="plateau", num_probes=2),
             n=4, k=1, via="clone"),
        dict(cfg=base_cfg(opt="adam", sched="exp", obj_type="potential"), n=6, k=3, via="zip"),
        dict(cfg=base_cfg(opt="adam", sched="linear", obj_type="pure_phase", num_probes=2), n=5, k=2,
             via="clone_fallback"),
        dict(cfg=base_cfg(opt="sgd", sched="cyclic"), n=3, k=0, via="zip+to"),
        dict(cfg=base_cfg(opt="adamw", sched="plateau"), n=3, k=3, via="dir"),
    ]
    from ..common import VERIF
    p = VERIF / "corpus" / "C05" / "corpus.json"
    if p.exists():
        out += json.loads(p.read_text()).get("cases", [])
    return out


def gen_cases(ctx: Ctx):
    r = ctx.rng
    cases = corpus_cases()
    n_gen = ctx.budget(64, 640)

    def cyc(vals):
        vals = list(vals)
        r.shuffle(vals)
        return vals

    opts = cyc(["sgd", "sgd_momentum", "adam", "adamw", "adam", "adamw"])
    scheds = cyc(["none", "exp", "linear", "plateau", "cyclic"])
    objs = cyc(["complex", "pure_phase", "potential"])
    vias = cyc(["zip", "dir", "zip+to", "clone", "clone_fallback", "zip", "clone"])
    optimise = cyc([["object", "probe"], ["object", "probe"], ["object"], ["probe"], ["object", "probe", "dataset"],
                    ["object", "dataset"]])
    for i in range(n_gen):
        n = r.choice([2, 3, 4, 5] if ctx.quick else [1, 2, 3, 4, 5, 6, 8])
        k = r.choice([0, n, r.randint(0, n), r.randint(1, max(1, n - 1)), r.randint(1, max(1, n - 1))])
        cfg = base_cfg(
            scan=r.choice([(3, 3), (2, 3), (3, 2), (2, 2)]),
            data_seed=r.randrange(1, 90), rng_seed=r.randrange(1, 1 << 16),
            opt=opts[i % len(opts)], sched=scheds[i % len(scheds)], obj_type=objs[i % len(objs)],
            num_probes=1 + (i // 2) % 2,
            optimise=list(optimise[i % len(optimise)]),
            lr={"object": r.choice([5e-3, 1e-2, 2e-2]), "probe": r.choice([5e-4, 1e-3, 2e-3]),
                "dataset": r.choice([5e-4, 1e-3])},
            learn_probe_tilt=(i % 7 == 3), num_slices=2 if i % 9 == 4 else 1,
        )
        cases.append(dict(cfg=cfg, n=n, k=k, via=vias[i % len(vias)]))
    return cases


# ------------------------------------------------------------------------------------------
# running one case on the real library


_FROZEN = [False]


def _prepare():
    import gc
    import warnings
    import torch
    torch.set_num_threads(1)
    warnings.filterwarnings("ignore")
    if not _FROZEN[0]:
        # reconstruct() calls gc.collect() twice; with torch and quantem imported a full
        # collection costs ~0.2 s.  Freezing the objects that exist after a warm-up run (all
        # lazy imports done) makes it cheap; no semantic effect.
        from .. import c05_toy as T
        cfg = base_cfg()
        pt = T.build(cfg)
        T.first_call(pt, cfg, 1)
        wd = tempfile.mkdtemp(prefix="c05_warm_")
        T.interrupt(pt, "zip", wd)
        T.interrupt(pt, "clone", wd)
        import shutil
        shutil.rmtree(wd, ignore_errors=True)
        del pt
        gc.collect()
        gc.freeze()
        _FROZEN[0] = True


def run_case(case, workdir):
    """returns a dict with the numeric observations and structural snapshots of one case"""
    from .. import c05_toy as T
    cfg, n, k, via = case["cfg"], case["n"], case["k"], case["via"]
    out = {}
    # the uninterrupted run, with the same calls
    ref = T.build(cfg)
    T.first_call(ref, cfg, k)
    T.cont(ref, n - k)
    out["ref"] = T.numeric_obs(ref)
    out["mask"] = T.grad_mask(ref)
    out["nparams"] = T.nparams(ref)
    out["s_ref"] = T.structure(ref)
    del ref
    # the interrupted run
    pt = T.build(cfg)
    T.first_call(pt, cfg, k)
    out["s_k"] = T.structure(pt)
    out["saved"] = T.numeric_obs(pt)
    q = T.interrupt(pt, via, workdir, tag=str(os.getpid()))
    out["s_q"] = T.structure(q)
    out["s_live"] = T.structure(pt)
    out["reported"] = T.numeric_obs(q)
    out["shares"] = T.shares_cells(q, pt)
    T.cont(q, n - k)
    out["s_qn"] = T.structure(q)
    out["resumed"] = T.numeric_obs(q)
    T.cont(pt, n - k)
    out["s_liven"] = T.structure(pt)
    out["live"] = T.numeric_obs(pt)
    out["shares_after"] = T.shares_cells(q, pt)
    return out


def classify(msg):
    for pat, key in (("iteration count", "iteration-count"), ("loss history", "loss-history"),
                     ("lr history", "lr-history"), ("constraints", "constraints"), ("obj", "object"),
                     ("probe", "probe")):
        if msg.startswith(pat):
            return key
    return "other"


def oracle(case, res):
    """the property text on the implementation: list of (key, what)"""
    from .. import c05_toy as T
    via = case["via"]
    kind = "clone" if via.startswith("clone") else "reload"
    bad = []
    m = T.compare_numeric(res["reported"], res["saved"], TOL_REPORT)
    if m:
        bad.append(("%s-reported-%s" % (kind, classify(m)),
                    "the %s object does not report the state that was %s: %s" % (
                        "cloned" if kind == "clone" else "reloaded", "cloned" if kind == "clone" else "saved", m)))
    m = T.compare_numeric(res["resumed"], res["ref"], TOL, ARR_L2, ARR_MAX)
    if m:
        bad.append(("%s-resume-%s" % (via.replace("+", "-"), classify(m)),
                    "run %d; %s; run %d differs from the uninterrupted run: %s" % (
                        case["k"], via, case["n"] - case["k"], m)))
    m = T.compare_numeric(res["live"], res["ref"], TOL, ARR_L2, ARR_MAX)
    if m:
        bad.append(("live-after-%s-%s" % ("clone" if via == "clone" else "save", classify(m)),
                    "the original object, continued after %s, differs from the uninterrupted run: %s" % (
                        "clone()" if via == "clone" else "save()", m)))
    for tag in ("shares", "shares_after"):
        if res[tag]:
            bad.append(("%s-shares-%s" % (kind, res[tag].replace(" ", "-")),
                        "the %s object shares its %s with the original" % (
                            "cloned" if kind == "clone" else "reloaded", res[tag])))
            break
    return bad


# ------------------------------------------------------------------------------------------
# the model side


def coq_ops(case, live):
    cfg, n, k, via = case["cfg"], case["n"], case["k"], case["via"]
    ops = []
    for key in cfg["optimise"]:
        ops.append("OpSetOpt %d %s tt %s" % (MODEL_IDX[key], KIND[cfg["opt"]],
                                            "None" if cfg["sched"] == "none" else "(Some tt)"))
    nset = len(ops)
    ops += ["OpIter"] * k
    mid = LIVE_OP[via] if live else VIA_OP[via]
    if mid is not None:
        ops.append(mid)
    i_k = nset + k - 1
    i_mid = len(ops) - 1
    ops += ["OpIter"] * (n - k)
    i_end = len(ops) - 1
    return ops, [i_k, i_mid, i_end]


def coq_expr(case, res, live):
    ops, idx = coq_ops(case, live)
    mask = "[" + "; ".join("[" + "; ".join(cbool(b) for b in row) + "]" for row in res["mask"]) + "]"
    spec = "[" + "; ".join("(%d%%nat, %d%%Z)" % (np_, 10 + i) for i, np_ in enumerate(res["nparams"])) + "]"
    return "pick %s %s [%s] %s [%s]" % (mask, cbool(WRITTEN), "; ".join(ops), spec,
                                        "; ".join("%d%%nat" % i for i in idx))


def canon_struct(s):
    """python structure() -> the shape of the model's `show (sobs _)`"""
    models = []
    for nm in ("object", "probe", "dataset"):
        m = s[nm]
        if m is None:
            models.append(None)
            continue
        sched = (-1, 0) if m["sched"] is None else ((1 if m["sched"][0] else 0), m["sched"][1])
        models.append(("Some", (m["nparams"], list(m["refs"]), [tuple(e) for e in m["state"]], sched)))
    lrs = {MODEL_IDX[kk]: v for kk, v in s["n_lrs"].items()}
    return models, s["n_losses"], lrs


def canon_model(v):
    """parsed Coq value of one checkpoint -> comparable shape"""
    if v is None:
        return None
    assert isinstance(v, tuple) and v[0] == "Some", v
    models, nl, lrs = v[1]
    return list(models), nl, {a: b for a, b in lrs}


# ------------------------------------------------------------------------------------------


def describe(case):
    c = case["cfg"]
    return "opt=%s sched=%s obj=%s probes=%d optimise=%s tilt=%s slices=%d scan=%s n=%d k=%d via=%s" % (
        c["opt"], c["sched"], c["obj_type"], c["num_probes"], "+".join(c["optimise"]), c["learn_probe_tilt"],
        c["num_slices"], tuple(c["scan"]), case["n"], case["k"], case["via"])


def run(ctx: Ctx):
    ctx.hash_sources("diffractive_imaging/ptychography.py",
                     ["Ptychography.save", "Ptychography.from_file", "Ptychography.clone",
                      "Ptychography.reconstruct", "Ptychography._record_iter"])
    ctx.hash_sources("diffractive_imaging/ptychography_base.py", ["PtychographyBase.to", "PtychographyBase.reset_recon"])
    ctx.hash_sources("diffractive_imaging/ptychography_opt.py",
                     ["PtychographyOpt.set_optimizers", "PtychographyOpt.set_schedulers",
                      "PtychographyOpt.step_optimizers", "PtychographyOpt.step_schedulers"])
    ctx.hash_sources("core/ml/optimizer_mixin.py",
                     ["OptimizerMixin.reconnect_optimizer_to_parameters", "OptimizerMixin.set_optimizer",
                      "OptimizerMixin.set_scheduler", "OptimizerMixin.remove_optimizer",
                      "OptimizerMixin.step_scheduler"])
    ctx.hash_sources("core/io/serialize.py", ["AutoSerialize._serialize_value", "AutoSerialize._recursive_save"])
    ctx.cov["rule"] = (
        "a case = (configuration, n, k, via): toy reconstruction (2x2..3x3 scan, 8x8 patterns) with optimiser in "
        "{sgd, sgd+momentum, adam, adamw} x learning rates, scheduler in {none, exp, linear, plateau, cyclic}, "
        "object type in {complex, pure_phase, potential}, 1-2 probe modes, 1-2 slices, optimised models in "
        "{object, probe, dataset} subsets, probe tilt learned or not, n in 1..8 full-batch iterations split at every "
        "kind of k in 0..n, interrupted via zip store / dir store / zip + from_file(device) / clone (deepcopy) / "
        "clone through the serialise fallback; 8 fixed corpus cases first, then a seeded stream cycling through "
        "every value of every dimension.  Distinct by (configuration, n, k, via); non-trivial when 0 < k < n and "
        "at least one optimiser keeps per-parameter state or a scheduler is attached.")
    ctx.assumptions += [
        "PARTIAL CLAIM: state machine proved; numerical resume equivalence validated by differential runs "
        "(loss / lr histories %.0e relative; object / probe %.0e relative Frobenius and %.0e max-norm; float32), "
        "not proved" % (TOL, ARR_L2, ARR_MAX),
        "torch.save/torch.load of a module preserve tensor values, optimizer.state and the sharing inside one "
        "pickle; copy.deepcopy preserves sharing inside one object graph (oracle contracts, exercised by every case)",
        "torch CPU kernels are deterministic functions of their inputs (single thread enforced by the harness)",
        "full-batch updates only: the mini-batch order is re-seeded on load and is outside the claim",
        "the model is the code with the state re-keyed by parameter (fixes/C05-reconnect-rekey-by-parameter.diff); "
        "for the positional re-keying of the pinned commit the resume theorem is refuted in Coq "
        "(C05_resume_equiv_as_written_refuted) and reproduced here by the learn_probe_tilt corpus case",
    ]
    ctx.cov["trusted_base"] += [
        "Coq 8.16.1 kernel incl. vm_compute (used to run the model and in the concrete witnesses)",
        "hand-written model coq/model/C05_Model.v, tied to /repo by the structural correspondence of this run",
        "the numerical kernels (forward/backward, torch.optim update rules, lr_scheduler rules) are universally "
        "quantified functions in the theorems, NOT modelled: their resume behaviour is covered by the differential runs only",
        "harness/props/C05.py, harness/c05_toy.py (drivers, observable extraction), harness/toy_ptycho.py (simulated data), harness/common.py",
    ]
    ctx.proofs_or_violation()

    _prepare()
    from .. import c05_toy as T  # noqa
    cases = gen_cases(ctx)
    workdir = tempfile.mkdtemp(prefix="c05_")
    results, exprs = [], []
    max_dev = {"reload": 0.0, "clone": 0.0, "live": 0.0}
    n_ok = 0
    for ci, case in enumerate(cases):
        cfg = case["cfg"]
        key = json.dumps(case, sort_keys=True, default=list)
        stateful = cfg["opt"] != "sgd" or cfg["sched"] != "none"
        ctx.count(key, nontrivial=(0 < case["k"] < case["n"]) and stateful)
        for d in ("opt", "sched", "obj_type", "num_probes"):
            ctx.dist("%s=%s" % (d, cfg[d]))
        ctx.dist("via=%s" % case["via"])
        ctx.dist("optimise=%s" % "+".join(cfg["optimise"]))
        ctx.dist("split=%s" % ("k=0" if case["k"] == 0 else "k=n" if case["k"] == case["n"] else "0<k<n"))
        if cfg["learn_probe_tilt"]:
            ctx.dist("probe_tilt_learned")
        try:
            res = run_case(case, workdir)
        except Exception as e:  # the implementation crashed on a valid history
            import traceback
            ctx.violation("case-raises-%s" % type(e).__name__,
                          "the implementation raised %s: %s on %s" % (type(e).__name__, e, describe(case)),
                          {"kind": "case", "case": case, "traceback": traceback.format_exc()})
            results.append(None)
            continue
        bad = oracle(case, res)
        res["bad"] = bad
        for bkey, what in bad:
            ctx.violation(bkey, what + "  [" + describe(case) + "]", {"kind": "case", "case": case})
        if not bad:
            n_ok += 1
            kind = "clone" if case["via"].startswith("clone") else "reload"
            for nm in ("obj", "probe"):
                max_dev[kind] = max(max_dev[kind], T.rel(res["resumed"][nm], res["ref"][nm]))
                max_dev["live"] = max(max_dev["live"], T.rel(res["live"][nm], res["ref"][nm]))
        results.append(res)
        exprs.append(coq_expr(case, res, live=False))
        exprs.append(coq_expr(case, res, live=True))
        if ci in (0, 2, 4, len(cases) - 1):
            ctx.sample({"case": describe(case), "losses_resumed": res["resumed"]["losses"],
                        "losses_uninterrupted": res["ref"]["losses"], "lrs_resumed": res["resumed"]["lrs"],
                        "structure_after_interrupt": res["s_q"], "oracle": [b[0] for b in bad] or "holds"})
    try:
        import shutil
        shutil.rmtree(workdir, ignore_errors=True)
    except Exception:
        pass
    ctx.log("oracle: %d cases, %d hold; max rel deviation from the uninterrupted run: %s" % (
        len(cases), n_ok, {k: "%.2e" % v for k, v in max_dev.items()}))
    ctx.cov["max_rel_deviation_observed"] = max_dev
    ctx.cov["tolerance"] = {"resume_histories_maxnorm": TOL, "resume_arrays_frobenius": ARR_L2, "resume_arrays_maxnorm": ARR_MAX, "reported": TOL_REPORT}

    vals = ctx.coq_eval("struct", PRE, exprs, shard=24) if exprs else []
    vi = 0
    nd = 0
    for case, res in zip(cases, results):
        if res is None:
            continue
        v_q, v_live = vals[vi], vals[vi + 1]
        vi += 2
        for label, v, snaps in (("continued copy", v_q, (res["s_k"], res["s_q"], res["s_qn"])),
                                ("live original", v_live, (res["s_k"], res["s_live"], res["s_liven"]))):
            ctx.cov["traces_validated_against_impl"] += 1
            names = ("after the first %d iterations" % case["k"], "after %s" % case["via"],
                     "after the remaining %d iterations" % (case["n"] - case["k"]))
            for ck, (mv, snap) in enumerate(zip(v, snaps)):
                if ck == 0 and (case["k"] == 0 and not case["cfg"]["optimise"]):
                    continue
                want = canon_struct(snap)
                got = canon_model(mv)
                if got is None and ck == 0:
                    continue      # no operation before the interruption
                if got != want:
                    nd += 1
                    ctx.cov["disagreements_checked"] += 1
                    ctx.violation(
                        "structure-correspondence",
                        "structural observables of the %s %s differ from the model: implementation %s, model %s  [%s]"
                        % (label, names[ck], want, got, describe(case)),
                        {"kind": "case", "case": case, "impl": repr(want), "model": repr(got), "which": label,
                         "checkpoint": names[ck]},
                        found_input=bool(res["bad"]))
                    break
    ctx.log("correspondence: %d traces, %d disagreements" % (ctx.cov["traces_validated_against_impl"], nd))


def replay(ctx: Ctx, path):
    rp = json.loads(open(path).read())
    if rp.get("kind") != "case":
        print("replay of kind %r: re-run ./check C05" % rp.get("kind"))
        return 0
    _prepare()
    case = rp["case"]
    case["cfg"]["scan"] = tuple(case["cfg"]["scan"])
    workdir = tempfile.mkdtemp(prefix="c05_")
    print("case:", describe(case))
    res = run_case(case, workdir)
    bad = oracle(case, res)
    print("uninterrupted losses:", res["ref"]["losses"])
    print("resumed       losses:", res["resumed"]["losses"])
    print("live original losses:", res["live"]["losses"])
    print("uninterrupted lrs:", res["ref"]["lrs"])
    print("resumed       lrs:", res["resumed"]["lrs"])
    print("structure after first %d iterations:" % case["k"], res["s_k"])
    print("structure after %s (continued copy):" % case["via"], res["s_q"])
    print("structure after %s (live original):" % case["via"], res["s_live"])
    try:
        v = ctx.coq_eval("replay", PRE, [coq_expr(case, res, False), coq_expr(case, res, True)])
        print("model (continued copy):", v[0])
        print("model (live original):", v[1])
    except Exception as e:  # noqa
        print("model evaluation failed:", e)
    for k_, what in bad:
        print("ORACLE FAILS [%s]: %s" % (k_, what))
    if not bad:
        print("oracle: property holds on this case")
    return 1 if bad else 0
